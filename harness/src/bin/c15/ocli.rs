//! O — the property on the implementation: two projects that differ only in the schema file (`schema.graphql` vs
//! `schema.json`, both rendered from the same model), same operation documents, same configuration, run through the
//! REAL CLI. `check`: per document, accepted by one route iff accepted by the other, and equal diagnostics.
//! `generate`: every declaration of the schema declaration file, the resolvers file and each operation declaration
//! file parses (`nvh::tsparse`) to the same tree modulo declaration order, union/intersection member order, object
//! key order, JSDoc comments, and the eight `__*` introspection types (documented exceptions of the property).
//! Documents per project: valid generated ones, route-sensitive probes (`variants`), and the labelled catalogue of
//! `catalogue.rs` (one fault per mutation operator of the operation-checker properties, an impossible and an applicable
//! spread for every pair of kinds, same-named members of several types under their own aliases).
use crate::json::{introspection_json, INTROSPECTION_TYPES, J};
use nvh::cli::{fresh_dir, run_cli, snapshot, Project};
use nvh::gen::{gen_doc, gen_project_cfg, GenCfg, SchemaModel};
use nvh::gm::*;
use nvh::{Args, Report, Rng, Sexp};
use serde_json::{json, Value};
use std::collections::{BTreeMap, BTreeSet};
use std::time::Duration;

#[derive(Clone, Debug)]
pub struct DocCase {
    pub name: String,
    pub text: String,
    /// "valid" or the injected fault's class
    pub fault: String,
    /// the document names a `__*` introspection type (exception of the property: those types exist on the JSON route only)
    pub exempt: bool,
}

#[derive(Clone, Debug)]
pub struct ProjectCase {
    pub sdl: String,
    pub json_text: String,
    /// config text with `SCHEMA_FILE` where the schema file name goes
    pub config: String,
    pub docs: Vec<DocCase>,
}

impl ProjectCase {
    fn to_json(&self, only: Option<&str>) -> Value {
        json!({"project": {
            "sdl": self.sdl, "json_text": self.json_text, "config": self.config,
            "docs": self.docs.iter().filter(|d| only.map_or(true, |o| d.name == o || d.fault == "valid")).map(|d| json!({"name": d.name, "text": d.text, "fault": d.fault, "exempt": d.exempt})).collect::<Vec<_>>(),
        }})
    }
    fn from_json(v: &Value) -> Option<ProjectCase> {
        let p = v.get("project")?;
        Some(ProjectCase {
            sdl: p["sdl"].as_str()?.to_string(),
            json_text: p["json_text"].as_str()?.to_string(),
            config: p["config"].as_str()?.to_string(),
            docs: p["docs"]
                .as_array()?
                .iter()
                .map(|d| DocCase { name: d["name"].as_str().unwrap_or("d.graphql").into(), text: d["text"].as_str().unwrap_or("").into(), fault: d["fault"].as_str().unwrap_or("valid").into(), exempt: d["exempt"].as_bool().unwrap_or(false) })
                .collect(),
        })
    }
}

fn first_op(doc: &mut Doc) -> Option<&mut OpDef> {
    doc.defs.iter_mut().find_map(|d| match d {
        ExecDef::Op(o) => Some(o),
        _ => None,
    })
}

/// injected faults and route-sensitive probes (class, document, exempt)
fn variants(m: &SchemaModel, base: &Doc) -> Vec<(String, Doc, bool)> {
    let mut out: Vec<(String, Doc, bool)> = vec![];
    let mut with = |class: &str, exempt: bool, f: &dyn Fn(&mut OpDef)| {
        let mut d = base.clone();
        if let Some(o) = first_op(&mut d) {
            f(o);
            o.shorthand = false;
            out.push((class.to_string(), d, exempt));
        }
    };
    with("unknown-field", false, &|o| o.sel.push(Sel::field("zzNope")));
    with("unknown-directive", false, &|o| o.dirs.push(Dir::new("nope", vec![])));
    with("unknown-fragment-type", false, &|o| o.sel.push(Sel::Inline { cond: Some(("ZzNope".into(), P::default())), dirs: vec![], sel: vec![Sel::field("__typename")], pos: P::default() }));
    with("unknown-variable-type", false, &|o| o.vars.push(VarDef { name: "zz".into(), pos: P::default(), ty: Ty::named("ZzNope"), default: None, dirs: vec![] }));
    with("unused-builtin-scalar-variables", false, &|o| {
        for (n, t) in [("zi", "Int"), ("zf", "Float"), ("zs", "String"), ("zb", "Boolean"), ("zd", "ID")] {
            o.vars.push(VarDef { name: n.into(), pos: P::default(), ty: Ty::named(t), default: None, dirs: vec![] });
        }
    });
    with("unknown-argument", false, &|o| {
        if let Some(Sel::Field { args, alias, .. }) = o.sel.iter_mut().find(|s| matches!(s, Sel::Field { .. })) {
            args.push(Arg::new("zzarg", Val::Int("1".into(), P::default())));
            if alias.is_none() {
                *alias = Some(("zzalias".into(), P::default()));
            }
        }
    });
    with("typename-at-root", false, &|o| o.sel.push(Sel::field("__typename")));
    with("meta-field-__schema", false, &|o| {
        o.sel.push(Sel::Field { alias: None, name: "__schema".into(), name_pos: P::default(), args: vec![], dirs: vec![], sel: Some(vec![Sel::field("description")]) })
    });
    with("deprecated-directive-in-operation", false, &|o| o.dirs.push(Dir::new("deprecated", vec![])));
    with("specifiedBy-directive-in-operation", false, &|o| o.dirs.push(Dir::new("specifiedBy", vec![Arg::new("url", Val::Str("u".into(), P::default()))])));
    with("skip-without-if", false, &|o| {
        if let Some(Sel::Field { dirs, .. }) = o.sel.iter_mut().find(|s| matches!(s, Sel::Field { .. })) {
            dirs.push(Dir::new("skip", vec![]));
        }
    });
    if m.directive_defs().any(|d| d.name == "tag") {
        // accepted iff the directive is repeatable: carries `isRepeatable`
        with("tag-twice", false, &|o| {
            o.dirs.retain(|d| d.name != "tag");
            o.dirs.push(Dir::new("tag", vec![Arg::new("label", Val::Str("a".into(), P::default()))]));
            o.dirs.push(Dir::new("tag", vec![Arg::new("label", Val::Str("b".into(), P::default()))]));
        });
    }
    // operation kinds the schema may or may not support (root-type defaults)
    for k in [OpKind::Mutation, OpKind::Subscription] {
        let class = format!("root-kind-switched:{}", k.as_str());
        with(&class, false, &|o| {
            o.kind = k;
            o.vars.clear();
            o.dirs.clear();
            o.sel = vec![Sel::field("__typename")];
        });
    }
    // documents naming introspection types: exempt (the `__*` types exist on the JSON route only)
    with("introspection-type-as-variable-type", true, &|o| o.vars.push(VarDef { name: "zk".into(), pos: P::default(), ty: Ty::named("__TypeKind"), default: None, dirs: vec![] }));
    with("introspection-type-as-fragment-type", true, &|o| o.sel.push(Sel::Inline { cond: Some(("__Type".into(), P::default())), dirs: vec![], sel: vec![Sel::field("name")], pos: P::default() }));
    out
}

pub fn build_project(m: &SchemaModel, rng: &mut Rng) -> (ProjectCase, BTreeSet<String>) {
    let cfg = GenCfg::default();
    let pc = gen_project_cfg(rng, m, false);
    let config = pc.yaml("SCHEMA_FILE", "ops/*.graphql", &[("schemaOutput", "out/schema.d.ts"), ("resolversOutput", "out/resolvers.d.ts")]);
    let mut docs = vec![];
    let mut feats: BTreeSet<String> = BTreeSet::new();
    let n_valid = 2;
    let mut bases = vec![];
    for i in 0..n_valid {
        let (d, f) = gen_doc(rng, m, &cfg);
        feats.extend(f.into_iter());
        docs.push(DocCase { name: format!("v{i}.graphql"), text: nvh::render::doc_text(&d), fault: "valid".into(), exempt: false });
        bases.push(d);
    }
    for (k, (class, d, exempt)) in variants(m, &bases[0]).into_iter().enumerate() {
        docs.push(DocCase { name: format!("f{k}.graphql"), text: nvh::render::doc_text(&d), fault: class, exempt });
    }
    // the labelled-fault catalogue: every mutation operator of the operation-checker properties once, every pair of
    // kinds with an impossible and an applicable spread, and the same-named members under their own aliases
    for (k, (class, d)) in crate::catalogue::fault_catalogue(rng, m, &bases).into_iter().enumerate() {
        docs.push(DocCase { name: format!("c{k}.graphql"), text: nvh::render::doc_text(&d), fault: format!("fault:{class}"), exempt: false });
    }
    for (k, (class, d, _fault)) in crate::catalogue::spread_pairs(rng, m).into_iter().enumerate() {
        docs.push(DocCase { name: format!("s{k}.graphql"), text: nvh::render::doc_text(&d), fault: class, exempt: false });
    }
    if let Some(d) = crate::catalogue::shared_members_doc(m) {
        feats.insert("same-named-members-selected".into());
        docs.push(DocCase { name: "vshared.graphql".into(), text: nvh::render::doc_text(&d), fault: "valid".into(), exempt: false });
    }
    let mut j = J::from_value(&introspection_json(m));
    if rng.coin() {
        // an introspection result that lists neither the `__*` types nor some of the built-in scalars (the reader does
        // not need them; the CLI adds the missing built-in scalars)
        crate::json::prune_types(&mut j, &|n| n.starts_with("__"));
        let mut names: Vec<&str> = crate::json::BUILTIN_SCALAR_NAMES.to_vec();
        rng.shuffle(&mut names);
        let k = 1 + rng.below(5);
        let dropped: Vec<String> = names.iter().take(k).map(|s| s.to_string()).collect();
        crate::json::prune_types(&mut j, &|n| dropped.iter().any(|d| d == n));
        feats.insert(format!("json-omits-builtin-scalars:{k}"));
    }
    let json_text = j.text();
    (ProjectCase { sdl: m.sdl(), json_text, config, docs }, feats)
}

#[derive(Debug, Clone, PartialEq, Eq, PartialOrd, Ord)]
struct Diag {
    line: i64,
    col: i64,
    message: String,
}

struct CheckOut {
    code: Option<i32>,
    /// per document file name
    diags: BTreeMap<String, Vec<Diag>>,
    /// diagnostics without an operation file (schema-level / command-level)
    other: Vec<String>,
    raw: String,
}

fn normalise_message(m: &str) -> String {
    // both are "this schema has no root type for that kind of operation": the SDL route without a schema definition looks
    // the default name up (unknown type), a route with declared roots reports the missing declaration
    for k in ["mutation", "subscription", "query"] {
        if m == format!("Root type for {k} operation is not defined") {
            return format!("<no root type for {k}>");
        }
    }
    for (k, n) in [("mutation", "Mutation"), ("subscription", "Subscription"), ("query", "Query")] {
        if m == format!("Type '{n}' is not defined") {
            return format!("<no root type for {k}>");
        }
    }
    m.to_string()
}

fn run_check(cli: &str, dir: &std::path::Path, args: &[&str]) -> CheckOut {
    let mut a = vec!["--output-format", "json"];
    a.extend_from_slice(args);
    let run = run_cli(cli, dir, &a, &[], Duration::from_secs(60));
    let mut out = CheckOut { code: run.code, diags: BTreeMap::new(), other: vec![], raw: format!("{} {}", run.stdout.chars().take(800).collect::<String>(), run.stderr.chars().take(400).collect::<String>()) };
    if let Ok(v) = serde_json::from_str::<Value>(run.stdout.trim()) {
        if let Some(errs) = v.get("check").and_then(|c| c.get("errors")).and_then(|e| e.as_array()) {
            for e in errs {
                let msg = normalise_message(e["message"].as_str().unwrap_or(""));
                match e.get("file").filter(|f| !f.is_null()) {
                    Some(f) if e["fileType"] == "operation" => {
                        let p = f["path"].as_str().unwrap_or("");
                        let name = p.rsplit('/').next().unwrap_or(p).to_string();
                        out.diags.entry(name).or_default().push(Diag { line: f["line"].as_i64().unwrap_or(-1), col: f["column"].as_i64().unwrap_or(-1), message: msg });
                    }
                    _ => out.other.push(msg),
                }
            }
        }
        if let Some(e) = v.get("error") {
            let m = e["message"].as_str().unwrap_or("");
            if m != "Command not successful: check" {
                out.other.push(format!("command error: {m}"));
            }
        }
    } else if run.code != Some(0) {
        out.other.push("unparsable CLI output".into());
    }
    for v in out.diags.values_mut() {
        v.sort();
    }
    out
}

/// key of a document class in the input distribution: the catalogue's classes in full, the others up to the first `:`
fn fault_key(fault: &str) -> &str {
    if fault.starts_with("fault:") || fault.contains("-spread:") {
        fault
    } else {
        fault.split(':').next().unwrap_or("")
    }
}

/// the same command in the two project directories, concurrently (two independent processes; results in route order)
fn run_both(cli: &str, dirs: &[std::path::PathBuf; 2], command: &str) -> Vec<CheckOut> {
    std::thread::scope(|s| {
        let hs: Vec<_> = dirs.iter().map(|d| s.spawn(move || run_check(cli, d, &[command]))).collect();
        hs.into_iter().map(|h| h.join().expect("CLI runner thread")).collect()
    })
}

// ---------------------------------------------------------------------------------------------------------------
// canonical form of emitted declaration files

fn is_intro(s: &str) -> bool {
    INTROSPECTION_TYPES.contains(&s)
}

/// `None` = dropped (JSDoc, anything named after an introspection type)
fn canon(s: &Sexp, dropped: &mut u64) -> Option<Sexp> {
    let Sexp::List(items) = s else { return Some(s.clone()) };
    let head = s.head().unwrap_or("");
    let name_at = |i: usize| items.get(i).and_then(|x| x.as_str()).unwrap_or("");
    let drop = match head {
        "doc" => true,
        "type" | "rawtype" | "namespace" => is_intro(name_at(2)),
        "const" => is_intro(name_at(3)),
        "field" | "strlit" | "ref" => is_intro(name_at(1)),
        _ => items.len() == 2 && items.iter().all(|x| x.as_str().is_some()) && is_intro(name_at(0)),
    };
    if drop {
        if head != "doc" {
            *dropped += 1;
        }
        return None;
    }
    let mut kids: Vec<Sexp> = items.iter().filter_map(|x| canon(x, dropped)).collect();
    let headless = !matches!(items.first(), Some(Sexp::Atom(_)));
    let sortable = matches!(head, "union" | "inter" | "obj" | "tsfile") || (headless && kids.iter().all(|k| matches!(k.head(), Some("type" | "rawtype" | "namespace" | "const" | "import" | "exportlist" | "exportdefault")) || (k.as_list().map_or(false, |l| l.len() == 2 && l.iter().all(|x| x.as_str().is_some())))));
    if sortable {
        let start = if headless { 0 } else { 1 };
        kids[start..].sort();
        if matches!(head, "union" | "inter") {
            kids.dedup();
        }
    }
    Some(Sexp::List(kids))
}

/// exported / declared names of a canonical file → their declaration
fn decls(file: &Sexp, prefix: &str, out: &mut BTreeMap<String, Sexp>) {
    for st in file.args() {
        collect_stmt(st, prefix, out);
    }
}
fn collect_stmt(st: &Sexp, prefix: &str, out: &mut BTreeMap<String, Sexp>) {
    match st.head() {
        Some("namespace") => {
            let n = st.args().get(1).and_then(|x| x.as_str()).unwrap_or("");
            if let Some(body) = st.args().get(2).and_then(|b| b.as_list()) {
                for s in body {
                    collect_stmt(s, &format!("{prefix}{n}."), out);
                }
            }
        }
        Some("type") | Some("rawtype") => {
            let n = st.args().get(1).and_then(|x| x.as_str()).unwrap_or("");
            out.insert(format!("{prefix}{n}"), st.clone());
        }
        Some("const") => {
            let n = st.args().get(2).and_then(|x| x.as_str()).unwrap_or("");
            out.insert(format!("{prefix}{n}"), st.clone());
        }
        Some(h) => {
            let k = format!("{prefix}<{h}>");
            let prev = out.remove(&k);
            let mut v = prev.and_then(|p| p.as_list().map(|l| l.to_vec())).unwrap_or_default();
            v.push(st.clone());
            out.insert(k, Sexp::List(v));
        }
        None => {}
    }
}

fn alias_class(name: &str) -> &'static str {
    let last = name.rsplit('.').next().unwrap_or(name);
    if ["Int", "Float", "String", "Boolean", "ID"].contains(&last) {
        "builtin-scalar"
    } else if last.starts_with("__") {
        "double-underscore-helper"
    } else if last.starts_with('<') {
        "imports-or-export-lists"
    } else if ["Resolvers", "ResolverOutput"].contains(&last) {
        "resolver-table"
    } else {
        "schema-type"
    }
}

fn file_kind(rel: &str) -> &'static str {
    if rel.ends_with("schema.d.ts") {
        "schema"
    } else if rel.ends_with("resolvers.d.ts") {
        "resolvers"
    } else {
        "operation"
    }
}

pub fn run_project(args: &Args, cli: &str, rep: &mut Report, pc: &ProjectCase, tag: &str) {
    let dirs = [fresh_dir(&args.scratch, &format!("c15-{tag}-sdl")), fresh_dir(&args.scratch, &format!("c15-{tag}-json"))];
    for (i, d) in dirs.iter().enumerate() {
        let mut pr = Project::default();
        if i == 0 {
            pr.add("schema.graphql", &pc.sdl);
            pr.add("graphql.config.yaml", &pc.config.replace("SCHEMA_FILE", "schema.graphql"));
        } else {
            pr.add("schema.json", &pc.json_text);
            pr.add("graphql.config.yaml", &pc.config.replace("SCHEMA_FILE", "schema.json"));
        }
        for doc in &pc.docs {
            pr.add(&format!("ops/{}", doc.name), &doc.text);
        }
        pr.write(d);
    }
    // ---- check, all documents
    let outs: Vec<CheckOut> = run_both(cli, &dirs, "check");
    rep.evaluations += 2;
    let (a, b) = (&outs[0], &outs[1]);
    if a.code.is_none() || b.code.is_none() || a.code.map_or(false, |c| c > 1) || b.code.map_or(false, |c| c > 1) {
        rep.fail("O", "cli:abnormal-exit", &format!("check: sdl exit {:?}, json exit {:?}: {} || {}", a.code, b.code, a.raw, b.raw), pc.to_json(None));
    }
    if a.other != b.other {
        rep.fail("O", "check:schema-level-diagnostics", &format!("non-document diagnostics differ: sdl {:?} vs json {:?}", a.other, b.other), pc.to_json(None));
    }
    let schema_level_failure = !a.other.is_empty() || !b.other.is_empty();
    for doc in &pc.docs {
        rep.o_cases += 1;
        let da = a.diags.get(&doc.name).cloned().unwrap_or_default();
        let db = b.diags.get(&doc.name).cloned().unwrap_or_default();
        rep.count(&format!("doc:{}", fault_key(&doc.fault)));
        if schema_level_failure {
            continue;
        }
        rep.count(&format!("verdict:{}:{}", fault_key(&doc.fault), match (da.is_empty(), db.is_empty()) {
            (true, true) => "both-accept",
            (false, false) => "both-reject",
            (true, false) => "sdl-accepts-json-rejects",
            (false, true) => "sdl-rejects-json-accepts",
        }));
        if doc.exempt {
            if da != db {
                rep.count("exempt:document-names-introspection-type:routes-differ");
            }
            continue;
        }
        if doc.fault == "valid" && !da.is_empty() && da == db {
            rep.count("note:generated-valid-document-rejected-by-both-routes");
        }
        if da.is_empty() != db.is_empty() {
            let dir = if da.is_empty() { "sdl-accepts-json-rejects" } else { "sdl-rejects-json-accepts" };
            rep.fail("O", &format!("check-verdict:{}:{dir}", doc.fault), &format!("document {} ({}): sdl route {:?}, json route {:?}", doc.name, doc.fault, da, db), pc.to_json(Some(&doc.name)));
        } else if da != db {
            rep.fail("O", &format!("check-diagnostics:{}", doc.fault), &format!("document {} ({}): diagnostics differ: sdl {:?} vs json {:?}", doc.name, doc.fault, da, db), pc.to_json(Some(&doc.name)));
        }
    }
    // ---- generate, on the documents both routes accept
    for d in dirs.iter() {
        for doc in &pc.docs {
            let rejected = a.diags.contains_key(&doc.name) || b.diags.contains_key(&doc.name);
            if rejected || doc.exempt {
                let _ = std::fs::remove_file(d.join("ops").join(&doc.name));
            }
        }
    }
    if !schema_level_failure {
        let gens: Vec<CheckOut> = run_both(cli, &dirs, "generate");
        rep.evaluations += 2;
        if gens[0].code != Some(0) || gens[1].code != Some(0) {
            rep.fail("O", "generate:exit-code", &format!("generate on documents both routes accept: sdl exit {:?} ({}), json exit {:?} ({})", gens[0].code, gens[0].raw, gens[1].code, gens[1].raw), pc.to_json(None));
        } else {
            let fa = snapshot(&dirs[0]);
            let fb = snapshot(&dirs[1]);
            let emitted = |f: &BTreeMap<String, Vec<u8>>| f.keys().filter(|k| k.ends_with(".ts")).cloned().collect::<BTreeSet<_>>();
            if emitted(&fa) != emitted(&fb) {
                rep.fail("O", "generate:file-set", &format!("emitted files differ: {:?} vs {:?}", emitted(&fa), emitted(&fb)), pc.to_json(None));
            }
            // K (real CLI vs expectation): the declaration order of the JSON route's schema file is the order of
            // `__schema.types` followed by the missing built-in scalars in the order Int Float String Boolean ID
            if let (Some(bytes), Some(j)) = (fb.get("out/schema.d.ts"), crate::json::parse_text(&pc.json_text)) {
                rep.k_cases += 1;
                let mut expected = crate::json::type_names(&j);
                for b in crate::json::BUILTIN_SCALAR_NAMES {
                    if !expected.iter().any(|n| n == b) {
                        expected.push(b.to_string());
                    }
                }
                if let Ok(tree) = nvh::tsparse::parse_file(&String::from_utf8_lossy(bytes)) {
                    let observed: Vec<String> = tree
                        .args()
                        .iter()
                        .filter(|st| st.head() == Some("type"))
                        .filter_map(|st| st.args().get(1).and_then(|n| n.as_str()).map(|n| n.to_string()))
                        .filter(|n| expected.contains(n))
                        .collect();
                    // relative order (a scalar whose configured TypeScript text mentions its own name has no top-level alias)
                    let expected: Vec<String> = expected.into_iter().filter(|n| observed.contains(n)).collect();
                    if observed != expected || observed.len() < 5 {
                        rep.fail("K", "route-json-order-cli", &format!("order of the top-level type aliases of the JSON route's schema file {:?} ≠ order of __schema.types + missing built-in scalars {:?}", observed, expected), pc.to_json(None));
                    }
                }
            }
            for rel in emitted(&fa).intersection(&emitted(&fb)) {
                rep.o_cases += 1;
                let ta = String::from_utf8_lossy(&fa[rel]).to_string();
                let tb = String::from_utf8_lossy(&fb[rel]).to_string();
                let (pa, pb) = (nvh::tsparse::parse_file(&ta), nvh::tsparse::parse_file(&tb));
                let (pa, pb) = match (pa, pb) {
                    (Ok(x), Ok(y)) => (x, y),
                    (x, y) => {
                        // an unparsable emitted file is C10's finding; here only a route difference matters
                        if x.is_ok() != y.is_ok() {
                            rep.fail("O", &format!("generate:{}:parses-on-one-route-only", file_kind(rel)), &format!("{rel}: sdl parses: {}, json parses: {}", x.is_ok(), y.is_ok()), pc.to_json(None));
                        } else {
                            rep.count("note:emitted-file-unparsable-on-both-routes");
                        }
                        continue;
                    }
                };
                let mut dropped = (0u64, 0u64);
                let ca = canon(&pa, &mut dropped.0).unwrap_or(Sexp::List(vec![]));
                let cb = canon(&pb, &mut dropped.1).unwrap_or(Sexp::List(vec![]));
                if dropped.1 > dropped.0 {
                    rep.count_n(&format!("exempt:introspection-types-in-{}-file(json route only)", file_kind(rel)), dropped.1 - dropped.0);
                }
                let (mut ma, mut mb) = (BTreeMap::new(), BTreeMap::new());
                decls(&ca, "", &mut ma);
                decls(&cb, "", &mut mb);
                rep.count_n(&format!("aliases-compared:{}", file_kind(rel)), ma.len() as u64);
                let names: BTreeSet<&String> = ma.keys().chain(mb.keys()).collect();
                for n in names {
                    let (x, y) = (ma.get(n), mb.get(n));
                    if x == y {
                        continue;
                    }
                    let how = match (x, y) {
                        (Some(_), None) => "missing-on-json-route",
                        (None, Some(_)) => "missing-on-sdl-route",
                        _ => "differs",
                    };
                    let show = |s: Option<&Sexp>| s.map(|s| s.to_line().chars().take(500).collect::<String>()).unwrap_or_else(|| "<absent>".into());
                    rep.fail("O", &format!("generate:{}:{}:{}", file_kind(rel), alias_class(n), how), &format!("{rel}: declaration {n}: sdl {} || json {}", show(x), show(y)), pc.to_json(None));
                }
            }
        }
    }
    for d in dirs.iter() {
        let _ = std::fs::remove_dir_all(d);
    }
}

pub fn o_case(args: &Args, cli: &str, rep: &mut Report, m: &SchemaModel, seed: u64) {
    if cli.is_empty() || !std::path::Path::new(cli).exists() {
        if !rep.notes.iter().any(|n| n.starts_with("no CLI")) {
            rep.notes.push("no CLI binary given (--cli): O stream skipped".into());
        }
        return;
    }
    let mut rng = Rng::new(seed.wrapping_mul(0x9E37_79B9).wrapping_add(15));
    let (pc, feats) = build_project(m, &mut rng);
    for f in feats {
        rep.count(&format!("doc-feature:{}", f.split(':').next().unwrap_or("")));
    }
    run_project(args, cli, rep, &pc, &format!("{seed}"));
}

pub fn replay_project(args: &Args, cli: &str, rep: &mut Report, case: &Value) {
    match ProjectCase::from_json(case) {
        Some(pc) => run_project(args, cli, rep, &pc, "replay"),
        None => rep.notes.push("replay: malformed project case".into()),
    }
}
