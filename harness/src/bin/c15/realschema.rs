//! Serialising the REAL `graphql_type_system::Schema` through its public interface into the canonical S-expression of
//! the Lean `SchemaIR` (grammar in lean/Driver/C15.lean), and running the real readers.
use graphql_type_system::{DirectiveDefinition, Field, InputValue, Node, ScalarDefinition, Schema, Type, TypeDefinition};
use nitrogql_ast::base::Pos;
use nvh::Sexp;
use std::borrow::Cow;

type S<'a> = Schema<Cow<'a, str>, Pos>;

fn desc(d: &Option<Node<Cow<str>, Pos>>) -> Sexp {
    match d {
        Some(s) => Sexp::call("desc", vec![Sexp::str(s.to_string())]),
        None => Sexp::call("nodesc", vec![]),
    }
}
fn dep(d: &Option<Cow<str>>) -> Sexp {
    match d {
        Some(s) => Sexp::call("dep", vec![Sexp::str(s.to_string())]),
        None => Sexp::call("nodep", vec![]),
    }
}
fn ty(t: &Type<Cow<str>, Pos>) -> Sexp {
    match t {
        Type::Named(n) => Sexp::call("named", vec![Sexp::str(n.to_string())]),
        Type::List(l) => Sexp::call("list", vec![ty(l.as_inner())]),
        Type::NonNull(l) => Sexp::call("nonnull", vec![ty(l.as_inner())]),
    }
}
fn iv(v: &InputValue<Cow<str>, Pos>) -> Sexp {
    Sexp::call(
        "iv",
        vec![
            Sexp::str(v.name.to_string()),
            desc(&v.description),
            ty(&v.r#type),
            match &v.default_value {
                Some(d) => Sexp::call("default", vec![Sexp::str(d.to_string())]),
                None => Sexp::call("nodefault", vec![]),
            },
            dep(&v.deprecation),
        ],
    )
}
fn field(f: &Field<Cow<str>, Pos>) -> Sexp {
    Sexp::call("field", vec![Sexp::str(f.name.to_string()), desc(&f.description), ty(&f.r#type), Sexp::call("args", f.arguments.iter().map(iv).collect()), dep(&f.deprecation)])
}
fn names(head: &str, ns: &[Node<Cow<str>, Pos>]) -> Sexp {
    Sexp::call(head, ns.iter().map(|n| Sexp::str(n.to_string())).collect())
}
fn type_def(t: &TypeDefinition<Cow<str>, Pos>) -> Sexp {
    let e = |h: &str| Sexp::call(h, vec![]);
    let (kind, name, d, fields, interfaces, possible, members, inputs) = match t {
        TypeDefinition::Scalar(x) => ("scalar", &x.name, &x.description, e("fields"), e("interfaces"), e("possible"), e("members"), e("inputs")),
        TypeDefinition::Object(x) => ("object", &x.name, &x.description, Sexp::call("fields", x.fields.iter().map(field).collect()), names("interfaces", &x.interfaces), e("possible"), e("members"), e("inputs")),
        TypeDefinition::Interface(x) => ("interface", &x.name, &x.description, Sexp::call("fields", x.fields.iter().map(field).collect()), names("interfaces", &x.interfaces), e("possible"), e("members"), e("inputs")),
        TypeDefinition::Union(x) => ("union", &x.name, &x.description, e("fields"), e("interfaces"), names("possible", &x.possible_types), e("members"), e("inputs")),
        TypeDefinition::Enum(x) => (
            "enum",
            &x.name,
            &x.description,
            e("fields"),
            e("interfaces"),
            e("possible"),
            Sexp::call("members", x.members.iter().map(|m| Sexp::call("member", vec![Sexp::str(m.name.to_string()), desc(&m.description), dep(&m.deprecation)])).collect()),
            e("inputs"),
        ),
        TypeDefinition::InputObject(x) => ("input", &x.name, &x.description, e("fields"), e("interfaces"), e("possible"), e("members"), Sexp::call("inputs", x.fields.iter().map(iv).collect())),
    };
    Sexp::call("type", vec![Sexp::atom(kind), Sexp::str(name.to_string()), desc(d), fields, interfaces, possible, members, inputs])
}
fn directive(d: &DirectiveDefinition<Cow<str>, Pos>) -> Sexp {
    Sexp::call(
        "directive",
        vec![Sexp::str(d.name.to_string()), desc(&d.description), names("locations", &d.locations), Sexp::call("args", d.arguments.iter().map(iv).collect()), Sexp::bool(d.repeatable.is_some())],
    )
}
fn root(r: &Option<Node<Cow<str>, Pos>>) -> Sexp {
    match r {
        Some(n) => Sexp::call("some", vec![Sexp::str(n.to_string())]),
        None => Sexp::call("none", vec![]),
    }
}

/// through `description`, `root_types`, `iter_types`, `iter_directives` only; `get_type`/`get_directive` are
/// cross-checked against the iteration (first definition of a name, every listed name resolvable)
pub fn schema_sexp(s: &S) -> Sexp {
    use graphql_type_system::OriginalNodeRef;
    let rt = s.root_types();
    let explicit = !rt.original_node_ref().builtin;
    let mut lookups_ok = true;
    for (n, t) in s.iter_types() {
        lookups_ok &= s.get_type(n).map_or(false, |g| g.name() == t.name());
    }
    for (n, d) in s.iter_directives() {
        lookups_ok &= s.get_directive(n).map_or(false, |g| g.name() == d.name());
    }
    let mut v = vec![
        desc(s.description()),
        Sexp::call("roots", vec![Sexp::bool(explicit), root(&rt.query_type), root(&rt.mutation_type), root(&rt.subscription_type)]),
        Sexp::call("types", s.iter_types().map(|(_, t)| type_def(t)).collect()),
        Sexp::call("directives", s.iter_directives().map(|(_, d)| directive(d)).collect()),
    ];
    if !lookups_ok {
        v.push(Sexp::atom("lookup-inconsistent"));
    }
    Sexp::call("schema", v)
}

/// classify the real reader's error the way the driver prints the model's
pub fn classify_error(msg: &str) -> Sexp {
    let intro = |m: &str| Sexp::call("err", vec![Sexp::atom("intro"), Sexp::atom(m)]);
    if let Some(rest) = msg.strip_prefix("Introspection type system error: ") {
        if rest.starts_with("field 'name' of __Type") {
            return intro("name-must-be-string");
        } else if rest.starts_with("'ofType' of __Type must exist") {
            return intro("oftype-must-exist");
        } else if rest.starts_with("Invalid kind") {
            return intro("invalid-kind");
        } else if rest.starts_with("Unknown kind") {
            return intro("unknown-kind");
        } else if rest.contains("UNION") {
            return intro("union-possible-types");
        } else if rest.contains("INPUT_OBJECT") {
            return intro("input-input-fields");
        } else if rest.contains("ENUM") {
            return intro("enum-enum-values");
        }
        return intro("unclassified");
    }
    Sexp::call("err", vec![Sexp::atom("json")])
}

/// what `extend_loaded_schema` (crates/cli/src/main.rs) does to a schema read from introspection JSON; the CLI is a
/// binary crate, so the five lines are restated here on the real `Schema::extend` (the real thing is exercised by O)
pub fn add_builtin_scalars(schema: &mut S) {
    schema.extend(["Int", "Float", "String", "Boolean", "ID"].map(|name| {
        (name.into(), Node::from(TypeDefinition::Scalar(ScalarDefinition { name: Node::from(name, Pos::builtin()), description: None }), Pos::builtin()))
    }));
}

/// run the real reader on a JSON text; `f` sees the schema
pub fn read_json<R>(text: &str, f: impl FnOnce(&mut S) -> R) -> Result<R, Sexp> {
    match nvh::catch(std::panic::AssertUnwindSafe(|| nitrogql_introspection::schema_from_introspection_json::<Pos>(text))) {
        Err(p) => Err(Sexp::call("panic", vec![Sexp::str(p)])),
        Ok(Err(e)) => Err(classify_error(&e.to_string())),
        Ok(Ok(mut s)) => Ok(f(&mut s)),
    }
}
