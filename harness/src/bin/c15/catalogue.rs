//! Labelled operation documents for the two-route comparison of `check` (and, for the valid ones, `generate`):
//!
//! * `fault_catalogue` — every mutation operator of `opcheck/mutate.rs` (one labelled fault per rule the operation
//!   checker implements: selections, arguments, values, variables, fragments, directives, document-level names,
//!   subscription roots) applied once to a valid generated document of the schema;
//! * `spread_pairs` — for each of the nine combinations scope kind × type-condition kind (object / interface / union)
//!   one spread that can never apply (disjoint possible types) and one that can (overlapping possible types), hosted in a
//!   query through fields or in an unspread fragment, written as inline fragment or named fragment;
//! * `shared_members_doc` — a valid document that selects the same-named members that several types define
//!   differently (see `add_shared_member_names`), each under its own alias.
//!
//! Nothing here knows which route is which: a schema read from an introspection result carries no positions (every
//! node has the default position), a parsed SDL has a distinct position per node; whatever in the checker or in the
//! printers identifies or orders schema nodes by position answers differently on the two routes for these documents.
use crate::mutate::{self, field_path, MCtx, Sch};
use nvh::gen::SchemaModel;
use nvh::gm::*;
use nvh::Rng;
use std::collections::{BTreeMap, BTreeSet};

fn p0() -> P {
    P::default()
}

/// stable class of a labelled fault: rule + mutation operator (+ the pair of kinds for impossible spreads)
fn fault_class(l: &mutate::Label) -> String {
    let op = l.mutation.split('(').next().unwrap_or("");
    let mut s = format!("{}:{}", l.rule, op);
    if op.starts_with("impossible-spread") {
        // class ends with `<Cond>-in-<Scope>` (between-types: second segment)
        if let Some(k) = l.class.split('/').find(|seg| seg.contains("-in-")) {
            s.push(':');
            s.push_str(&k.to_lowercase());
        }
    }
    s
}

/// one mutant per mutation operator (operators that find no site in any base are skipped)
pub fn fault_catalogue(rng: &mut Rng, m: &SchemaModel, bases: &[Doc]) -> Vec<(String, Doc)> {
    let sch = Sch { m };
    let sites: Vec<mutate::Sites> = bases.iter().map(|d| mutate::collect_sites(&sch, d)).collect();
    let mut out = vec![];
    for (k, name) in mutate::MUTATIONS.iter().enumerate() {
        for off in 0..bases.len() {
            let b = (k + off) % bases.len();
            let mut mc = MCtx { rng, sch: &sch, doc: &bases[b], sites: &sites[b], only_def: None };
            if let Some(mu) = mutate::apply(name, &mut mc) {
                out.push((fault_class(&mu.label), mu.doc));
                break;
            }
        }
    }
    out
}

fn kind_name(k: TypeKind) -> &'static str {
    match k {
        TypeKind::Object => "object",
        TypeKind::Interface => "interface",
        TypeKind::Union => "union",
        _ => "other",
    }
}

/// (class, document, is a fault)
pub fn spread_pairs(rng: &mut Rng, m: &SchemaModel) -> Vec<(String, Doc, bool)> {
    let comps: Vec<(String, TypeKind, BTreeSet<String>)> = m
        .types()
        .filter(|t| matches!(t.kind, TypeKind::Object | TypeKind::Interface | TypeKind::Union))
        .map(|t| (t.name.clone(), t.kind, m.possible_types(&t.name).into_iter().collect()))
        .collect();
    // (scope kind, condition kind, disjoint?) → pairs (scope, condition)
    let mut groups: BTreeMap<(&'static str, &'static str, bool), Vec<(String, String)>> = BTreeMap::new();
    for (p, pk, pp) in &comps {
        if pp.is_empty() {
            continue; // an interface nobody implements as the scope: everything is "impossible" by the letter of the rule
        }
        for (t, tk, tp) in &comps {
            let disjoint = pp.is_disjoint(tp);
            if disjoint && p == t {
                continue;
            }
            groups.entry((kind_name(*pk), kind_name(*tk), disjoint)).or_default().push((p.clone(), t.clone()));
        }
    }
    let spread = |n: &str| Sel::Spread { name: n.into(), name_pos: p0(), dirs: vec![], pos: p0() };
    let frag = |n: &str, on: &str, sel: Vec<Sel>| ExecDef::Frag(FragDef { name: n.into(), name_pos: p0(), cond: on.into(), cond_pos: p0(), dirs: vec![], sel, pos: p0() });
    let mut out = vec![];
    for ((pk, tk, disjoint), pairs) in &groups {
        // a pair of two DIFFERENT types when there is one (the same type trivially applies to itself)
        let differing: Vec<&(String, String)> = pairs.iter().filter(|(p, t)| p != t).collect();
        let (p, t) = if !differing.is_empty() && (*disjoint || rng.chance(3, 4)) { differing[rng.below(differing.len())].clone() } else { pairs[rng.below(pairs.len())].clone() };
        let mut defs: Vec<ExecDef> = vec![];
        let inline_t = Sel::Inline { cond: Some((t.clone(), p0())), dirs: vec![], sel: vec![Sel::field("__typename")], pos: p0() };
        let (inner, form) = match rng.below(3) {
            0 => (vec![Sel::field("__typename"), inline_t], "inline"),
            1 => {
                defs.push(frag("ZzCondT", &t, vec![Sel::field("__typename")]));
                (vec![spread("ZzCondT"), Sel::field("__typename")], "named")
            }
            _ => {
                defs.push(frag("ZzCondT", &t, vec![Sel::field("__typename")]));
                (vec![Sel::Inline { cond: None, dirs: vec![], sel: vec![Sel::field("__typename"), spread("ZzCondT")], pos: p0() }], "named-under-untyped-inline")
            }
        };
        let path = if rng.chance(2, 3) { field_path(m, &m.query, &p, 4) } else { None };
        let host = match path {
            Some(path) => {
                let mut sel = inner;
                for f in path.iter().rev() {
                    sel = vec![Sel::Field { alias: None, name: f.clone(), name_pos: p0(), args: vec![], dirs: vec![], sel: Some(sel) }];
                }
                defs.insert(0, ExecDef::Op(OpDef { kind: OpKind::Query, name: Some(("ZzSpreadHost".into(), p0())), vars: vec![], dirs: vec![], sel, pos: p0(), shorthand: false }));
                "operation"
            }
            None => {
                defs.insert(0, frag("ZzScopeP", &p, inner));
                "unspread-fragment"
            }
        };
        let _ = (host, form);
        let class = format!("{}:{tk}-in-{pk}", if *disjoint { "impossible-spread" } else { "applicable-spread" });
        out.push((class, Doc { defs }, *disjoint));
    }
    out
}

// ---------------------------------------------------------------------------------------------------------------
// same-named members defined differently by several types

const SHARED_RESULT: [&str; 5] = ["Int", "[String!]!", "Boolean!", "[[ID]]", "Float"];
const SHARED_ARG: [&str; 6] = ["String", "[Int!]", "Boolean", "ID", "Float", "Int"];
const SHARED_INPUT: [&str; 4] = ["[String!]", "Boolean", "Int", "[[Float]]"];

fn ty_of(text: &str) -> Ty {
    // tiny parser of the constant texts above
    fn go(s: &str) -> Ty {
        if let Some(inner) = s.strip_suffix('!') {
            return Ty::non_null(go(inner));
        }
        if let Some(inner) = s.strip_prefix('[').and_then(|x| x.strip_suffix(']')) {
            return Ty::list(go(inner));
        }
        Ty::named(s)
    }
    go(text)
}

fn literal_for(text: &str) -> Val {
    match text {
        "String" => Val::Str("s".into(), p0()),
        "[Int!]" => Val::List(vec![Val::Int("1".into(), p0()), Val::Int("2".into(), p0())], p0()),
        "Boolean" => Val::Bool(true, p0()),
        "ID" => Val::Str("i".into(), p0()),
        "Float" => Val::Float("1.5".into(), p0()),
        _ => Val::Int("7".into(), p0()),
    }
}

/// Schema decoration (valid by construction): every object type gets a field `zshared(zarg: A): R`, every input object a
/// field `zshared: T`, every enum a value `ZSHARED` — same member names, a different type per owner.
pub fn add_shared_member_names(m: &mut SchemaModel) {
    let (mut no, mut ni) = (0usize, 0usize);
    for item in m.doc.items.iter_mut() {
        let TsItem::TypeDef(t) = item else { continue };
        match t.kind {
            TypeKind::Object if !t.fields.iter().any(|f| f.name == "zshared") => {
                let arg = InputValueDef { desc: None, name: "zarg".into(), pos: p0(), ty: ty_of(SHARED_ARG[no % SHARED_ARG.len()]), default: None, dirs: vec![] };
                t.fields.push(FieldDef { desc: None, name: "zshared".into(), pos: p0(), args: vec![arg], ty: ty_of(SHARED_RESULT[no % SHARED_RESULT.len()]), dirs: vec![] });
                no += 1;
            }
            TypeKind::Input if !t.inputs.iter().any(|f| f.name == "zshared") => {
                t.inputs.push(InputValueDef { desc: None, name: "zshared".into(), pos: p0(), ty: ty_of(SHARED_INPUT[ni % SHARED_INPUT.len()]), default: None, dirs: vec![] });
                ni += 1;
            }
            TypeKind::Enum if !t.values.iter().any(|v| v.name == "ZSHARED") => {
                t.values.push(EnumValueDef { desc: None, name: "ZSHARED".into(), pos: p0(), dirs: vec![] });
            }
            _ => {}
        }
    }
}

/// a valid document of fragments only: `zshared` of every object type (own fragment), and under every interface / union
/// with several possible types one inline fragment per possible type, each selection under its own alias
pub fn shared_members_doc(m: &SchemaModel) -> Option<Doc> {
    let owners: Vec<&TypeDef> = m.types().filter(|t| t.kind == TypeKind::Object && t.fields.iter().any(|f| f.name == "zshared")).collect();
    if owners.len() < 2 {
        return None;
    }
    let select = |o: &TypeDef, alias: &str| -> Sel {
        let f = o.fields.iter().find(|f| f.name == "zshared").unwrap();
        let args = f
            .args
            .iter()
            .filter(|a| a.name == "zarg")
            .filter_map(|a| SHARED_ARG.iter().find(|t| ty_of(t) == a.ty).map(|t| Arg::new("zarg", literal_for(t))))
            .collect();
        Sel::Field { alias: Some((alias.into(), p0())), name: "zshared".into(), name_pos: p0(), args, dirs: vec![], sel: None }
    };
    let mut defs = vec![];
    for o in &owners {
        defs.push(ExecDef::Frag(FragDef { name: format!("ZzShared{}", o.name.trim_start_matches('_')), name_pos: p0(), cond: o.name.clone(), cond_pos: p0(), dirs: vec![], sel: vec![select(o, "own")], pos: p0() }));
    }
    for t in m.types().filter(|t| matches!(t.kind, TypeKind::Interface | TypeKind::Union)) {
        let poss: Vec<&&TypeDef> = owners.iter().filter(|o| m.possible_types(&t.name).contains(&o.name)).collect();
        if poss.len() < 2 {
            continue;
        }
        let sel = poss
            .iter()
            .enumerate()
            .map(|(i, o)| Sel::Inline { cond: Some((o.name.clone(), p0())), dirs: vec![], sel: vec![select(o, &format!("zs{i}"))], pos: p0() })
            .chain(std::iter::once(Sel::field("__typename")))
            .collect();
        defs.push(ExecDef::Frag(FragDef { name: format!("ZzSharedIn{}", t.name.trim_start_matches('_')), name_pos: p0(), cond: t.name.clone(), cond_pos: p0(), dirs: vec![], sel, pos: p0() }));
    }
    Some(Doc { defs })
}
