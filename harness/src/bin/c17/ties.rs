//! C17 (a'') — run-to-run determinism of FAULTY multi-file projects whose diagnostics TIE on (line, column).
//!
//! Added after seeded mutation m5 (diagnostics collected per name in a hash map, then stably sorted by a position
//! order that ignores the file: diagnostics at the same line and column of DIFFERENT files keep their hash order)
//! had no failing input: the faulty projects of the `repeat` stream put their faults at positions that differ
//! from file to file, so any "sort by position" hid a process-random order.
//!
//! The family: a fault TEMPLATE is instantiated k = 2..6 times, one instance per file, with identifiers of equal
//! width, so that every diagnostic of one instance has a twin at the same (line, column) in each of the other k-1
//! files. Templates exist for every stage that reports diagnostics (schema parse / extension resolution / type
//! system check, operation parse / import resolution / operation check) and for verbatim copy-pasted operation
//! files. Each project is run in N fresh processes per (command, output format) — human, json, rdjson — and exit
//! code, stdout, stderr and all files are compared byte for byte with the first run.
//!
//! N (quick) = 6: k = 3 tied diagnostics in a uniformly random order show two different orders among 6 runs with
//! probability 1 - 6^-5 = 0.99987 (N = 5 would give 0.99923); every template is also run with a second k and in
//! 4 (command, format) combinations, each an independent set of N runs.
use nvh::cli::{fresh_dir, run_cli, snapshot, Project};
use nvh::prng::Rng;
use serde_json::{json, Value};
use std::collections::{BTreeMap, BTreeSet};
use std::sync::atomic::{AtomicUsize, Ordering};
use std::sync::Mutex;
use std::time::Duration;

pub type Files = Vec<(String, String)>;

pub struct Tpl {
    /// the stage whose diagnostics tie (part of the signature)
    pub stage: &'static str,
    pub name: &'static str,
    /// definitions shared by all instances (schema templates: added to the base schema file; operation templates:
    /// the schema besides `type Query`)
    pub base: &'static str,
    /// one line per instance in the base schema file / in a file of its own (`%` = the instance's identifier)
    pub per_unit_base: &'static str,
    /// the text of the instance's file (`%` = the instance's identifier; no `%` = verbatim copies)
    pub unit: &'static str,
    /// identifiers to draw from instead of random two-letter ones (names of built-in types)
    pub ids: Option<&'static [&'static str]>,
    /// the stage stops at its first diagnostic: one diagnostic of k candidates is reported
    pub single: bool,
}

const fn t(stage: &'static str, name: &'static str, base: &'static str, per_unit_base: &'static str, unit: &'static str) -> Tpl {
    Tpl { stage, name, base, per_unit_base, unit, ids: None, single: false }
}

const QUERY: &str = "type Query { ok: Int user(id: ID!): User users: [User!]! }\ntype User { id: ID! name: String friend: User }\ninput Filter { x: Int }\n";

pub fn templates() -> Vec<Tpl> {
    vec![
        // ---- type system check: names ------------------------------------------------------------------------
        t("schema-check", "dup-type-across-kinds", "", "type N% { x: Int }\n", "enum N% { A }\n"),
        t("schema-check", "dup-interface-vs-input", "", "input N% { x: Int }\n", "interface N% { x: Int }\n"),
        t("schema-check", "dup-scalar-vs-union", "", "union N% = Query\n", "scalar N%\n"),
        t("schema-check", "dup-enum-then-type", "", "enum N% { A }\n", "type N% { x: Int }\n"),
        t("schema-check", "dup-directive", "", "directive @d% on FIELD_DEFINITION\n", "directive @d% on OBJECT\n"),
        Tpl { ids: Some(&["Int", "String", "Float", "Boolean", "ID"]), ..t("schema-check", "builtin-name-taken-by-enum", "", "", "enum % { A }\n") },
        t("schema-check", "dup-type-and-directive", "", "type N% { x: Int }\ndirective @N% on OBJECT\n", "directive @N% on ENUM\nenum N% { A }\n"),
        // ---- type system check: per-definition rules ---------------------------------------------------------
        t("schema-check", "unknown-field-type", "", "", "type T% { f: Missing% }\n"),
        t("schema-check", "unknown-types-one-line", "", "", "type T% { f: Missing% g(a: Other%): Int }\n"),
        t("schema-check", "unknown-argument-type", "", "", "type T% { f(a: Missing%): Int }\n"),
        t("schema-check", "unknown-input-field-type", "", "", "input I% { f: Missing% }\n"),
        t("schema-check", "directive-location", "directive @onf on FIELD_DEFINITION\n", "", "type T% @onf { f: Int }\n"),
        t("schema-check", "unknown-directive", "", "", "type T% @nope% { f: Int }\n"),
        t("schema-check", "repeated-directive", "directive @once on OBJECT\n", "", "type T% @once @once { f: Int }\n"),
        t("schema-check", "duplicate-field", "", "", "type T% { f: Int f: String }\n"),
        t("schema-check", "duplicate-enum-value", "", "", "enum E% { A B A }\n"),
        t("schema-check", "duplicate-argument", "", "", "type T% { f(a: Int, a: Int): Int }\n"),
        t("schema-check", "interface-field-missing", "interface Must { must: Int }\n", "", "type T% implements Must { other: Int }\n"),
        t("schema-check", "interface-unknown", "", "", "type T% implements Nowhere% { f: Int }\n"),
        t("schema-check", "union-member-kind", "", "", "union U% = Int\n"),
        t("schema-check", "union-member-unknown", "", "", "union U% = Query | Missing%\n"),
        t("schema-check", "input-in-output-position", "", "", "type T% { f: Filter }\n"),
        t("schema-check", "output-in-input-position", "", "", "input I% { f: User }\n"),
        t("schema-check", "directive-argument-unknown-type", "", "", "directive @d%(a: Missing%) on OBJECT\n"),
        t("schema-check", "directive-recursion", "", "", "directive @r%(a: Int @r%) on ARGUMENT_DEFINITION\n"),
        t("schema-check", "module-of-three", "directive @onf on FIELD_DEFINITION\n", "type N% { x: Int }\n", "type T% { f: Missing% }\nenum N% { A }\ntype V% @onf { f: Int f: Int }\n"),
        t("schema-check", "extension-adds-duplicate-field", "type Host { h: Int }\n", "", "extend type Host { h: String }\n"),
        t("schema-check", "extension-unknown-type", "", "type X% { x: Int }\n", "extend type X% { f: Missing% }\n"),
        // ---- schema stages that stop at the first diagnostic / report per file -------------------------------
        Tpl { single: true, ..t("schema-resolve", "extension-of-missing-type", "", "", "extend type Missing% { f: Int }\n") },
        Tpl { single: true, ..t("schema-resolve", "dup-type-same-kind", "", "type N% { x: Int }\n", "type N% { y: Int }\n") },
        Tpl { single: true, ids: Some(&["Int", "String", "Float", "Boolean", "ID"]), ..t("schema-resolve", "builtin-scalar-redeclared", "", "", "scalar %\n") },
        Tpl { single: true, ..t("schema-resolve", "extension-of-other-kind", "", "enum K% { A }\n", "extend type K% { f: Int }\n") },
        t("schema-parse", "parse-error-in-every-file", "", "", "type T% { f: }\n"),
        t("schema-parse", "parse-error-unclosed", "", "", "type T% { f: Int\n"),
        // ---- operation check ---------------------------------------------------------------------------------
        t("op-check", "unknown-field", "", "", "query Q% { nope }\n"),
        t("op-check", "unknown-field-copy-pasted", "", "", "query Q { nope }\n"),
        t("op-check", "unknown-nested-field", "", "", "query Q% { user(id: \"1\") { id nope } }\n"),
        t("op-check", "unknown-fragment", "", "", "query Q% { ...Missing% }\n"),
        t("op-check", "unknown-variable-type", "", "", "query Q%($v: Nope%) { ok }\n"),
        t("op-check", "variable-type-mismatch", "", "", "query Q%($v: Int) { user(id: $v) { id } }\n"),
        t("op-check", "undefined-variable", "", "", "query Q% { user(id: $v) { id } }\n"),
        t("op-check", "missing-required-argument", "", "", "query Q% { user { id } }\n"),
        t("op-check", "unknown-argument", "", "", "query Q% { ok(x: 1) }\n"),
        t("op-check", "selection-on-scalar", "", "", "query Q% { ok { x } }\n"),
        t("op-check", "no-selection-on-object", "", "", "query Q% { users }\n"),
        t("op-check", "fragment-on-unknown-type", "", "", "query Q% { ok }\nfragment F% on Nope% { x }\n"),
        t("op-check", "fragment-cycle", "", "", "query Q% { ...A% }\nfragment A% on Query { ...B% }\nfragment B% on Query { ...A% }\n"),
        t("op-check", "duplicate-operation-name", "", "", "query Q% { ok }\nquery Q% { users { id } }\n"),
        t("op-check", "duplicate-fragment-name", "", "", "query Q% { ...F% }\nfragment F% on Query { ok }\nfragment F% on Query { ok }\n"),
        t("op-check", "unknown-directive", "", "", "query Q% { ok @nope% }\n"),
        t("op-check", "wrong-argument-type", "", "", "query Q% { user(id: [1]) { id } }\n"),
        t("op-check", "no-mutation-root", "", "", "mutation M% { ok }\n"),
        t("op-check", "module-of-three-copy-pasted", "", "", "query A($v: Int) { nope }\nquery B { user { id } ...Missing }\nfragment F on Nope { x }\n"),
        t("op-check", "module-of-three", "", "", "query A%($v: Int) { nope }\nquery B% { user { id } ...Missing% }\nfragment F% on Nope% { x }\n"),
        // ---- operation stages before the check ---------------------------------------------------------------
        t("op-parse", "parse-error-in-every-file", "", "", "query Q% { ok\n"),
        t("op-parse", "parse-error-copy-pasted", "", "", "query Q { user(id: ) { id } }\n"),
        t("op-resolve", "import-of-missing-file", "", "", "#import F% from \"./missing%.graphql\"\nquery Q% { ...F% }\n"),
        t("op-resolve", "import-of-missing-fragment", "", "", "#import Gone% from \"./lib.graphql\"\nquery Q% { ...Gone% }\n"),
    ]
}

const IDS: [&str; 40] = [
    "Aa", "Bq", "Zx", "Kd", "Mm", "Pe", "Rt", "Wy", "Cu", "Ho", "Jn", "Lv", "Dz", "Fg", "Gi", "Eb", "Nk", "Os", "Qc", "Tj",
    "Ux", "Vh", "Xl", "Yr", "Ia", "Sw", "ab", "cd", "ef", "gh", "kz", "mn", "pq", "rs", "tu", "vw", "xy", "zz", "A1", "b2",
];

const CONFIG_TEXT: &str = super::targeted::TARGETED_CONFIG;

/// k instances of the template, one per file
/// `split`: the per-instance lines of the base go to files of their own (`b_<id>`), so that BOTH definitions of a
/// clashing pair sit at the same position of k files — whichever of the two the diagnostic names, it ties
pub fn project(rng: &mut Rng, tpl: &Tpl, k: usize, split: bool) -> Files {
    let mut ids: Vec<&str> = match tpl.ids {
        Some(fixed) => fixed.to_vec(),
        None => IDS.to_vec(),
    };
    rng.shuffle(&mut ids);
    ids.truncate(k.min(ids.len()));
    let inst = |text: &str, id: &str| text.replace('%', id);
    let mut files: Files = vec![];
    let schema_stage = tpl.stage.starts_with("schema");
    // the base schema file sorts first (the later definition of a clashing pair is the one in the instance's file)
    // (the smallest base the template needs: the base is part of the replay)
    let needs_rest = !schema_stage || [tpl.base, tpl.per_unit_base, tpl.unit].iter().any(|x| x.contains("User") || x.contains("Filter"));
    let mut base = String::from(if needs_rest { QUERY } else { "type Query { ok: Int }\n" });
    base.push_str(tpl.base);
    let split_base = !tpl.per_unit_base.is_empty() && split;
    if !split_base {
        let mut order: Vec<&&str> = ids.iter().collect();
        if rng.coin() {
            order.reverse();
        }
        for id in order {
            base.push_str(&inst(tpl.per_unit_base, id));
        }
    }
    files.push(("schema/a_base.graphql".to_string(), base));
    if split_base {
        for id in &ids {
            files.push((format!("schema/b_{id}.graphql"), inst(tpl.per_unit_base, id)));
        }
    }
    if schema_stage {
        for id in &ids {
            files.push((format!("schema/u_{id}.graphql"), inst(tpl.unit, id)));
        }
        files.push(("ops/q.graphql".to_string(), "query Ok { ok }\n".to_string()));
    } else {
        files.push(("ops/lib.graphql".to_string(), "fragment Lib on Query { ok }\nquery Ok { ...Lib }\n".to_string()));
        for (i, id) in ids.iter().enumerate() {
            // verbatim copies differ in their file names only
            let name = if tpl.unit.contains('%') { format!("ops/u_{id}.graphql") } else { format!("ops/u_copy{i}_{id}.graphql") };
            files.push((name, inst(tpl.unit, id)));
        }
    }
    files.push((super::CONFIG.to_string(), CONFIG_TEXT.to_string()));
    files
}

pub struct Job<'a> {
    pub files: &'a Files,
    pub cmd: &'a str,
    pub format: &'a str,
}

#[derive(Clone, PartialEq)]
pub struct Out {
    pub code: Option<i32>,
    pub stdout: String,
    pub stderr: String,
    /// every file below the project directory after the run (inputs included: they must not be touched)
    pub files: BTreeMap<String, Vec<u8>>,
}

/// every job in a fresh process on a fresh copy of its project, six processes at a time
pub fn run_jobs(cli: &str, scratch: &str, tag: &str, jobs: &[Job]) -> Vec<Out> {
    let threads = std::thread::available_parallelism().map(|n| n.get()).unwrap_or(2).clamp(1, 6).min(jobs.len().max(1));
    let next = AtomicUsize::new(0);
    let results: Mutex<BTreeMap<usize, Out>> = Mutex::new(BTreeMap::new());
    std::thread::scope(|s| {
        for _ in 0..threads {
            s.spawn(|| loop {
                let i = next.fetch_add(1, Ordering::SeqCst);
                if i >= jobs.len() {
                    break;
                }
                let job = &jobs[i];
                let dir = fresh_dir(scratch, &format!("ties-{tag}-{i}"));
                let mut p = Project::default();
                for (path, text) in job.files {
                    p.add(path, text);
                }
                p.write(&dir);
                let r = run_cli(cli, &dir, &["--output-format", job.format, job.cmd], &[], Duration::from_secs(60));
                let root = dir.to_string_lossy().to_string();
                let root_json = root.replace('/', "\\/");
                let norm = |s: &str| s.replace(&root_json, "<ROOT>").replace(&root, "<ROOT>");
                let mut files = BTreeMap::new();
                for (k, v) in snapshot(&dir) {
                    let bytes = match String::from_utf8(v.clone()) {
                        Ok(t) => norm(&t).into_bytes(),
                        Err(_) => v,
                    };
                    files.insert(k, bytes);
                }
                let _ = std::fs::remove_dir_all(&dir);
                let out = Out { code: if r.timed_out { Some(-999) } else { r.code }, stdout: norm(&r.stdout), stderr: norm(&r.stderr), files };
                results.lock().unwrap().insert(i, out);
            });
        }
    });
    let mut m = results.into_inner().unwrap();
    (0..jobs.len()).map(|i| m.remove(&i).expect("job result")).collect()
}

/// diagnostics of a `--output-format json` stdout as (path, line, column, message)
pub fn diagnostics(stdout: &str) -> Vec<(String, u64, u64, String)> {
    let v: Value = serde_json::from_str(stdout).unwrap_or(Value::Null);
    v["check"]["errors"].as_array().map(|a| {
        a.iter().map(|e| (e["file"]["path"].as_str().unwrap_or("").to_string(), e["file"]["line"].as_u64().unwrap_or(u64::MAX), e["file"]["column"].as_u64().unwrap_or(u64::MAX),
            e["message"].as_str().unwrap_or("").to_string())).collect()
    }).unwrap_or_default()
}

/// the largest number of diagnostics that share (line, column) and lie in pairwise different files
pub fn tie_degree(diags: &[(String, u64, u64, String)]) -> usize {
    let mut by_pos: BTreeMap<(u64, u64), BTreeSet<&str>> = BTreeMap::new();
    for (p, l, c, _) in diags {
        by_pos.entry((*l, *c)).or_default().insert(p.as_str());
    }
    by_pos.values().map(|s| s.len()).max().unwrap_or(0)
}

/// "order": the two texts hold the same lines / the same JSON array elements in another order; "content" otherwise
/// (stable across inputs, unlike the first differing construct, which depends on the source excerpts of the human format)
pub fn order_or_content(a: &str, b: &str) -> &'static str {
    let c = super::first_diff_construct(a, b);
    if c.ends_with(":order") || c.starts_with("lines-reordered") { "order" } else { "content" }
}

/// first difference between two runs: (channel, first differing construct, the two texts)
pub fn difference(a: &Out, b: &Out) -> Option<(String, String, String, String)> {
    if a.code != b.code {
        return Some(("exit-code".into(), "differs".into(), format!("{:?}", a.code), format!("{:?}", b.code)));
    }
    if a.stdout != b.stdout {
        return Some(("stdout".into(), super::first_diff_construct(&a.stdout, &b.stdout), a.stdout.clone(), b.stdout.clone()));
    }
    if a.stderr != b.stderr {
        return Some(("stderr".into(), super::first_diff_construct(&a.stderr, &b.stderr), a.stderr.clone(), b.stderr.clone()));
    }
    let (ka, kb): (Vec<&String>, Vec<&String>) = (a.files.keys().collect(), b.files.keys().collect());
    if ka != kb {
        return Some(("file-set".into(), "differs".into(), format!("{ka:?}"), format!("{kb:?}")));
    }
    for (k, x) in &a.files {
        let y = &b.files[k];
        if x != y {
            let (tx, ty) = (String::from_utf8_lossy(x).to_string(), String::from_utf8_lossy(y).to_string());
            return Some((super::file_kind(k).to_string(), super::first_diff_construct(&tx, &ty), tx, ty));
        }
    }
    None
}

pub fn case_json(stage: &str, template: &str, k: usize, cmd: &str, format: &str, runs: usize, files: &Files, diff: Option<&(String, String, String, String)>) -> Value {
    json!({"kind": "ties", "stage": stage, "template": template, "k": k, "cmd": cmd, "format": format, "runs": runs,
        "command_line": format!("nitrogql-cli --output-format {format} {cmd}   (in a directory holding `files`; run it {runs} times)"),
        "files": Value::Array(files.iter().map(|(p, t)| json!([p, t])).collect()),
        "differing_channel": diff.map(|d| d.0.clone()), "output_of_one_run": diff.map(|d| d.2.clone()), "output_of_another_run": diff.map(|d| d.3.clone())})
}
