//! C17 (c''') `multi-def`: FAULTY (and a few valid control) schemas in which SEVERAL definitions take part in one fault
//! — directive reference cycles with referrers outside the cycle, interface `implements` cycles, missing transitive
//! interfaces, non-covariant fields along an interface chain, union members of the wrong kind, a type that several
//! definitions reference and nobody defines, input/output kind mix-ups, directives applied in several definitions — laid
//! out in EVERY order of their (≤ 4, at most 5) participating definitions, once as one schema file and once as one file
//! per definition with file names whose glob order (= sorted paths) is that order. The real CLI `check` (and `generate`)
//! must give the same exit status and the same multiset of diagnostics (file type, message, definition the position lies
//! in, line inside that definition, column) for every layout.
//!
//! Added after seeded change C17/m4 (a memo of "verified" directives carried from one directive definition to the next in
//! `check_directive_recursion`: a cycle reached from a non-recursing directive that is defined EARLIER went unreported)
//! was caught by K `site-list` only. The permutation streams contained no invalid schema whose fault needs more than one
//! definition.
use nvh::cli::{fresh_dir, run_cli, snapshot, Project};
use nvh::Rng;
use serde_json::{json, Value};
use std::collections::{BTreeMap, BTreeSet};
use std::sync::atomic::{AtomicUsize, Ordering};
use std::sync::Mutex;
use std::time::Duration;

pub type Files = Vec<(String, String)>;

pub struct MultiDef {
    /// fault class: part of the failure signature
    pub class: &'static str,
    pub name: String,
    /// participating definitions: every order of them is laid out
    pub defs: Vec<String>,
    /// further definitions (root type, helper types): inserted at positions that rotate with the order
    pub rest: Vec<String>,
    /// Some(true): faulty by construction, Some(false): valid by construction
    pub expect_rejected: Option<bool>,
    /// directives that `check` must report as recursing in the written order (random directive graphs: the nodes
    /// that lie on a cycle of the reference graph), None = not judged
    pub recursing: Option<BTreeSet<String>>,
}

fn md(class: &'static str, name: &str, defs: &[&str], rest: &[&str], rejected: bool) -> MultiDef {
    MultiDef { class, name: name.to_string(), defs: defs.iter().map(|s| s.to_string()).collect(), rest: rest.iter().map(|s| s.to_string()).collect(), expect_rejected: Some(rejected), recursing: None }
}

pub const OPS: &str = "query Q { __typename }\n";
pub const CONFIG_NAME: &str = "graphql.config.yaml";
pub const CONFIG: &str = "schema: \"schema/*.graphql\"\ndocuments: \"ops/*.graphql\"\nextensions:\n  nitrogql:\n    generate:\n      schemaOutput: \"gen/schema.d.ts\"\n      resolversOutput: \"gen/resolvers.d.ts\"\n      serverGraphqlOutput: \"gen/server-schema.ts\"\n";

const Q: &str = "type Query { ok: Int }";
/// every location a directive of a directive-graph project is applied at
const DLOC: &str = "ARGUMENT_DEFINITION | INPUT_FIELD_DEFINITION | SCALAR | ENUM_VALUE";

// ---------------------------------------------------------------------------------------------
// directive reference graphs

#[derive(Clone, Copy, Debug, PartialEq)]
pub enum Via {
    /// `x: Int @t` — a directive applied to the argument
    Arg,
    /// `x: S` with `scalar S @t`
    Scalar,
    /// `x: E` with `enum E { V @t }`
    EnumValue,
    /// `x: In` with `input In { f: Int @t }`
    InputField,
    /// `x: Out` with `input Out { g: In }`, `input In { f: Int @t }`
    NestedInput,
}

/// (directive definitions in node order, helper type definitions) of the reference graph `edges` over `names`
pub fn directive_graph(names: &[&str], edges: &[(usize, usize, Via)]) -> (Vec<String>, Vec<String>) {
    let mut args: Vec<Vec<String>> = vec![vec![]; names.len()];
    let mut helpers = vec![];
    for (k, (from, to, via)) in edges.iter().enumerate() {
        let t = names[*to];
        let arg = match via {
            Via::Arg => format!("x{k}: Int @{t}"),
            Via::Scalar => {
                helpers.push(format!("scalar S{k} @{t}"));
                format!("x{k}: S{k}")
            }
            Via::EnumValue => {
                helpers.push(format!("enum E{k} {{ U V @{t} }}"));
                format!("x{k}: [E{k}!]")
            }
            Via::InputField => {
                helpers.push(format!("input In{k} {{ e: Int f: Int @{t} }}"));
                format!("x{k}: In{k}")
            }
            Via::NestedInput => {
                helpers.push(format!("input Out{k} {{ g: [In{k}] }}"));
                helpers.push(format!("input In{k} {{ f: Int @{t} }}"));
                format!("x{k}: Out{k}")
            }
        };
        args[*from].push(arg);
    }
    let dirs = names.iter().enumerate().map(|(i, n)| if args[i].is_empty() { format!("directive @{n} on {DLOC}") } else { format!("directive @{n}({}) on {DLOC}", args[i].join(", ")) }).collect();
    (dirs, helpers)
}

/// the nodes that lie on a cycle (reach themselves through ≥ 1 edge)
pub fn on_cycle(n: usize, edges: &[(usize, usize, Via)]) -> Vec<usize> {
    (0..n).filter(|&s| {
        let mut seen = vec![false; n];
        let mut todo: Vec<usize> = edges.iter().filter(|e| e.0 == s).map(|e| e.1).collect();
        while let Some(v) = todo.pop() {
            if v == s {
                return true;
            }
            if !seen[v] {
                seen[v] = true;
                todo.extend(edges.iter().filter(|e| e.0 == v).map(|e| e.1));
            }
        }
        false
    }).collect()
}

/// a directive-graph project: all definitions (directives and helper types) participate when there are ≤ 4 of them,
/// otherwise the directives do and the helper types rotate
fn dir_project(class: &'static str, name: &str, names: &[&str], edges: &[(usize, usize, Via)]) -> MultiDef {
    let (dirs, helpers) = directive_graph(names, edges);
    let cyc: BTreeSet<String> = on_cycle(names.len(), edges).into_iter().map(|i| names[i].to_string()).collect();
    let (defs, mut rest) = if dirs.len() + helpers.len() <= 4 { (dirs.into_iter().chain(helpers).collect(), vec![]) } else { (dirs, helpers) };
    rest.push(Q.to_string());
    MultiDef { class, name: name.to_string(), defs, rest, expect_rejected: Some(!cyc.is_empty()), recursing: Some(cyc) }
}

/// random reference graph over 3–4 directives (edges of every kind), judged by the specification: rejected iff the graph
/// has a cycle, and exactly the directives on a cycle are reported
pub fn random_directive_graph(rng: &mut Rng, k: usize) -> MultiDef {
    const NAMES: [&str; 4] = ["p", "q", "r", "s"];
    let n = 3 + rng.below(2);
    let names = &NAMES[..n];
    let nedges = n - 1 + rng.below(3);
    let acyclic = rng.chance(1, 3);
    let mut rank: Vec<usize> = (0..n).collect();
    rng.shuffle(&mut rank);
    let mut edges = vec![];
    for _ in 0..nedges {
        let via = [Via::Arg, Via::Arg, Via::Arg, Via::Scalar, Via::EnumValue, Via::InputField, Via::NestedInput][rng.below(7)];
        let (a, b) = (rng.below(n), rng.below(n));
        if acyclic {
            // edges only run upwards in a random numbering of the nodes
            if rank[a] != rank[b] {
                edges.push(if rank[a] < rank[b] { (a, b, via) } else { (b, a, via) });
            }
        } else {
            edges.push((a, b, via));
        }
    }
    let (dirs, helpers) = directive_graph(names, &edges);
    let cyc: BTreeSet<String> = on_cycle(n, &edges).into_iter().map(|i| names[i].to_string()).collect();
    let mut rest = helpers;
    rest.push(Q.to_string());
    let class = if cyc.is_empty() { "directive-acyclic" } else { "directive-cycle" };
    MultiDef { class, name: format!("random-graph-{k}"), defs: dirs, rest, expect_rejected: Some(!cyc.is_empty()), recursing: Some(cyc) }
}

/// random `implements` graph over three interfaces and an object with random field types (valid or not: only the
/// order independence is judged)
pub fn random_interface_graph(rng: &mut Rng, k: usize) -> MultiDef {
    const NAMES: [&str; 4] = ["I", "J", "K", "A"];
    let tys = ["Int", "String", "I", "J", "K", "A", "[I]", "[A!]", "Int!", "U", "Nope"];
    let mut defs = vec![];
    for (i, n) in NAMES.iter().enumerate() {
        let mut imps: Vec<&str> = NAMES[..3].iter().copied().filter(|m| (m != n || rng.chance(1, 8)) && rng.chance(2, 5)).collect();
        if i == 3 && imps.is_empty() {
            imps.push(NAMES[rng.below(3)]);
        }
        let t = tys[rng.below(tys.len())];
        let fields = if rng.chance(1, 4) { format!("id: ID w: {t}") } else { format!("id: ID v: {t}") };
        let imp = if imps.is_empty() { String::new() } else { format!(" implements {}", imps.join(" & ")) };
        defs.push(format!("{} {n}{imp} {{ {fields} }}", if i == 3 { "type" } else { "interface" }));
    }
    MultiDef { class: "interface-graph", name: format!("random-interfaces-{k}"), defs, rest: vec!["union U = A | Query".to_string(), Q.to_string()], expect_rejected: None, recursing: None }
}

// ---------------------------------------------------------------------------------------------
// the hand-written family, smallest project of each class first (the first failure of a signature becomes the replay)

pub fn family() -> Vec<MultiDef> {
    use Via::*;
    let mut v = vec![];
    // --- directive cycles of length 1–3, with 0–3 referrers outside the cycle
    let c = "directive-cycle";
    v.push(dir_project(c, "self", &["a"], &[(0, 0, Arg)]));
    v.push(dir_project(c, "self+referrer", &["a", "r"], &[(0, 0, Arg), (1, 0, Arg)]));
    v.push(dir_project(c, "cycle2", &["a", "b"], &[(0, 1, Arg), (1, 0, Arg)]));
    v.push(dir_project(c, "cycle2+referrer-of-first", &["a", "b", "r"], &[(0, 1, Arg), (1, 0, Arg), (2, 0, Arg)]));
    v.push(dir_project(c, "cycle2+referrer-of-second", &["a", "b", "r"], &[(0, 1, Arg), (1, 0, Arg), (2, 1, Arg)]));
    v.push(dir_project(c, "self+referrer-chain", &["a", "r", "t"], &[(0, 0, Arg), (1, 0, Arg), (2, 1, Arg)]));
    v.push(dir_project(c, "self+two-referrers", &["a", "r", "t"], &[(0, 0, Arg), (1, 0, Arg), (2, 0, Arg)]));
    v.push(dir_project(c, "cycle3", &["a", "b", "c"], &[(0, 1, Arg), (1, 2, Arg), (2, 0, Arg)]));
    v.push(dir_project(c, "self-via-scalar+referrer", &["a", "r"], &[(0, 0, Scalar), (1, 0, Arg)]));
    v.push(dir_project(c, "self-via-enum-value+referrer", &["a", "r"], &[(0, 0, EnumValue), (1, 0, EnumValue)]));
    v.push(dir_project(c, "self-via-input-field+referrer", &["a", "r"], &[(0, 0, InputField), (1, 0, Arg)]));
    v.push(dir_project(c, "self-via-nested-input", &["a"], &[(0, 0, NestedInput)]));
    v.push(dir_project(c, "cycle3+referrer-of-first", &["a", "b", "c", "r"], &[(0, 1, Arg), (1, 2, Arg), (2, 0, Arg), (3, 0, Arg)]));
    v.push(dir_project(c, "cycle3+referrer-of-last", &["a", "b", "c", "r"], &[(0, 1, Arg), (1, 2, Arg), (2, 0, Arg), (3, 2, Arg)]));
    v.push(dir_project(c, "cycle2+referrer-chain", &["a", "b", "r", "t"], &[(0, 1, Arg), (1, 0, Arg), (2, 0, Arg), (3, 2, Arg)]));
    v.push(dir_project(c, "cycle2+referrer-of-each", &["a", "b", "r", "t"], &[(0, 1, Arg), (1, 0, Arg), (2, 0, Arg), (3, 1, Arg)]));
    v.push(dir_project(c, "cycle2+referrer-of-both", &["a", "b", "r"], &[(0, 1, Arg), (1, 0, Arg), (2, 0, Arg), (2, 1, Arg)]));
    v.push(dir_project(c, "self+referrer-chain-3", &["a", "r", "t", "u"], &[(0, 0, Arg), (1, 0, Arg), (2, 1, Arg), (3, 2, Arg)]));
    v.push(dir_project(c, "two-self-cycles+referrer-of-both", &["a", "b", "r"], &[(0, 0, Arg), (1, 1, Arg), (2, 0, Arg), (2, 1, Arg)]));
    v.push(dir_project(c, "cycle2-via-input-field+referrer", &["a", "b", "r"], &[(0, 1, InputField), (1, 0, Arg), (2, 1, Scalar)]));
    v.push(dir_project(c, "cycle2-via-types+referrer-via-type", &["a", "b", "r"], &[(0, 1, Scalar), (1, 0, NestedInput), (2, 0, InputField)]));
    // --- controls: no cycle (chains, a diamond, a shared leaf): accepted in every order
    let c = "directive-acyclic";
    v.push(dir_project(c, "chain", &["a", "b", "c", "r"], &[(3, 0, Arg), (0, 1, Arg), (1, 2, Arg)]));
    v.push(dir_project(c, "diamond", &["a", "b", "c", "d"], &[(0, 1, Arg), (0, 2, Arg), (1, 3, Arg), (2, 3, Arg)]));
    v.push(dir_project(c, "shared-leaf-via-types", &["a", "b", "l"], &[(0, 2, Scalar), (1, 2, InputField), (0, 1, EnumValue)]));

    // --- interface `implements` cycles
    let c = "interface-cycle";
    v.push(md(c, "self", &["interface I implements I { id: ID }"], &[Q], true));
    v.push(md(c, "cycle2", &["interface I implements J { id: ID }", "interface J implements I { id: ID }"], &[Q], true));
    v.push(md(c, "cycle2+object-of-both", &["interface I implements J { id: ID }", "interface J implements I { id: ID }", "type A implements I & J { id: ID }"], &[Q], true));
    v.push(md(c, "cycle2+object-of-one", &["interface I implements J { id: ID }", "interface J implements I { id: ID }", "type A implements I { id: ID }"], &[Q], true));
    v.push(md(c, "cycle3", &["interface I implements J { id: ID }", "interface J implements K { id: ID }", "interface K implements I { id: ID }"], &[Q], true));
    v.push(md(c, "cycle3-transitive-declared", &["interface I implements J & K { id: ID }", "interface J implements K & I { id: ID }", "interface K implements I & J { id: ID }"], &[Q], true));
    v.push(md(c, "cycle3+object", &["interface I implements J { id: ID }", "interface J implements K { id: ID }", "interface K implements I { id: ID }", "type A implements K { id: ID }"], &[Q], true));
    v.push(md(c, "cycle2+interface-outside", &["interface I implements J { id: ID }", "interface J implements I { id: ID }", "interface K implements I { id: ID }", "type A implements K & I & J { id: ID }"], &[Q], true));

    // --- an interface of an implemented interface is not declared
    let c = "missing-transitive-interface";
    v.push(md(c, "object", &["interface I { id: ID }", "interface J implements I { id: ID }", "type A implements J { id: ID }"], &[Q], true));
    v.push(md(c, "object-chain3", &["interface I { id: ID }", "interface J implements I { id: ID }", "interface K implements J & I { id: ID }", "type A implements K & J { id: ID }"], &[Q], true));
    v.push(md(c, "interface-in-the-middle", &["interface I { id: ID }", "interface J implements I { id: ID }", "interface K implements J { id: ID }", "type A implements K & J & I { id: ID }"], &[Q], true));
    v.push(md(c, "two-objects", &["interface I { id: ID }", "interface J implements I { id: ID }", "type A implements J { id: ID }", "type B implements J { id: ID x: A }"], &[Q], true));
    v.push(md("valid-interfaces", "chain-declared", &["interface I { id: ID }", "interface J implements I { id: ID }", "interface K implements J & I { id: ID }", "type A implements K & J & I { id: ID }"], &[Q], false));

    // --- a field that does not fit the interface (return type not covariant, field / argument missing or of another type)
    let c = "interface-field";
    v.push(md(c, "scalar-mismatch", &["interface I { v: Int }", "type A implements I { v: String }"], &[Q], true));
    v.push(md(c, "chain-not-covariant", &["interface I { x: I }", "interface J implements I { x: J }", "type A implements J & I { x: I }"], &[Q], true));
    v.push(md(c, "chain-not-covariant-via-object", &["interface I { x: I }", "interface J implements I { x: J }", "type A implements J & I { x: B }", "type B implements I { x: I }"], &[Q], true));
    v.push(md(c, "list-inner-nullability", &["interface I { v: [Int!] }", "interface J implements I { v: [Int!]! }", "type A implements J & I { v: [Int]! }"], &[Q], true));
    v.push(md(c, "field-missing-along-chain", &["interface I { a: Int b: Int }", "interface J implements I { a: Int }", "type A implements J & I { a: Int }"], &[Q], true));
    v.push(md(c, "union-not-member", &["interface I { u: U }", "union U = A", "type A implements I { u: C }", "type C { c: Int }"], &[Q], true));
    v.push(md(c, "arguments", &["interface I { f(a: Int): Int }", "interface J implements I { f(a: Int, b: Int): Int }", "type A implements J & I { f(a: Int): Int }", "type B implements I { f(a: String, c: Int!): Int }"], &[Q], true));
    v.push(md("valid-interfaces", "covariant-union-and-object", &["interface I { u: U i: I }", "union U = A | B", "type A implements I { u: B i: B }", "type B implements I { u: A i: I }"], &[Q], false));

    // --- union members that are not object types
    let c = "union-member-kind";
    v.push(md(c, "interface-member", &["union U = A | I", "interface I { id: ID }", "type A implements I { id: ID }"], &[Q], true));
    v.push(md(c, "scalar-enum-members", &["type Query { u: U }", "union U = Query | S | E", "scalar S", "enum E { X }"], &[], true));
    v.push(md(c, "union-member", &["type Query { u: U v: V }", "union U = Query | V", "union V = Query"], &[], true));
    v.push(md(c, "input-and-unknown-members", &["type Query { u: U }", "union U = Query | In | Nope", "input In { x: Int }"], &[], true));
    v.push(md(c, "two-unions-one-wrong-member", &["union U = A | I", "union V = I | A", "interface I { id: ID }", "type A { id: ID }"], &[Q], true));

    // --- a type that several definitions reference and nobody defines
    let c = "unknown-type";
    v.push(md(c, "fields-arguments-inputs", &["type Query { a: Nope b(x: Nope): Int }", "input In { y: [Nope!]! }", "directive @d(z: Nope) on FIELD", "interface I { f: Nope }"], &[], true));
    v.push(md(c, "implements-and-members", &["type Query implements Nope { a: Int }", "union U = Nope | Query", "interface I implements Nope { a: Int }"], &[], true));
    v.push(md(c, "two-names", &["type Query { a: Nope b: Gone }", "interface I { a: Gone }", "type A implements I { a: Nope }", "input In { g: Gone n: Nope }"], &[], true));
    v.push(md(c, "in-extension", &["type Query { a: Int }", "extend type Query { b: Nope }", "input In { x: Nope }", "extend input In { y: [Nope] }"], &[], true));

    // --- input types in output positions and the reverse; object types where an interface is required
    let c = "input-output-kind";
    v.push(md(c, "both-directions", &["type Query { a: In b(x: Query): Int }", "input In { q: Query i: I }", "interface I { f(x: U): In }", "union U = Query"], &[], true));
    v.push(md(c, "directive-argument", &["directive @d(q: Query, i: I) on FIELD", "type Query { a: Int }", "interface I { a: Int }"], &[], true));
    let c = "not-interface";
    v.push(md(c, "object-and-union", &["type Query implements B & U { a: Int }", "type B { a: Int }", "interface I implements B { a: Int }", "union U = B"], &[], true));
    v.push(md(c, "enum-and-scalar", &["type Query implements E & S { a: Int }", "enum E { X }", "scalar S"], &[], true));

    // --- a directive defined in one definition and misapplied in others
    let c = "directive-use";
    v.push(md(c, "location", &["directive @d on SCALAR", "type Query @d { a: Int @d }", "enum E @d { X @d }", "scalar S @d"], &[], true));
    v.push(md(c, "unknown-directive", &["type Query @nope { a: Int }", "scalar S @nope", "input In @nope { x: Int @gone }"], &[], true));
    v.push(md(c, "arguments", &["directive @d(x: Int!, e: E) on OBJECT | FIELD_DEFINITION", "enum E { X Y }", "type Query @d(x: \"s\") { a: Int @d(x: 1, e: Z) b: Int @d c: Int @d(x: 2, y: 3) }"], &[], true));
    v.push(md(c, "repeated", &["directive @d on OBJECT | SCALAR", "directive @r repeatable on OBJECT | SCALAR", "type Query @d @r @d @r { a: Int }", "scalar S @r @d @d"], &[], true));

    // --- faults of different classes in one schema
    let c = "mixed";
    v.push(md(c, "directive-cycle+unknown-type+interface-cycle", &["directive @a(x: Nope @b) on ARGUMENT_DEFINITION", "directive @b(y: Int @a) on ARGUMENT_DEFINITION", "interface I implements J { f: Nope }", "interface J implements I { f: Nope }"], &[Q], true));
    v.push(md(c, "five-definitions", &["directive @a(x: Int @b) on ARGUMENT_DEFINITION", "directive @b(y: Int @a) on ARGUMENT_DEFINITION", "directive @r(z: Int @a) on ARGUMENT_DEFINITION", "interface I implements J { f(x: Int @r): Int }", "interface J { f: Int }"], &[Q], true));
    v
}

// ---------------------------------------------------------------------------------------------
// layouts

/// a layout: schema files in the order written, each with the ids of the definitions it holds (one line per definition)
pub type Layout = Vec<(String, Vec<usize>)>;

/// names in glob order (the CLI sorts the matched paths): digits < upper case < '_' < lower case, "10" < "9",
/// "a." < "ab"
const SORTED_NAMES: [&str; 9] = ["0z", "10", "9", "B", "Zz", "_m", "a", "ab", "b0"];

/// the k-th layout of `order` (a permutation of the participating ids 0..n); the ids n.. (`nrest` of them) are
/// inserted at positions that rotate with `k`
pub fn make_layout(order: &[usize], nrest: usize, k: usize, one_per_file: bool) -> Layout {
    let n = order.len();
    let mut seq: Vec<usize> = order.to_vec();
    for j in 0..nrest {
        let at = (k + 3 * j + j * j) % (seq.len() + 1);
        seq.insert(at, n + j);
    }
    if !one_per_file {
        return vec![("schema/schema.graphql".to_string(), seq)];
    }
    // choose seq.len() of the sorted names (which ones rotates with k), keep them sorted
    let total = SORTED_NAMES.len();
    let need = seq.len().min(total);
    let mut picked: Vec<usize> = (0..need).map(|i| (i * total / need + k) % total).collect();
    picked.sort();
    picked.dedup();
    let mut i = 0;
    while picked.len() < need {
        if !picked.contains(&i) {
            picked.push(i);
        }
        i += 1;
    }
    picked.sort();
    let mut files: Layout = vec![];
    for (i, id) in seq.iter().enumerate() {
        if i < need {
            files.push((format!("schema/{}.graphql", SORTED_NAMES[picked[i]]), vec![*id]));
        } else {
            files.last_mut().unwrap().1.push(*id);
        }
    }
    // written in another order than the glob order (the directory order must not matter either)
    files.rotate_left(k % need.max(1));
    files
}

pub fn layout_files(defs: &[String], layout: &Layout) -> Files {
    let mut files: Files = layout.iter().filter(|(_, ids)| !ids.is_empty()).map(|(p, ids)| (p.clone(), ids.iter().map(|i| format!("{}\n", defs[*i])).collect())).collect();
    files.push(("ops/q.graphql".to_string(), OPS.to_string()));
    // every custom scalar gets a TypeScript type (`generate` fails on a VALID schema otherwise)
    let scalars: Vec<&str> = layout.iter().flat_map(|(_, ids)| ids.iter()).filter_map(|i| defs[*i].strip_prefix("scalar ")).map(|r| r.split_whitespace().next().unwrap_or("")).filter(|n| !n.is_empty()).collect();
    let mut config = CONFIG.to_string();
    if !scalars.is_empty() {
        let mut names: Vec<&str> = scalars;
        names.sort();
        names.dedup();
        config.push_str("      type:\n        scalarTypes:\n");
        for n in names {
            config.push_str(&format!("          {n}: \"string\"\n"));
        }
    }
    files.push((CONFIG_NAME.to_string(), config));
    files
}

/// (file, line) → (definition id, line inside the definition)
fn locate(defs: &[String], layout: &Layout, path: &str, line: u64) -> Option<(usize, u64)> {
    let (_, ids) = layout.iter().find(|(p, _)| path.ends_with(p.as_str()))?;
    let mut start = 0u64;
    for id in ids {
        let nlines = defs[*id].lines().count().max(1) as u64;
        if line < start + nlines {
            return Some((*id, line - start));
        }
        start += nlines;
    }
    None
}

// ---------------------------------------------------------------------------------------------
// running the CLI (several processes at a time; results by job index)

pub struct Job {
    pub files: Files,
    pub cmd: &'static str,
}

pub struct Out {
    pub code: Option<i32>,
    pub stdout: String,
    pub stderr: String,
    /// files that exist after the run and were not written by the harness
    pub written: Vec<String>,
}

pub fn run_jobs(cli: &str, scratch: &str, tag: &str, jobs: &[Job]) -> Vec<Out> {
    let threads = std::thread::available_parallelism().map(|n| n.get()).unwrap_or(2).clamp(1, 6).min(jobs.len().max(1));
    let next = AtomicUsize::new(0);
    let results: Mutex<BTreeMap<usize, Out>> = Mutex::new(BTreeMap::new());
    std::thread::scope(|s| {
        for _ in 0..threads {
            s.spawn(|| loop {
                let i = next.fetch_add(1, Ordering::SeqCst);
                if i >= jobs.len() {
                    break;
                }
                let job = &jobs[i];
                let dir = fresh_dir(scratch, &format!("md-{tag}-{i}"));
                let mut p = Project::default();
                for (path, text) in &job.files {
                    p.add(path, text);
                }
                p.write(&dir);
                let r = run_cli(cli, &dir, &["--output-format", "json", job.cmd], &[], Duration::from_secs(60));
                let root = dir.to_string_lossy().to_string();
                let root_json = root.replace('/', "\\/");
                let norm = |s: &str| s.replace(&root_json, "<ROOT>").replace(&root, "<ROOT>");
                let written: Vec<String> = snapshot(&dir).into_keys().filter(|k| !job.files.iter().any(|(p, _)| p == k)).collect();
                let _ = std::fs::remove_dir_all(&dir);
                let out = Out { code: if r.timed_out { Some(-999) } else { r.code }, stdout: norm(&r.stdout), stderr: norm(&r.stderr), written };
                results.lock().unwrap().insert(i, out);
            });
        }
    });
    let mut m = results.into_inner().unwrap();
    (0..jobs.len()).map(|i| m.remove(&i).expect("job result")).collect()
}

// ---------------------------------------------------------------------------------------------
// what is compared

/// diagnostics as a sorted multiset of "fileType|message|definition id|line in definition|column"
pub fn diagnostics(defs: &[String], layout: &Layout, stdout: &str) -> Vec<String> {
    let v: Value = serde_json::from_str(stdout).unwrap_or(Value::Null);
    let mut out: Vec<String> = v["check"]["errors"].as_array().map(|a| {
        a.iter().map(|e| {
            let pos = match (e["file"]["path"].as_str(), e["file"]["line"].as_u64(), e["file"]["column"].as_u64()) {
                (Some(p), Some(l), Some(c)) => match locate(defs, layout, p, l) {
                    Some((id, dl)) => format!("def{id}:{dl}:{c}"),
                    None => {
                        let rel = p.rsplit("<ROOT>/").next().unwrap_or(p);
                        if rel.starts_with("schema/") { format!("outside-any-definition:{l}:{c}") } else { format!("{rel}:{l}:{c}") }
                    }
                },
                _ => "no-position".to_string(),
            };
            format!("{}|{}|{pos}", e["fileType"].as_str().unwrap_or("?"), e["message"].as_str().unwrap_or("?"))
        }).collect()
    }).unwrap_or_default();
    // errors that are not check diagnostics (parse errors, failures of `generate` after a passed check)
    if out.is_empty() {
        if let Some(m) = v["error"]["message"].as_str() {
            out.push(format!("command|{m}|-"));
        }
    }
    out.sort();
    out
}

/// the verdict part of a comparison: (signature suffix, description) of the first difference
pub fn compare(defs: &[String], la: &Layout, a: &Out, cmd_a: &str, lb: &Layout, b: &Out, cmd_b: &str) -> Option<(&'static str, String)> {
    if a.code != b.code {
        return Some(("verdict", format!("`{cmd_a}` exits {:?} on layout a and `{cmd_b}` exits {:?} on layout b of the same definitions\n a: {}\n b: {}", a.code, b.code,
            a.stdout.chars().take(400).collect::<String>(), b.stdout.chars().take(400).collect::<String>())));
    }
    let (da, db) = (diagnostics(defs, la, &a.stdout), diagnostics(defs, lb, &b.stdout));
    if da != db {
        let only_a: Vec<&String> = da.iter().filter(|x| !db.contains(x)).collect();
        let only_b: Vec<&String> = db.iter().filter(|x| !da.contains(x)).collect();
        return Some(("diagnostics", format!("same exit status {:?}, but the diagnostics differ as a multiset of (file type, message, definition, position inside it): only for layout a {only_a:?}; only for layout b {only_b:?}; a has {} and b {} diagnostics", a.code, da.len(), db.len())));
    }
    let gen = |o: &Out| -> Vec<String> { o.written.iter().filter(|w| !w.ends_with(".map")).cloned().collect() };
    if cmd_a == cmd_b && gen(a) != gen(b) {
        return Some(("files-written", format!("`{cmd_a}` writes {:?} for layout a and {:?} for layout b", gen(a), gen(b))));
    }
    None
}

pub fn case_json(m_class: &str, name: &str, defs: &[String], la: &Layout, cmd_a: &str, lb: &Layout, cmd_b: &str) -> Value {
    let lj = |l: &Layout| Value::Array(l.iter().map(|(p, ids)| json!([p, ids])).collect());
    let fj = |l: &Layout| Value::Array(layout_files(defs, l).iter().map(|(p, t)| json!([p, t])).collect());
    json!({"kind": "multidef", "class": m_class, "project": name, "defs": defs, "a": lj(la), "cmd_a": cmd_a, "b": lj(lb), "cmd_b": cmd_b,
           "files_a": fj(la), "files_b": fj(lb)})
}

pub fn layout_from_json(v: &Value) -> Layout {
    v.as_array().map(|a| a.iter().map(|x| (x[0].as_str().unwrap_or("").to_string(), x[1].as_array().map(|ids| ids.iter().map(|i| i.as_u64().unwrap_or(0) as usize).collect()).unwrap_or_default())).collect()).unwrap_or_default()
}

/// drop definition `k` from a layout (files that become empty disappear)
fn without(l: &Layout, k: usize) -> Layout {
    l.iter().map(|(p, ids)| (p.clone(), ids.iter().copied().filter(|i| *i != k).collect::<Vec<usize>>())).filter(|(_, ids)| !ids.is_empty()).collect()
}

/// greedy shrinking of a failing pair of layouts: drop definitions while the same kind of difference remains
pub fn shrink(cli: &str, scratch: &str, defs: &[String], la: &Layout, cmd_a: &'static str, lb: &Layout, cmd_b: &'static str, kind: &str) -> (Layout, Layout, String) {
    let (mut la, mut lb) = (la.clone(), lb.clone());
    let mut what = String::new();
    let mut round = 0;
    loop {
        let mut changed = false;
        for k in 0..defs.len() {
            if !la.iter().any(|(_, ids)| ids.contains(&k)) {
                continue;
            }
            let (ta, tb) = (without(&la, k), without(&lb, k));
            if ta.is_empty() || tb.is_empty() {
                continue;
            }
            round += 1;
            let outs = run_jobs(cli, scratch, &format!("shrink{round}"), &[Job { files: layout_files(defs, &ta), cmd: cmd_a }, Job { files: layout_files(defs, &tb), cmd: cmd_b }]);
            if let Some((k2, w)) = compare(defs, &ta, &outs[0], cmd_a, &tb, &outs[1], cmd_b) {
                if k2 == kind {
                    la = ta;
                    lb = tb;
                    what = w;
                    changed = true;
                }
            }
        }
        if !changed {
            return (la, lb, what);
        }
    }
}

/// names reported as recursing directives
pub fn recursing_names(stdout: &str) -> (BTreeSet<String>, Vec<String>) {
    let v: Value = serde_json::from_str(stdout).unwrap_or(Value::Null);
    let mut names = BTreeSet::new();
    let mut other = vec![];
    for e in v["check"]["errors"].as_array().cloned().unwrap_or_default() {
        let m = e["message"].as_str().unwrap_or("").to_string();
        match m.strip_prefix("Directive '").and_then(|r| r.strip_suffix("' is recursing")) {
            Some(n) => {
                names.insert(n.to_string());
            }
            None => other.push(m),
        }
    }
    (names, other)
}
