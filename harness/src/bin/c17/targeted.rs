//! C17 helpers: (1) small hand-written projects aimed at "first match vs any match" order dependence (two interfaces
//! sharing a later implementer, unions whose first member does not match, …) with enumeration of ALL orders of their
//! definitions; (2) rendering of a schema model as an introspection-result JSON that lists only some built-in scalars
//! (the CLI adds the missing ones itself — `extend_loaded_schema`); the idea is the one of harness/src/bin/c15/json.rs,
//! reduced to what the CLI's `IntrospectionResult` reads.
use nvh::gm::*;
use serde_json::{json, Value};

pub struct Targeted {
    pub name: &'static str,
    /// schema definitions, one per entry (≤ 6); every order of them is the same schema
    pub defs: &'static [&'static str],
    pub ops: &'static str,
}

const OPS_ON_J_IN_I: &str = "query Q { node { id ... on J { name } ...FJ } }\nfragment FJ on J { name }\n";
const OPS_ON_J_IN_U: &str = "query Q { u { __typename ... on J { name } ...FJ } }\nfragment FJ on J { name }\n";

pub const TARGETED: [Targeted; 8] = [
    // interface J inside an I-typed selection; only the LATER implementer of I implements J
    Targeted {
        name: "iface-in-iface",
        defs: &["type Query { node: I! }", "interface I { id: ID! }", "interface J { name: String! }", "type A implements I { id: ID! }", "type B implements I & J { id: ID! name: String! }"],
        ops: OPS_ON_J_IN_I,
    },
    // three implementers, only the last one implements J
    Targeted {
        name: "iface-in-iface-3",
        defs: &["type Query { node: I! }", "interface I { id: ID! }", "interface J { name: String! }", "type A implements I { id: ID! }", "type B implements I { id: ID! }", "type C implements I & J { id: ID! name: String! }"],
        ops: OPS_ON_J_IN_I,
    },
    // an extension (fields only) of the non-matching implementer moves around among the definitions
    // (NOT `extend type B implements J`: the pinned code loses the interface list of an object type extension — the merged
    //  type prints as `type B implements & I` — which is an extension-merge defect outside C17, reported to the lead)
    Targeted {
        name: "iface-in-iface-ext",
        defs: &["type Query { node: I! }", "interface I { id: ID! }", "interface J { name: String! }", "type A implements I { id: ID! }", "type B implements I & J { id: ID! name: String! }", "extend type A { extra: Int }"],
        ops: OPS_ON_J_IN_I,
    },
    // interface J inside a union-typed selection; the FIRST member does not implement J
    Targeted {
        name: "iface-in-union",
        defs: &["type Query { u: U! }", "union U = A | B", "interface J { name: String! }", "type A { id: ID! }", "type B implements J { id: ID! name: String! }"],
        ops: OPS_ON_J_IN_U,
    },
    // the same union with its members in the other order
    Targeted {
        name: "iface-in-union-rev",
        defs: &["type Query { u: U! }", "union U = B | A", "interface J { name: String! }", "type A { id: ID! }", "type B implements J { id: ID! name: String! }"],
        ops: OPS_ON_J_IN_U,
    },
    // union inside an interface-typed selection; the first member does not implement the interface
    Targeted {
        name: "union-in-iface",
        defs: &["type Query { j: J! }", "interface J { name: String! }", "union U = A | B", "type A { id: ID! }", "type B implements J { id: ID! name: String! }"],
        ops: "query Q { j { name ... on U { __typename ... on B { id } } ...FU } }\nfragment FU on U { __typename }\n",
    },
    // union inside a union-typed selection; they share only a later member
    Targeted {
        name: "union-in-union",
        defs: &["type Query { u1: U1! }", "union U1 = A | B", "union U2 = C | B", "type A { id: ID! }", "type B { id: ID! }", "type C { id: ID! }"],
        ops: "query Q { u1 { __typename ... on U2 { __typename ... on B { id } } ...F2 } }\nfragment F2 on U2 { __typename }\n",
    },
    // object condition inside an interface selection where the object is the later implementer; field merging over both
    Targeted {
        name: "object-in-iface",
        defs: &["type Query { node: I! nodes: [I!]! }", "interface I { id: ID! }", "type A implements I { id: ID! a: Int }", "type B implements I { id: ID! b: String }", "enum E { X Y }"],
        ops: "query Q { node { id ... on B { b } ... on A { a } } nodes { __typename ...FB } }\nfragment FB on B { id b }\n",
    },
];

/// small schemas in which a NAME is defined twice (fix 8cdbacf: `check_unique_names`), or a built-in directive is
/// re-declared (allowed): the verdict of `check` must be the same for every order of the definitions — rejected in
/// every order for a repeated name (before the fix 'directive-twice' passed in one order and failed in the other, and
/// the cross-kind cases passed in every order), accepted in every order for the re-declarations.
pub struct DupNames {
    pub name: &'static str,
    pub defs: &'static [&'static str],
    pub expect_rejected: bool,
}

pub const DUP_NAMES: [DupNames; 9] = [
    DupNames { name: "directive-twice", defs: &["directive @d on SCALAR", "directive @d on OBJECT", "scalar X @d", "type Query { x: X }"], expect_rejected: true },
    DupNames { name: "directive-twice-verbatim", defs: &["directive @d on SCALAR", "directive @d on SCALAR", "scalar X @d", "type Query { x: X }"], expect_rejected: true },
    DupNames { name: "directive-thrice", defs: &["directive @d on SCALAR", "directive @d on OBJECT", "directive @d on SCALAR | OBJECT", "scalar X @d", "type Query @d { x: X }"], expect_rejected: true },
    DupNames { name: "type-object+input", defs: &["type A { x: Int }", "input A { y: Int }", "type Query { a: A }"], expect_rejected: true },
    DupNames { name: "type-scalar+object", defs: &["scalar A", "type A { f: B }", "scalar B", "input I { x: A }", "type Query { i: Int }"], expect_rejected: true },
    DupNames { name: "type-interface+union", defs: &["interface N { id: ID }", "union N = Query", "type Query implements N { id: ID }"], expect_rejected: true },
    DupNames { name: "builtin-scalar-name", defs: &["enum String { A }", "input Int { x: Boolean }", "type Query { a: Boolean }"], expect_rejected: true },
    DupNames { name: "redeclare-builtin-directive", defs: &["directive @deprecated(reason: String) on OBJECT | FIELD_DEFINITION", "type Query @deprecated { a: Int @deprecated(reason: \"x\") }", "scalar S"], expect_rejected: false },
    DupNames { name: "redeclare-builtin-verbatim", defs: &["directive @skip(if: Boolean!) on FIELD | FRAGMENT_SPREAD | INLINE_FRAGMENT", "directive @specifiedBy(url: String!) on SCALAR", "scalar S @specifiedBy(url: \"u\")", "type Query { s: S }"], expect_rejected: false },
];

/// all permutations of 0..n (Heap's algorithm), identity first
pub fn all_orders(n: usize) -> Vec<Vec<usize>> {
    fn heap(k: usize, a: &mut Vec<usize>, out: &mut Vec<Vec<usize>>) {
        if k <= 1 {
            out.push(a.clone());
            return;
        }
        heap(k - 1, a, out);
        for i in 0..k - 1 {
            if k % 2 == 0 {
                a.swap(i, k - 1);
            } else {
                a.swap(0, k - 1);
            }
            heap(k - 1, a, out);
        }
    }
    let mut out = vec![];
    heap(n, &mut (0..n).collect(), &mut out);
    out
}

pub const TARGETED_CONFIG: &str = "schema: \"schema/*.graphql\"\ndocuments: \"ops/*.graphql\"\nextensions:\n  nitrogql:\n    generate:\n      schemaOutput: \"gen/schema.d.ts\"\n      resolversOutput: \"gen/resolvers.d.ts\"\n      serverGraphqlOutput: \"gen/server-schema.ts\"\n";

/// SDL of a cluster injected into generated schemas (generator bias): `{q}` = name of the query root type
pub fn bias_cluster_sdl(query: &str) -> String {
    format!(
        "interface C17I {{ id: ID! }}\ninterface C17J {{ name: String! }}\ntype C17A implements C17I {{ id: ID! }}\ntype C17B implements C17I & C17J {{ id: ID! name: String! }}\nunion C17U = C17A | C17B\nextend type {query} {{ c17node: C17I c17u: C17U }}\n"
    )
}
pub const BIAS_OPS: &str = "query C17Q { c17node { id ... on C17J { name } ...C17FJ } c17u { __typename ... on C17J { name } ...C17FJ } }\nfragment C17FJ on C17J { name }\n";

// ---------------------------------------------------------------------------------------------
// introspection JSON

fn val_text(v: &Val) -> String {
    match v {
        Val::Var(n, _) => format!("${n}"),
        Val::Int(s, _) | Val::Float(s, _) | Val::Enum(s, _) => s.clone(),
        Val::Str(s, _) => format!("\"{s}\""),
        Val::Bool(b, _) => b.to_string(),
        Val::Null(_) => "null".into(),
        Val::List(vs, _) => format!("[{}]", vs.iter().map(val_text).collect::<Vec<_>>().join(",")),
        Val::Obj(fs, _) => format!("{{{}}}", fs.iter().map(|a| format!("{}: {}", a.name, val_text(&a.value))).collect::<Vec<_>>().join(",")),
    }
}

fn deprecation(dirs: &[Dir]) -> Option<String> {
    let d = dirs.iter().find(|d| d.name == "deprecated")?;
    match d.args.iter().find(|a| a.name == "reason").map(|a| &a.value) {
        Some(Val::Str(s, _)) => Some(s.clone()),
        _ => Some("No longer supported".into()),
    }
}

fn ostr(s: &Option<String>) -> Value {
    match s {
        Some(s) => Value::String(s.clone()),
        None => Value::Null,
    }
}

fn kind_str(k: TypeKind) -> &'static str {
    match k {
        TypeKind::Scalar => "SCALAR",
        TypeKind::Object => "OBJECT",
        TypeKind::Interface => "INTERFACE",
        TypeKind::Union => "UNION",
        TypeKind::Enum => "ENUM",
        TypeKind::Input => "INPUT_OBJECT",
    }
}

pub const BUILTIN: [&str; 5] = ["Int", "Float", "String", "Boolean", "ID"];

/// names of built-in scalars referenced by the types / directives
pub fn referenced_builtins(types: &[TypeDef], dirs: &[DirectiveDef]) -> Vec<&'static str> {
    let mut refs: Vec<String> = vec!["Boolean".into()]; // @skip / @include
    for t in types {
        for f in &t.fields {
            refs.push(f.ty.unwrapped().to_string());
            for a in &f.args {
                refs.push(a.ty.unwrapped().to_string());
            }
        }
        for f in &t.inputs {
            refs.push(f.ty.unwrapped().to_string());
        }
    }
    for d in dirs {
        for a in &d.args {
            refs.push(a.ty.unwrapped().to_string());
        }
    }
    BUILTIN.iter().copied().filter(|b| refs.iter().any(|r| r == b)).collect()
}

/// the `data` of an introspection response for the (merged, extension-free) type definitions `types`; of the built-in
/// scalars only `listed` appear in `types[]`
pub fn introspection_text(types: &[TypeDef], dirs: &[DirectiveDef], query: &str, mutation: Option<&str>, subscription: Option<&str>, listed: &[&str]) -> String {
    let kind_of = |n: &str| -> &'static str { types.iter().find(|t| t.name == n).map(|t| kind_str(t.kind)).unwrap_or("SCALAR") };
    let named = |n: &str| json!({"kind": kind_of(n), "name": n, "ofType": null});
    fn ty(t: &Ty, named: &dyn Fn(&str) -> Value) -> Value {
        match t {
            Ty::Named(n, _) => named(n),
            Ty::List(i, _) => json!({"kind": "LIST", "name": null, "ofType": ty(i, named)}),
            Ty::NonNull(i) => json!({"kind": "NON_NULL", "name": null, "ofType": ty(i, named)}),
        }
    }
    let iv = |v: &InputValueDef| {
        let dep = deprecation(&v.dirs);
        json!({"name": v.name, "description": ostr(&v.desc), "type": ty(&v.ty, &named), "defaultValue": ostr(&v.default.as_ref().map(val_text)),
               "isDeprecated": dep.is_some(), "deprecationReason": ostr(&dep)})
    };
    let field = |f: &FieldDef| {
        let dep = deprecation(&f.dirs);
        json!({"name": f.name, "description": ostr(&f.desc), "args": f.args.iter().map(|a| iv(a)).collect::<Vec<_>>(), "type": ty(&f.ty, &named),
               "isDeprecated": dep.is_some(), "deprecationReason": ostr(&dep)})
    };
    let type_def = |t: &TypeDef| {
        let has_fields = matches!(t.kind, TypeKind::Object | TypeKind::Interface);
        let possible: Option<Vec<String>> = match t.kind {
            TypeKind::Union => Some(t.members.iter().map(|m| m.0.clone()).collect()),
            TypeKind::Interface => Some(types.iter().filter(|o| o.kind == TypeKind::Object && o.implements.iter().any(|i| i.0 == t.name)).map(|o| o.name.clone()).collect()),
            _ => None,
        };
        json!({
            "kind": kind_str(t.kind), "name": t.name, "description": ostr(&t.desc),
            "fields": if has_fields { Value::Array(t.fields.iter().map(|f| field(f)).collect()) } else { Value::Null },
            "inputFields": if t.kind == TypeKind::Input { Value::Array(t.inputs.iter().map(|f| iv(f)).collect()) } else { Value::Null },
            "interfaces": if has_fields { Value::Array(t.implements.iter().map(|i| named(&i.0)).collect()) } else { Value::Null },
            "enumValues": if t.kind == TypeKind::Enum { Value::Array(t.values.iter().map(|v| {
                let dep = deprecation(&v.dirs);
                json!({"name": v.name, "description": ostr(&v.desc), "isDeprecated": dep.is_some(), "deprecationReason": ostr(&dep)})
            }).collect()) } else { Value::Null },
            "possibleTypes": match possible { Some(ps) => Value::Array(ps.iter().map(|p| named(p)).collect()), None => Value::Null },
        })
    };
    let mut tys: Vec<Value> = types.iter().map(|t| type_def(t)).collect();
    for b in listed {
        tys.push(type_def(&TypeDef::new(TypeKind::Scalar, b)));
    }
    let nn_bool = json!({"kind": "NON_NULL", "name": null, "ofType": {"kind": "SCALAR", "name": "Boolean", "ofType": null}});
    let if_arg = json!({"name": "if", "description": null, "type": nn_bool, "defaultValue": null, "isDeprecated": false, "deprecationReason": null});
    let mut ds: Vec<Value> = vec![
        json!({"name": "skip", "description": null, "isRepeatable": false, "locations": ["FIELD", "FRAGMENT_SPREAD", "INLINE_FRAGMENT"], "args": [if_arg.clone()]}),
        json!({"name": "include", "description": null, "isRepeatable": false, "locations": ["FIELD", "FRAGMENT_SPREAD", "INLINE_FRAGMENT"], "args": [if_arg]}),
    ];
    for d in dirs {
        ds.push(json!({"name": d.name, "description": ostr(&d.desc), "isRepeatable": d.repeatable, "locations": d.locations, "args": d.args.iter().map(|a| iv(a)).collect::<Vec<_>>()}));
    }
    let root = |r: Option<&str>| match r {
        Some(n) => json!({"name": n}),
        None => Value::Null,
    };
    let v = json!({"__schema": {
        "description": null,
        "queryType": root(Some(query)), "mutationType": root(mutation), "subscriptionType": root(subscription),
        "types": tys, "directives": ds,
    }});
    serde_json::to_string_pretty(&v).unwrap()
}
