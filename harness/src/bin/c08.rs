//! C08 — no input text can make the toolchain panic; failures are diagnostics.
//!
//! The malformed stream: token-level mutations of valid documents (drop / duplicate / swap tokens, unbalanced
//! brackets, truncated strings and escapes, hostile `\u` escapes, lone `\`, unterminated block strings, deep
//! nesting ≤ 50), random token sequences, arbitrary Unicode / control characters, invalid YAML/JSON config
//! texts, raw texts through the loader ABI. Every public entry point runs under `catch_unwind` with a per-case
//! time bound:
//!   parse_operation_document / parse_type_system_document, resolve_schema_extensions, check_type_system_document,
//!   ast_to_type_system, resolve_operation_extensions, check_operation_document, the printers when check passes
//!   (operation types with values, operation JS), print_positioned_error, parse_config, loader_native::*.
//! The semantic stress stream: VALID-syntax inputs with cyclic / repeated structure for every fixpoint / worklist loop
//! of the later stages — directive definitions referencing each other through argument directives, enum values and
//! input-object fields (every digraph on ≤ 3 directives incl. self loops, a sample / all on 4, long chains), fragment
//! spread graphs (through an operation and unspread), `implements` graphs, input objects referencing each other
//! (nullable and non-null), unions of unions, deep ordinary nesting. Each case runs parse → resolve → check (→
//! printers) in a CHILD PROCESS that announces every stage; a watchdog kills the child when a stage does not return
//! (`hang:<stage>:<family>:<shape>`), so non-termination is detected for real and the run still ends.
//! O: any panic, hang (or a case over the generous time bound) is a failure; signature = stage + panic site class.
//! K: the Lean parser model (`nv_c07`) and the real parser agree on the outcome of every text of the stream
//!    (ok / syntax error with position / panic with site).
use nitrogql_ast::base::Pos;
use nitrogql_error::{print_positioned_error, PositionedError};
use nitrogql_parser::{parse_operation_document, parse_type_system_document};
use nitrogql_printer::{
    print_js_for_operation_document, print_types_for_operation_document, OperationJSPrinterOptions, OperationTypePrinterOptions,
};
use nvh::gen::*;
use nvh::real::*;
use nvh::render::*;
use nvh::*;
use serde_json::{json, Value};
use sourcemap_writer::JustWriter;
use std::io::{BufRead, BufReader, Write};
use std::panic::AssertUnwindSafe;
use std::path::PathBuf;
use std::process::{Child, ChildStdin, ChildStdout, Command, Stdio};
use std::sync::Mutex;

#[path = "c07/common.rs"]
mod common;
#[path = "c07/mutate.rs"]
mod mutate;
#[path = "c08/cliconf.rs"]
mod cliconf;
#[path = "c08/inputclass.rs"]
mod inputclass;
#[path = "c08/project.rs"]
mod project;
#[path = "c08/project_worker.rs"]
mod project_worker;
#[path = "c08/repeats.rs"]
mod repeats;
#[path = "c08/shadow.rs"]
mod shadow;
#[path = "c08/strings.rs"]
mod strings;
#[path = "c08/wrongkind.rs"]
mod wrongkind;
use common::*;

const RULE: &str = "a case is non-trivial if it is not a verbatim valid document: a mutated / random / hostile text, a document that reaches a later stage (check, printers), a rendered diagnostic, a config text or a loader call sequence (distinct by text)";
/// per-case time bound (debug build of the real code)
const TIME_BOUND_MS: u128 = 60000; // generous: a bound on termination, not a performance test (machine load must not raise alarms)

// ------------------------------------------------------------------------------------------------
// panic sites: the hook records file:line of the last panic of this thread's process

static LAST_PANIC_AT: Mutex<String> = Mutex::new(String::new());

fn install_hook() {
    std::panic::set_hook(Box::new(|info| {
        let loc = info.location().map(|l| format!("{}:{}", l.file(), l.line())).unwrap_or_default();
        if let Ok(mut g) = LAST_PANIC_AT.lock() {
            *g = loc;
        }
    }));
}

/// stable class of a panic: file (repo-relative, without line) + class of the message
fn site_class(msg: &str) -> String {
    let at = LAST_PANIC_AT.lock().map(|g| g.clone()).unwrap_or_default();
    site_class_of(&at, msg)
}

/// the same class from a `file:line` reported by a child process
fn site_class_of(at: &str, msg: &str) -> String {
    let file = at.rsplit_once(':').map(|x| x.0).unwrap_or(at);
    let file = file.strip_prefix("/repo/").unwrap_or(file);
    let file = if let Some(i) = file.find("/registry/src/") { file[i + 14..].split_once('/').map(|x| x.1).unwrap_or(file) } else { file };
    let mut cls = panic_class(msg);
    // "Type system error" is the message of every `expect` that relies on the checker (dozens of sites, several per
    // file): file + message would lump them together, and one known finding would mask every other site of its file.
    // The enclosing function (read from the source at the reported line; stable when lines move) tells them apart.
    if cls == "other:Type-system-error" {
        if let Some(f) = enclosing_fn(at) {
            cls = format!("{cls}@{f}");
        }
    }
    format!("{}:{}", file.replace(' ', "_"), cls.replace(' ', "_"))
}

/// `Type::function` / `function` enclosing `file:line`, from the source text
fn enclosing_fn(at: &str) -> Option<String> {
    let (file, line) = at.rsplit_once(':')?;
    let line: usize = line.parse().ok()?;
    let text = std::fs::read_to_string(file).or_else(|_| std::fs::read_to_string(format!("/repo/{file}"))).ok()?;
    let lines: Vec<&str> = text.lines().take(line).collect();
    let ident = |s: &str| -> String { s.chars().take_while(|c| c.is_alphanumeric() || *c == '_').collect() };
    let mut k = lines.len();
    let mut name = None;
    while k > 0 {
        k -= 1;
        let l = lines[k];
        if let Some(i) = l.find("fn ") {
            let before_ok = i == 0 || l[..i].ends_with(' ') || l[..i].ends_with('(');
            let n = ident(&l[i + 3..]);
            if before_ok && !n.is_empty() && !l.trim_start().starts_with("//") {
                name = Some(n);
                break;
            }
        }
    }
    let name = name?;
    // several sites of one function share the message: the ordinal of the site among the lines of the function that
    // carry the message text (the reported line is the line of the `.expect(..)` / `panic!(..)` call)
    let ordinal = lines[k..].iter().filter(|l| l.contains("Type system error")).count();
    let name = if ordinal > 0 { format!("{name}#{ordinal}") } else { name };
    // a method: the nearest `impl … for Type` / `impl Type` above, unless a top-level block ended in between
    while k > 0 {
        k -= 1;
        let l = lines[k];
        if l.starts_with('}') {
            break;
        }
        if l.starts_with("impl") {
            let target = l.split(" for ").last().unwrap_or(l).trim_start_matches("impl").trim_start();
            let target = if target.starts_with('<') { target.split_once('>').map(|x| x.1.trim_start()).unwrap_or(target) } else { target };
            let t = ident(target);
            if !t.is_empty() {
                return Some(format!("{t}::{name}"));
            }
            break;
        }
    }
    Some(name)
}

fn at_line() -> String {
    LAST_PANIC_AT.lock().map(|g| g.clone()).unwrap_or_default()
}

/// an O panic: the signature is the class of the failing INPUT when one applies (a refactoring cannot change the
/// input), otherwise the code site; the site always stays in the description
fn fail_classified(rep: &mut Report, stage: &str, site_sig: &str, what: &str, case: &Value) {
    match inputclass::class_signature(stage, case) {
        Some(sig) => rep.fail("O", &sig, &format!("{what} [input class; code site: {site_sig}]"), case.clone()),
        None => rep.fail("O", site_sig, what, case.clone()),
    }
}

struct Ctx<'a> {
    rep: &'a mut Report,
    drv: &'a mut Driver,
    slowest: (u128, String),
}

impl<'a> Ctx<'a> {
    fn timed<T>(&mut self, what: &str, case: &Value, f: impl FnOnce() -> T) -> T {
        let t0 = std::time::Instant::now();
        let r = f();
        let ms = t0.elapsed().as_millis();
        if ms > self.slowest.0 {
            self.slowest = (ms, what.to_string());
        }
        if ms > TIME_BOUND_MS {
            self.rep.fail("O", &format!("slow:{what}"), &format!("{what} took {ms} ms (bound {TIME_BOUND_MS} ms)"), case.clone());
        }
        r
    }

    fn o_panic(&mut self, stage: &str, msg: &str, case: &Value) {
        let site = format!("panic:{stage}:{}", site_class(msg));
        let what = format!("{stage} panics at {}: {}", at_line(), msg.lines().next().unwrap_or(""));
        fail_classified(self.rep, stage, &site, &what, case);
    }

    /// stream A: texts through both parsers, K against the model, O no panic; returns nothing
    fn parse_stream(&mut self, cases: &[(&'static str, String, String)]) {
        let reqs: Vec<Sexp> = cases.iter().map(|(k, t, _)| request(k, t)).collect();
        let answers = self.drv.batch(&reqs);
        let sreqs: Vec<Sexp> = cases.iter().map(|(k, t, _)| Sexp::call("gql.shapecheck", vec![Sexp::atom(*k), Sexp::str(t.as_str())])).collect();
        let shapes = self.drv.batch(&sreqs);
        for ((kind, text, label), sh) in cases.iter().zip(shapes.iter()) {
            match sh.head() {
                Some("ok") => self.rep.count_n("shape:pairs-checked", sh.args()[0].as_int().unwrap_or(0) as u64),
                Some("noparse") => {}
                _ => self.rep.fail("K", "shape:children-not-in-shape", &format!("{text:?}: a pair's children are outside Shape.ruleShape of its rule: {}", sh.to_line()), json!({"stream": "parse", "kind": kind, "text": text, "label": label})),
            }
        }
        for ((kind, text, label), ans) in cases.iter().zip(answers.iter()) {
            self.rep.evaluations += 1;
            let case = json!({"stream": "parse", "kind": kind, "text": text, "label": label});
            let real = self.timed(&format!("parse-{kind}"), &case, || real_parse(kind, text));
            let model = model_res(ans);
            self.rep.k_cases += 1;
            self.rep.o_cases += 1;
            self.rep.count(&format!("parse:{kind}:{}", real.kind()));
            self.rep.count(&format!("label:{}", label));
            self.rep.nontrivial(&format!("{kind}|{text}"));
            if real != model {
                let sig = match (&real, &model) {
                    (Res::Ok(_), Res::Ok(_)) => format!("parse-{kind}:ast"),
                    (Res::Err(..), Res::Err(..)) => format!("parse-{kind}:error-position"),
                    (Res::Panic(_), Res::Panic(_)) => format!("parse-{kind}:panic-site"),
                    _ => format!("parse-{kind}:outcome-{}-vs-{}", real.kind(), model.kind()),
                };
                self.rep.fail("K", &sig, &format!("{text:?}: code → {} ; model → {}", real.show(), model.show()), case.clone());
            }
            if let Res::Panic(m) = &real {
                self.rep.fail("O", &format!("panic:parse-{kind}:{m}"), &format!("{text:?} makes the parser panic ({m}) at {}", at_line()), case.clone());
            }
            // stream C: the diagnostic of a parse error is rendered
            if let Res::Err(..) = real {
                self.render_parse_error(kind, text, &case);
            }
        }
    }

    fn render_parse_error(&mut self, kind: &str, text: &str, case: &Value) {
        let (k, t) = (kind.to_string(), text.to_string());
        let r = catch(move || {
            nitrogql_ast::set_current_file_of_pos(0);
            let e: Option<PositionedError> = if k == "op" { parse_operation_document(&t).err().map(Into::into) } else { parse_type_system_document(&t).err().map(Into::into) };
            e.map(|e| {
                let files = vec![(PathBuf::from("/p/x.graphql"), t.clone(), ())];
                print_positioned_error(&e, &files).len()
            })
        });
        self.rep.o_cases += 1;
        self.rep.count("render:parse-error");
        if let Err(m) = r {
            self.o_panic("print_positioned_error", &m, case);
        }
    }

    /// stream C': positions anywhere (also past the end) against arbitrary sources
    fn render_stream(&mut self, rng: &mut Rng, n: usize) {
        for _ in 0..n {
            let src = match rng.below(4) {
                0 => mutate::unicode_noise(rng),
                1 => mutate::soup(rng),
                2 => "a\n\tb\r\n  c\n\n   \n😀 é x".to_string(),
                _ => String::new(),
            };
            let pos = |rng: &mut Rng| Pos { line: [0, 1, 2, 3, 7, 1000][rng.below(6)], column: [0, 1, 2, 5, 40, 5000][rng.below(6)], file: 0, builtin: rng.chance(1, 10) };
            let p0 = pos(rng);
            let extra: Vec<(Pos, String)> = (0..rng.below(3)).map(|i| (pos(rng), format!("info {i}"))).collect();
            let case = json!({"stream": "render", "source": src, "line": p0.line, "column": p0.column, "extra": extra.iter().map(|(p, _)| json!([p.line, p.column])).collect::<Vec<_>>()});
            self.render_case(&src, p0, extra, &case);
        }
    }

    fn render_case(&mut self, src: &str, p0: Pos, extra: Vec<(Pos, String)>, case: &Value) {
        self.rep.evaluations += 1;
        self.rep.o_cases += 1;
        self.rep.count("render:synthetic");
        self.rep.nontrivial(&case.to_string());
        let s = src.to_string();
        let r = catch(move || {
            let e = PositionedError::new(ParseMsg("synthetic".into()).into(), Some(p0), extra);
            let files = vec![(PathBuf::from("/p/x.graphql"), s, ())];
            print_positioned_error(&e, &files).len()
        });
        if let Err(m) = r {
            self.o_panic("print_positioned_error", &m, case);
        }
    }

    /// stream B: the later stages. `sdl` must be a schema text; `ops` operation texts checked against it.
    fn pipeline(&mut self, sdl: &str, ops: &[String], label: &str) {
        self.rep.evaluations += 1;
        self.rep.o_cases += 1;
        self.rep.nontrivial(&format!("pipeline|{sdl}|{}", ops.join("|")));
        let case = json!({"stream": "pipeline", "schema": sdl, "operations": ops, "label": label});
        let ops_v: Vec<String> = ops.to_vec();
        let t0 = std::time::Instant::now();
        let r = with_schema(&[sdl.to_string()], |_, schema| {
            let mut outs = vec![];
            for (i, t) in ops_v.iter().enumerate() {
                let r = with_operation(schema, t, i + 1, |doc, diags| {
                    if !diags.is_empty() {
                        return ("diagnostics", None);
                    }
                    // check passed: generation must not panic
                    let ts = catch(AssertUnwindSafe(|| {
                        let mut out = String::new();
                        let mut w = JustWriter::new(&mut out);
                        let options = OperationTypePrinterOptions { print_values: true, ..Default::default() };
                        print_types_for_operation_document(options, schema, doc, &mut w);
                        out.len()
                    }));
                    if let Err(m) = ts {
                        return ("panic", Some(("print_types_for_operation_document", m)));
                    }
                    let js = catch(AssertUnwindSafe(|| {
                        let mut out = String::new();
                        let mut w = JustWriter::new(&mut out);
                        print_js_for_operation_document(OperationJSPrinterOptions::default(), doc, &mut w);
                        out.len()
                    }));
                    if let Err(m) = js {
                        return ("panic", Some(("print_js_for_operation_document", m)));
                    }
                    ("generated", None)
                });
                outs.push(match r {
                    Ok(x) => x,
                    Err(Stage::Diags(d)) => (if d.first().map_or(false, |x| x.stage == "parse-operation") { "op-syntax-error" } else { "op-resolve-error" }, None),
                    Err(Stage::Panic(s, m)) => ("panic", Some((if s == "operation" { "parse/resolve/check-operation" } else { "after-check" }, m))),
                });
            }
            outs
        });
        let ms = t0.elapsed().as_millis();
        if ms > TIME_BOUND_MS {
            self.rep.fail("O", "slow:pipeline", &format!("pipeline took {ms} ms"), case.clone());
        }
        match r {
            Ok(outs) => {
                self.rep.count("pipeline:schema-accepted");
                for (i, (tag, p)) in outs.into_iter().enumerate() {
                    self.rep.count(&format!("pipeline:op:{tag}"));
                    if let Some((stage, m)) = p {
                        // the failing case is the schema with the ONE operation document that panicked
                        let one = json!({"stream": "pipeline", "schema": sdl, "operations": [ops[i]], "label": label});
                        self.o_panic(stage, &m, &one);
                    }
                }
            }
            Err(Stage::Diags(d)) => self.rep.count(&format!("pipeline:schema:{}", d.first().map(|x| x.stage).unwrap_or("?"))),
            Err(Stage::Panic(_, m)) => self.o_panic("schema-stages", &m, &case),
        }
    }

    /// stream D: configuration texts
    fn config_case(&mut self, text: &str) {
        self.rep.evaluations += 1;
        self.rep.o_cases += 1;
        self.rep.nontrivial(&format!("config|{text}"));
        let case = json!({"stream": "config", "text": text});
        let t = text.to_string();
        let r = self.timed("parse_config", &case, || catch(move || nitrogql_config_file::parse_config(&t).is_some()));
        match r {
            Ok(b) => self.rep.count(if b { "config:accepted" } else { "config:rejected" }),
            Err(m) => self.o_panic("parse_config", &m, &case),
        }
    }
}

#[derive(Debug)]
struct ParseMsg(String);
impl std::fmt::Display for ParseMsg {
    fn fmt(&self, f: &mut std::fmt::Formatter<'_>) -> std::fmt::Result {
        f.write_str(&self.0)
    }
}
impl std::error::Error for ParseMsg {}

// ------------------------------------------------------------------------------------------------
// stream E: the loader ABI in a child process (a panic inside an `extern "C"` function aborts the process)

mod worker {
    use loader_native as ln;
    use serde_json::{json, Value};
    use std::io::{BufRead, Write};

    fn pass(b: &[u8]) -> (*mut u8, usize) {
        let ptr = ln::alloc_string(b.len());
        unsafe { std::ptr::copy_nonoverlapping(b.as_ptr(), ptr, b.len()) };
        (ptr, b.len())
    }
    fn free(p: (*mut u8, usize)) {
        unsafe { ln::free_string(p.0, p.1) };
    }
    fn result() -> String {
        let (ptr, size) = (ln::get_result_ptr(), ln::get_result_size());
        String::from_utf8_lossy(unsafe { std::slice::from_raw_parts(ptr, size) }).into_owned()
    }
    fn bytes(v: &Value) -> Vec<u8> {
        match v {
            Value::String(s) => s.as_bytes().to_vec(),
            Value::Array(a) => a.iter().map(|x| x.as_u64().unwrap_or(0) as u8).collect(),
            _ => vec![],
        }
    }

    /// one case = one fresh thread = one fresh loader instance (its state is thread-local)
    fn run_case(c: &Value) -> Value {
        let mut log = vec![];
        if let Some(cfg) = c.get("config") {
            let p = pass(&bytes(cfg));
            let ok = ln::load_config(p.0, p.1);
            free(p);
            log.push(json!(["load_config", ok]));
        }
        let (f, s) = (pass(&bytes(&c["path"])), pass(&bytes(&c["source"])));
        let id = ln::initiate_task(f.0, f.1, s.0, s.1);
        free(f);
        free(s);
        log.push(json!(["initiate_task", id]));
        if id == 0 {
            log.push(json!(["error", result().chars().take(80).collect::<String>()]));
            return Value::Array(log);
        }
        for round in 0..4 {
            if !ln::get_required_files(id) {
                log.push(json!(["get_required_files", false]));
                break;
            }
            let req = result();
            log.push(json!(["required", req.lines().count()]));
            if req.is_empty() {
                break;
            }
            let mut any = false;
            for path in req.lines() {
                let src = c["files"].as_array().and_then(|fs| fs.iter().find(|e| e[0].as_str() == Some(path)).map(|e| bytes(&e[1])));
                let src = src.unwrap_or_else(|| bytes(&c["fallback"]));
                let (f, s) = (pass(path.as_bytes()), pass(&src));
                let ok = ln::load_file(id, f.0, f.1, s.0, s.1);
                free(f);
                free(s);
                any = true;
                log.push(json!(["load_file", ok]));
            }
            if !any || round == 3 {
                break;
            }
        }
        let ok = ln::emit_js(id);
        log.push(json!(["emit_js", ok, result().len()]));
        ln::free_task(id);
        Value::Array(log)
    }

    pub fn main() {
        std::panic::set_hook(Box::new(|info| {
            let mut o = std::io::stdout();
            let _ = writeln!(o, "p {}", serde_json::to_string(&Value::String(info.to_string())).unwrap());
            let _ = o.flush();
        }));
        let stdin = std::io::stdin();
        for line in stdin.lock().lines() {
            let Ok(line) = line else { break };
            let Ok(c) = serde_json::from_str::<Value>(&line) else { continue };
            let t = std::thread::Builder::new().stack_size(16 << 20).spawn(move || run_case(&c)).expect("spawn");
            let r = t.join().unwrap_or(Value::Null);
            let mut o = std::io::stdout();
            let _ = writeln!(o, "r {}", serde_json::to_string(&r).unwrap());
            let _ = o.flush();
        }
    }
}

// ------------------------------------------------------------------------------------------------
// the semantic stress stream: stage-announcing worker + watchdog

mod stress_worker {
    use nitrogql_ast::{set_current_file_of_pos, TypeSystemOrExtensionDocument};
    use nitrogql_checker::{check_operation_document, check_type_system_document, OperationCheckContext};
    use nitrogql_parser::{parse_operation_document, parse_type_system_document};
    use nitrogql_printer::{
        print_js_for_operation_document, print_types_for_operation_document, OperationJSPrinterOptions, OperationTypePrinterOptions,
    };
    use nitrogql_semantics::{ast_to_type_system, resolve_operation_extensions, resolve_schema_extensions};
    use nvh::catch;
    use nvh::real::NITROGQL_BUILTINS_SDL;
    use serde_json::{json, Value};
    use sourcemap_writer::JustWriter;
    use std::io::{BufRead, Write};
    use std::panic::AssertUnwindSafe;

    fn say(line: &str) {
        let mut o = std::io::stdout();
        let _ = writeln!(o, "{line}");
        let _ = o.flush();
    }
    /// announce a stage (the watchdog attributes a hang to the last announced stage)
    fn stage(name: &str) {
        say(&format!("s {name}"));
    }

    fn run_case(c: &Value) -> Value {
        if c["stream"].as_str() == Some("project") {
            // self-test of the watchdog (only reachable through a hand-written replay file)
            match c["selftest"].as_str() {
                Some("spin") => {
                    stage("selftest-spin");
                    let mut x = 0u64;
                    loop {
                        x = std::hint::black_box(x.wrapping_add(1));
                    }
                }
                Some("abort") => {
                    extern "C" fn boom() {
                        panic!("selftest panic inside extern C");
                    }
                    stage("selftest-abort");
                    boom();
                }
                _ => {}
            }
            return super::project_worker::run_project(c, &stage);
        }
        let sdl = c["schema"].as_str().unwrap_or("").to_string();
        let ops: Vec<String> = c["operations"].as_array().map(|a| a.iter().map(|x| x.as_str().unwrap_or("").to_string()).collect()).unwrap_or_default();
        let nb_text = NITROGQL_BUILTINS_SDL.to_string();
        macro_rules! guarded {
            ($name:expr, $body:expr) => {{
                stage($name);
                match catch(AssertUnwindSafe(|| $body)) {
                    Ok(v) => v,
                    Err(m) => return json!({"panic": [$name, m]}),
                }
            }};
        }
        set_current_file_of_pos(0);
        let doc = match guarded!("parse-schema", parse_type_system_document(&sdl)) {
            Ok(d) => d,
            Err(_) => return json!({"schema": "syntax-error"}),
        };
        let resolved = guarded!("resolve-schema", {
            let mut merged = TypeSystemOrExtensionDocument::merge(vec![doc]);
            merged.extend(graphql_builtins::generate_builtins());
            let nb = parse_type_system_document(&nb_text).expect("builtin sdl");
            merged.extend(nb.definitions);
            resolve_schema_extensions(merged)
        });
        let resolved = match resolved {
            Ok(r) => r,
            Err(_) => return json!({"schema": "resolve-error"}),
        };
        let errs = guarded!("check-schema", check_type_system_document(&resolved).len());
        if errs > 0 {
            return json!({"schema": "check-errors", "n": errs});
        }
        let schema = guarded!("ast_to_type_system", ast_to_type_system(&resolved));
        let mut outs = vec![];
        for (i, t) in ops.iter().enumerate() {
            set_current_file_of_pos(i + 1);
            let d = match guarded!("parse-operation", parse_operation_document(t)) {
                Ok(d) => d,
                Err(_) => {
                    outs.push("syntax-error");
                    continue;
                }
            };
            let d = match guarded!("resolve-operation", resolve_operation_extensions(d)) {
                Ok((d, _)) => d,
                Err(_) => {
                    outs.push("resolve-error");
                    continue;
                }
            };
            let n = guarded!("check-operation", {
                let ctx = OperationCheckContext::new(&schema);
                check_operation_document(&d, &ctx).len()
            });
            if n > 0 {
                outs.push("check-errors");
                continue;
            }
            guarded!("print-types", {
                let mut out = String::new();
                let mut w = JustWriter::new(&mut out);
                let options = OperationTypePrinterOptions { print_values: true, ..Default::default() };
                print_types_for_operation_document(options, &schema, &d, &mut w);
            });
            guarded!("print-js", {
                let mut out = String::new();
                let mut w = JustWriter::new(&mut out);
                print_js_for_operation_document(OperationJSPrinterOptions::default(), &d, &mut w);
            });
            outs.push("generated");
        }
        json!({"schema": "accepted", "ops": outs})
    }

    pub fn main() {
        // the hook records the site and tells the parent: a panic inside an `extern "C"` function (loader ABI) aborts
        // the process right after the hook, so the message must be out before
        std::panic::set_hook(Box::new(|info| {
            let loc = info.location().map(|l| format!("{}:{}", l.file(), l.line())).unwrap_or_default();
            if let Ok(mut g) = super::LAST_PANIC_AT.lock() {
                *g = loc.clone();
            }
            let msg = info.payload().downcast_ref::<&str>().map(|s| s.to_string()).or_else(|| info.payload().downcast_ref::<String>().cloned()).unwrap_or_default();
            say(&format!("p {}", json!({"at": loc, "msg": msg})));
        }));
        let stdin = std::io::stdin();
        for line in stdin.lock().lines() {
            let Ok(line) = line else { break };
            let Ok(c) = serde_json::from_str::<Value>(&line) else { continue };
            // a roomy stack: "deep but ordinary nesting" must not be mistaken for a defect of the harness thread
            let t = std::thread::Builder::new().stack_size(64 << 20).spawn(move || run_case(&c)).expect("spawn");
            let r = t.join().unwrap_or(json!({"panic": ["thread", "worker thread died"]}));
            say(&format!("r {}", serde_json::to_string(&r).unwrap()));
        }
    }
}

/// watchdog for the stress and project streams. The inputs are tiny (a handful of definitions): every stage takes well
/// under a millisecond of CPU. A hang is declared when the CHILD'S OWN CPU TIME on one case exceeds `HANG_CPU_MS`
/// (read from /proc/<pid>/stat; ~10^3–10^4 × the expected time, and independent of the load of the machine because time
/// spent waiting for a CPU does not count), or — backstop for a child that sleeps forever, and the only criterion when
/// /proc cannot be read — when the wall clock exceeds `HANG_BOUND_MS`.
const HANG_BOUND_MS: u64 = 20000;
const HANG_CPU_MS: u64 = 4000;
/// after this many hangs the rest of the stream is skipped (every hang costs the bound)
const MAX_HANGS: usize = 3;

struct StressWorker {
    child: Child,
    stdin: ChildStdin,
    lines: std::sync::mpsc::Receiver<String>,
}

enum StressRes {
    Done(Value),
    /// (last announced stage, "cpu" | "wall", milliseconds)
    Hang(String, &'static str, u64),
    /// (last announced stage, the panic the child's hook announced before the process died)
    Died(String, Option<(String, String)>),
}

/// user + system CPU time of a process (all its threads) in ms; None when /proc is not available
fn cpu_ms_of(pid: u32) -> Option<u64> {
    let s = std::fs::read_to_string(format!("/proc/{pid}/stat")).ok()?;
    let rest = &s[s.rfind(')')? + 1..];
    let f: Vec<&str> = rest.split_whitespace().collect();
    // after "(comm)": state is field 3, utime field 14, stime field 15; USER_HZ is 100 on Linux
    let (u, k) = (f.get(11)?.parse::<u64>().ok()?, f.get(12)?.parse::<u64>().ok()?);
    Some((u + k) * 10)
}

impl StressWorker {
    fn spawn() -> StressWorker {
        let exe = std::env::current_exe().expect("current exe");
        let mut child = Command::new(exe).arg("--worker").arg("2").stdin(Stdio::piped()).stdout(Stdio::piped()).stderr(Stdio::null()).spawn().expect("spawn stress worker");
        let stdin = child.stdin.take().unwrap();
        let stdout = BufReader::new(child.stdout.take().unwrap());
        let (tx, rx) = std::sync::mpsc::channel();
        std::thread::spawn(move || {
            for l in stdout.lines() {
                match l {
                    Ok(l) => {
                        if tx.send(l).is_err() {
                            break;
                        }
                    }
                    Err(_) => break,
                }
            }
        });
        StressWorker { child, stdin, lines: rx }
    }
    fn call(&mut self, case: &Value) -> StressRes {
        let line = serde_json::to_string(case).unwrap();
        let cpu0 = cpu_ms_of(self.child.id());
        if self.stdin.write_all(line.as_bytes()).is_err() || self.stdin.write_all(b"\n").is_err() || self.stdin.flush().is_err() {
            return StressRes::Died("start".into(), None);
        }
        let t0 = std::time::Instant::now();
        let deadline = t0 + std::time::Duration::from_millis(HANG_BOUND_MS);
        let mut last_stage = String::from("start");
        let mut last_panic: Option<(String, String)> = None;
        loop {
            let left = deadline.saturating_duration_since(std::time::Instant::now());
            let slice = left.min(std::time::Duration::from_millis(200));
            match self.lines.recv_timeout(slice) {
                Ok(l) => {
                    if let Some(s) = l.strip_prefix("s ") {
                        last_stage = s.trim().to_string();
                    } else if let Some(p) = l.strip_prefix("p ") {
                        if let Ok(v) = serde_json::from_str::<Value>(p.trim()) {
                            if last_panic.is_none() {
                                // the first message is the panic; "panic in a function that cannot unwind" follows it
                                last_panic = Some((v["at"].as_str().unwrap_or("").to_string(), v["msg"].as_str().unwrap_or("").to_string()));
                            }
                        }
                    } else if let Some(r) = l.strip_prefix("r ") {
                        return StressRes::Done(serde_json::from_str(r.trim()).unwrap_or(Value::Null));
                    }
                }
                Err(std::sync::mpsc::RecvTimeoutError::Timeout) => {
                    let cpu = match (cpu0, cpu_ms_of(self.child.id())) {
                        (Some(a), Some(b)) => Some(b.saturating_sub(a)),
                        _ => None,
                    };
                    let wall_over = std::time::Instant::now() >= deadline;
                    if cpu.map_or(false, |c| c > HANG_CPU_MS) || wall_over {
                        let _ = self.child.kill();
                        let _ = self.child.wait();
                        return match cpu {
                            Some(c) if c > HANG_CPU_MS => StressRes::Hang(last_stage, "cpu", c),
                            _ => StressRes::Hang(last_stage, "wall", t0.elapsed().as_millis() as u64),
                        };
                    }
                }
                Err(std::sync::mpsc::RecvTimeoutError::Disconnected) => {
                    let _ = self.child.wait();
                    return StressRes::Died(last_stage, last_panic);
                }
            }
        }
    }
    fn close(mut self) {
        drop(self.stdin);
        let _ = self.child.wait();
    }
}

/// run stress cases (`{"stream":"stress","class":…,"schema":…,"operations":[…]}`) and project cases
/// (`{"stream":"project","class":…,"schema":…,"config":…,"files":[[path,text],…]}`) under the watchdog
fn stress_stream(rep: &mut Report, cases: &[Value]) {
    let mut w = StressWorker::spawn();
    let mut hangs = 0;
    for (k, c) in cases.iter().enumerate() {
        let is_project = c["stream"].as_str() == Some("project");
        let tag = if is_project { "project" } else { "stress" };
        if hangs >= MAX_HANGS {
            rep.count_n(&format!("{tag}:skipped-after-hangs"), (cases.len() - k) as u64);
            rep.notes.push(format!("{tag} stream stopped after {MAX_HANGS} hangs; {} cases not run", cases.len() - k));
            break;
        }
        rep.evaluations += 1;
        rep.o_cases += 1;
        let class = c["class"].as_str().unwrap_or("unclassified").to_string();
        let size = if is_project {
            rep.nontrivial(&format!("project|{}|{}", c["config"], c["files"]));
            rep.count(&format!("project:{class}"));
            c["files"].as_array().map_or(0, |a| a.iter().map(|f| f[1].as_str().map_or(0, |s| s.len())).sum())
        } else {
            rep.nontrivial(&format!("stress|{}|{}", c["schema"], c["operations"]));
            rep.count(&format!("stress:{}", class.split(':').next().unwrap_or("")));
            c["schema"].as_str().map_or(0, |s| s.len())
        };
        match w.call(c) {
            StressRes::Done(r) if is_project => {
                let mut panics: Vec<Value> = r["cli"].get("panic").cloned().into_iter().collect();
                panics.extend(r["cli"]["panics"].as_array().cloned().unwrap_or_default());
                for p in &panics {
                    let (st, m, at) = (p[0].as_str().unwrap_or(""), p[1].as_str().unwrap_or(""), p[2].as_str().unwrap_or(""));
                    fail_classified(rep, st, &format!("panic:{st}:{}", site_class_of(at, m)), &format!("{st} panics at {at} on a project of {} files ({class}): {}", c["files"].as_array().map_or(0, |a| a.len()), m.lines().next().unwrap_or("")), c);
                }
                if panics.is_empty() {
                    rep.count(&format!("project-outcome:{}", r["cli"]["outcome"].as_str().unwrap_or("?")));
                } else {
                    rep.count("project-outcome:panic");
                }
                if let Some(tags) = r["loader"].as_array() {
                    for t in tags {
                        rep.count(&format!("project-loader:{}", t.as_str().unwrap_or("?")));
                    }
                }
            }
            StressRes::Done(r) => {
                if let Some(p) = r.get("panic").and_then(|p| p.as_array()) {
                    let (st, m) = (p[0].as_str().unwrap_or(""), p[1].as_str().unwrap_or(""));
                    rep.fail("O", &format!("panic:{st}:{}", panic_class(m)), &format!("stage {st} panics on a {class} input: {}", m.lines().next().unwrap_or("")), c.clone());
                } else {
                    rep.count(&format!("stress-outcome:{}", r["schema"].as_str().unwrap_or("?")));
                    if let Some(ops) = r["ops"].as_array() {
                        for o in ops {
                            rep.count(&format!("stress-op:{}", o.as_str().unwrap_or("?")));
                        }
                    }
                }
            }
            StressRes::Hang(st, clock, ms) => {
                hangs += 1;
                let (what, bound) = if clock == "cpu" { ("has used", HANG_CPU_MS) } else { ("has not returned after", HANG_BOUND_MS) };
                rep.fail("O", &format!("hang:{st}:{class}"), &format!("stage {st} does not return: the child {what} {ms} ms of {clock} time (bound {bound} ms) on a {class} input of {size} bytes"), c.clone());
                w = StressWorker::spawn();
            }
            StressRes::Died(st, panic) => {
                match (is_project, panic) {
                    (true, Some((at, m))) => rep.fail("O", &format!("panic:{st}:{}", site_class_of(&at, &m)), &format!("{st} panics at {at} and the process aborts ({class}): {}", m.lines().next().unwrap_or("")), c.clone()),
                    (true, None) => rep.fail("O", &format!("abort:{st}:{class}"), &format!("worker process died during stage {st} (stack overflow / abort)"), c.clone()),
                    (false, _) => rep.fail("O", &format!("abort:{class}"), &format!("worker process died during stage {st} (stack overflow / abort)"), c.clone()),
                }
                w = StressWorker::spawn();
            }
        }
    }
    w.close();
}

// ---- the CLI-config stream: the real built binary on configuration texts × file sets

/// make sure the binary at `cli` is built from /repo's working tree (`./check` builds it only for properties whose
/// config says `needs_cli`; an up-to-date build is a no-op of ~0.1 s). Returns a note when the stream cannot run.
fn ensure_cli(cli: &str) -> Result<u64, String> {
    let path = std::path::Path::new(cli);
    let target = path.parent().and_then(|d| d.parent()).filter(|_| path.ends_with("debug/nitrogql-cli")).ok_or_else(|| format!("--cli {cli:?} is not <target>/debug/nitrogql-cli"))?;
    let t0 = std::time::Instant::now();
    let out = Command::new("cargo").args(["build", "--offline", "-p", "nitrogql-cli", "--target-dir"]).arg(target).current_dir("/repo").stdin(Stdio::null()).output().map_err(|e| format!("cannot run cargo: {e}"))?;
    if !out.status.success() {
        let err = String::from_utf8_lossy(&out.stderr);
        return Err(format!("building nitrogql-cli failed: {}", err.chars().rev().take(600).collect::<String>().chars().rev().collect::<String>()));
    }
    if !path.exists() {
        return Err(format!("{cli} does not exist after the build"));
    }
    Ok(t0.elapsed().as_millis() as u64)
}

fn cli_stream(rep: &mut Report, args: &Args, cases: &[Value]) {
    let cli = args.extra.get("cli").cloned().unwrap_or_default();
    match ensure_cli(&cli) {
        Ok(ms) => drop(rep.extra.insert("cli_build_ms".into(), json!(ms))),
        Err(note) => {
            rep.notes.push(format!("CLI-config stream not run: {note}"));
            rep.count_n("cli:not-run", cases.len() as u64);
            return;
        }
    }
    let scratch = if args.scratch.is_empty() { std::env::temp_dir().to_string_lossy().to_string() } else { args.scratch.clone() };
    let mut hangs = 0;
    for c in cases {
        if hangs >= MAX_HANGS {
            rep.notes.push("CLI-config stream stopped after repeated hangs".into());
            break;
        }
        rep.evaluations += 1;
        rep.o_cases += 1;
        rep.nontrivial(&format!("cli|{}|{}", c["files"], c["args"]));
        let class = c["class"].as_str().unwrap_or("unclassified");
        rep.count(&format!("cli:{}", class.split(':').next().unwrap_or("")));
        for part in class.split(':').skip(1) {
            rep.count(&format!("cli-{part}"));
        }
        match cliconf::run_case(&cli, &scratch, c, &site_class_of) {
            cliconf::Verdict::Ok(tag) => rep.count(&format!("cli-outcome:{tag}")),
            cliconf::Verdict::Fail(sig, what) => {
                if sig.starts_with("hang:") {
                    hangs += 1;
                }
                rep.count("cli-outcome:failure");
                rep.fail("O", &sig, &format!("{what} ({class})"), c.clone());
            }
        }
    }
}

// ---- generators of the stress stream

/// edges of a digraph on n nodes from a bit mask (bit i*n+j = edge i → j)
fn edges_of(n: usize, mask: u32) -> Vec<Vec<usize>> {
    (0..n).map(|i| (0..n).filter(|j| mask >> (i * n + j) & 1 == 1).collect()).collect()
}

/// shape class of a digraph (computed from the graph, not from how it was generated)
fn shape_class(adj: &[Vec<usize>]) -> &'static str {
    let n = adj.len();
    // reach[i][j]: a path of length ≥ 1 from i to j
    let mut reach = vec![vec![false; n]; n];
    for i in 0..n {
        for &j in &adj[i] {
            reach[i][j] = true;
        }
    }
    for k in 0..n {
        for i in 0..n {
            for j in 0..n {
                if reach[i][k] && reach[k][j] {
                    reach[i][j] = true;
                }
            }
        }
    }
    let on_cycle: Vec<bool> = (0..n).map(|i| reach[i][i]).collect();
    let any_cycle = on_cycle.iter().any(|b| *b);
    let self_loop_only = any_cycle && (0..n).all(|i| !on_cycle[i] || adj[i].contains(&i) && (0..n).all(|j| j == i || !(reach[i][j] && reach[j][i])));
    let from_outside = (0..n).any(|i| !on_cycle[i] && (0..n).any(|j| on_cycle[j] && reach[i][j]));
    let diamond = (0..n).any(|i| (0..n).any(|j| j != i && adj.iter().enumerate().filter(|(k, _)| reach[i][*k] || *k == i).filter(|(_, a)| a.contains(&j)).count() >= 2));
    match (any_cycle, self_loop_only, from_outside) {
        (true, true, true) => "self-loop-reached-from-outside",
        (true, false, true) => "cycle-reached-from-outside",
        (true, true, false) => "self-loop",
        (true, false, false) => "cycle",
        _ => {
            if diamond { "diamond" } else if adj.iter().all(|a| a.is_empty()) { "no-edges" } else { "acyclic" }
        }
    }
}

const DIR_LOCS: &str = "ARGUMENT_DEFINITION | ENUM_VALUE | INPUT_FIELD_DEFINITION | ENUM | INPUT_OBJECT | SCALAR | FIELD_DEFINITION";

/// directive definitions d0..d(n-1); edge i → j realised through `via` (0 argument directive, 1 enum value, 2 input field, 3 mixed)
fn directive_graph_sdl(adj: &[Vec<usize>], via: usize) -> String {
    let mut s = String::from("type Query { a: Int }\n");
    for (i, outs) in adj.iter().enumerate() {
        let mut args = vec![];
        for (k, &j) in outs.iter().enumerate() {
            let how = if via == 3 { (i + j + k) % 3 } else { via };
            match how {
                0 => args.push(format!("a{k}: Int @d{j}")),
                1 => {
                    s.push_str(&format!("enum E{i}_{k} {{ V @d{j} W }}\n"));
                    args.push(format!("a{k}: E{i}_{k}"));
                }
                _ => {
                    s.push_str(&format!("input I{i}_{k} {{ f: Int @d{j} g: [I{i}_{k}] }}\n"));
                    args.push(format!("a{k}: I{i}_{k}"));
                }
            }
        }
        let args = if args.is_empty() { String::new() } else { format!("({})", args.join(", ")) };
        s.push_str(&format!("directive @d{i}{args} on {DIR_LOCS}\n"));
    }
    s
}

fn stress_case(family: &str, shape: &str, schema: String, operations: Vec<String>) -> Value {
    json!({"stream": "stress", "class": format!("{family}:{shape}"), "schema": schema, "operations": operations})
}

fn stress_cases(rng: &mut Rng, thorough: bool) -> Vec<Value> {
    let mut out = vec![];
    // 1. directive graphs: ALL digraphs on 1..3 nodes through argument directives; through enum values / input fields /
    //    mixed: all on ≤ 2 nodes + a sample on 3; 4 nodes: a sample (quick) / many (thorough); long chains into a cycle
    for n in 1..=3usize {
        for mask in 0..(1u32 << (n * n)) {
            let adj = edges_of(n, mask);
            out.push(stress_case("directive-args", shape_class(&adj), directive_graph_sdl(&adj, 0), vec![]));
            if n <= 2 || rng.chance(1, 6) {
                for via in 1..=3 {
                    let fam = ["", "directive-enum-values", "directive-input-fields", "directive-mixed"][via];
                    out.push(stress_case(fam, shape_class(&adj), directive_graph_sdl(&adj, via), vec![]));
                }
            }
        }
    }
    for _ in 0..(if thorough { 6000 } else { 350 }) {
        let mask = (rng.next_u64() & 0xffff) as u32 & (rng.next_u64() & 0xffff) as u32 | 1 << rng.below(16);
        let adj = edges_of(4, mask);
        let via = rng.below(4);
        let fam = ["directive-args", "directive-enum-values", "directive-input-fields", "directive-mixed"][via];
        out.push(stress_case(fam, shape_class(&adj), directive_graph_sdl(&adj, via), vec![]));
    }
    for len in [5usize, 9, 17] {
        for tail in [0usize, 1, 3] {
            // chain d0 → d1 → … → d(len-1) → d(len-1-tail): a cycle of length tail+1 reached from far outside
            let mut adj: Vec<Vec<usize>> = (0..len).map(|i| if i + 1 < len { vec![i + 1] } else { vec![] }).collect();
            adj[len - 1].push(len - 1 - tail);
            out.push(stress_case("directive-args", shape_class(&adj), directive_graph_sdl(&adj, 0), vec![]));
        }
        let adj: Vec<Vec<usize>> = (0..len).map(|i| if i + 1 < len { vec![i + 1] } else { vec![] }).collect();
        out.push(stress_case("directive-args", "long-chain", directive_graph_sdl(&adj, 3), vec![]));
    }
    // 2. fragment spread graphs: through an operation, and unspread
    let base = "type Query { a: Int t: Query }";
    for n in 1..=3usize {
        for mask in 0..(1u32 << (n * n)) {
            if n == 3 && !thorough && !rng.chance(1, 3) {
                continue;
            }
            let adj = edges_of(n, mask);
            let frags: String = adj.iter().enumerate().map(|(i, o)| format!("fragment F{i} on Query {{ a t {{ a }} {} }}\n", o.iter().map(|j| format!("...F{j}")).collect::<Vec<_>>().join(" "))).collect();
            out.push(stress_case("fragments-spread-by-operation", shape_class(&adj), base.into(), vec![format!("query Q {{ ...F0 t {{ ...F0 }} }}\n{frags}")]));
            out.push(stress_case("fragments-unspread", shape_class(&adj), base.into(), vec![format!("query Q {{ a }}\n{frags}"), frags.clone()]));
        }
    }
    // 3. implements graphs (interfaces implementing each other) and 4. input objects (nullable / non-null edges), 5. unions of unions
    for n in 1..=3usize {
        for mask in 0..(1u32 << (n * n)) {
            if n == 3 && !thorough && !rng.chance(1, 3) {
                continue;
            }
            let adj = edges_of(n, mask);
            let shape = shape_class(&adj);
            let ifaces: String = adj.iter().enumerate().map(|(i, o)| {
                let imp = if o.is_empty() { String::new() } else { format!(" implements {}", o.iter().map(|j| format!("I{j}")).collect::<Vec<_>>().join(" & ")) };
                format!("interface I{i}{imp} {{ f: Int }}\n")
            }).collect();
            out.push(stress_case("implements", shape, format!("type Query implements I0 {{ f: Int }}\n{ifaces}"), vec!["query Q { f ... on I0 { f } }".into()]));
            for nonnull in [false, true] {
                let inputs: String = adj.iter().enumerate().map(|(i, o)| {
                    let fs: Vec<String> = o.iter().map(|j| format!("r{j}: I{j}{}", if nonnull { "!" } else { "" })).collect();
                    format!("input I{i} {{ x: Int {} }}\n", fs.join(" "))
                }).collect();
                out.push(stress_case(if nonnull { "input-objects-non-null" } else { "input-objects-nullable" }, shape,
                    format!("type Query {{ f(i: I0): Int }}\n{inputs}"), vec!["query Q($v: I0) { f(i: $v) g: f(i: {x: 1}) }".into()]));
            }
            let unions: String = adj.iter().enumerate().map(|(i, o)| {
                let ms: Vec<String> = o.iter().map(|j| format!("U{j}")).chain(std::iter::once("A".to_string())).collect();
                format!("union U{i} = {}\n", ms.join(" | "))
            }).collect();
            out.push(stress_case("unions-of-unions", shape, format!("type Query {{ u: U0 }}\ntype A {{ x: Int }}\n{unions}"), vec!["query Q { u { ... on A { x } __typename } }".into()]));
        }
    }
    // 6. deep but ordinary nesting (≤ 50)
    for d in [10usize, 30, 50] {
        let sel = format!("{}a{}", "t { ".repeat(d), " }".repeat(d));
        out.push(stress_case("deep-nesting", "selection-sets", base.into(), vec![format!("query Q {{ {sel} }}")]));
        let frs: String = (0..d).map(|i| format!("fragment F{i} on Query {{ a {} }}\n", if i + 1 < d { format!("...F{}", i + 1) } else { String::new() })).collect();
        out.push(stress_case("deep-nesting", "fragment-chain", base.into(), vec![format!("query Q {{ ...F0 }}\n{frs}")]));
        let lit = format!("{}{{x: 1}}{}", "{r: ".repeat(d), "}".repeat(d));
        out.push(stress_case("deep-nesting", "input-literal", "type Query { f(i: I): Int }\ninput I { x: Int r: I }".into(), vec![format!("query Q {{ f(i: {lit}) }}")]));
        let lst = format!("{}1{}", "[".repeat(d.min(12)), "]".repeat(d.min(12)));
        out.push(stress_case("deep-nesting", "list-literal", format!("type Query {{ f(l: {}Int{}): Int }}", "[".repeat(d.min(12)), "]".repeat(d.min(12))), vec![format!("query Q {{ f(l: {lst}) }}")]));
        let inl = format!("{}a{}", "... on Query { ".repeat(d), " }".repeat(d));
        out.push(stress_case("deep-nesting", "inline-fragments", base.into(), vec![format!("query Q {{ {inl} }}")]));
    }
    out
}

struct Worker {
    child: Child,
    stdin: ChildStdin,
    stdout: BufReader<ChildStdout>,
}

impl Worker {
    fn spawn() -> Worker {
        let exe = std::env::current_exe().expect("current exe");
        let mut child = Command::new(exe).arg("--worker").arg("1").stdin(Stdio::piped()).stdout(Stdio::piped()).stderr(Stdio::null()).spawn().expect("spawn loader worker");
        let stdin = child.stdin.take().unwrap();
        let stdout = BufReader::new(child.stdout.take().unwrap());
        Worker { child, stdin, stdout }
    }
    /// Ok(log) or Err(panic message / "aborted")
    fn call(&mut self, case: &Value) -> Result<Value, String> {
        let line = serde_json::to_string(case).unwrap();
        if self.stdin.write_all(line.as_bytes()).is_err() || self.stdin.write_all(b"\n").is_err() || self.stdin.flush().is_err() {
            return Err("worker gone".into());
        }
        let mut panic_msg: Option<String> = None;
        loop {
            let mut l = String::new();
            match self.stdout.read_line(&mut l) {
                Ok(0) | Err(_) => {
                    let _ = self.child.wait();
                    return Err(panic_msg.unwrap_or_else(|| "worker process died without a panic message".into()));
                }
                Ok(_) => {
                    if let Some(r) = l.strip_prefix("r ") {
                        return match panic_msg {
                            Some(m) => Err(m),
                            None => Ok(serde_json::from_str(r.trim()).unwrap_or(Value::Null)),
                        };
                    }
                    if let (Some(p), true) = (l.strip_prefix("p "), panic_msg.is_none()) {
                        // the first message is the panic; "panic in a function that cannot unwind" follows it
                        panic_msg = Some(serde_json::from_str::<String>(p.trim()).unwrap_or_else(|_| p.to_string()));
                    }
                }
            }
        }
    }
}

fn loader_panic_class(msg: &str) -> String {
    // "panicked at crates/graphql-loader/src/main.rs:217:43:\ncalled `Result::unwrap()` …"
    let first = msg.lines().next().unwrap_or("");
    let file = first.strip_prefix("panicked at ").unwrap_or(first);
    let file = file.split(':').next().unwrap_or("");
    let file = file.strip_prefix("/repo/").unwrap_or(file);
    let rest = msg.lines().nth(1).unwrap_or("");
    let cls: String = if rest.contains("Utf8Error") || rest.contains("FromUtf8Error") { "invalid-utf8".into() } else { panic_class(rest) };
    format!("{file}:{cls}")
}

fn loader_stream(rep: &mut Report, cases: &[Value]) {
    let mut w = Worker::spawn();
    for c in cases {
        rep.evaluations += 1;
        rep.o_cases += 1;
        rep.nontrivial(&format!("loader|{c}"));
        let case = json!({"stream": "loader", "case": c});
        let t0 = std::time::Instant::now();
        match w.call(c) {
            Ok(log) => {
                let last = log.as_array().and_then(|a| a.last()).map(|x| x[0].as_str().unwrap_or("").to_string()).unwrap_or_default();
                let ok = log.as_array().and_then(|a| a.last()).map(|x| x[1].as_bool().unwrap_or(false)).unwrap_or(false);
                rep.count(&format!("loader:{last}:{}", if ok { "ok" } else { "error-value" }));
            }
            Err(m) => {
                rep.fail("O", &format!("panic:loader:{}", loader_panic_class(&m)), &format!("a loader ABI call aborts the process: {}", m.replace('\n', " ")), case.clone());
                w = Worker::spawn();
            }
        }
        if t0.elapsed().as_millis() > TIME_BOUND_MS {
            rep.fail("O", "slow:loader", "loader call sequence over the time bound", case);
        }
    }
    drop(w.stdin);
    let _ = w.child.wait();
}

// ------------------------------------------------------------------------------------------------

const CONFIG_TEXTS: [&str; 40] = [
    "", ":", "a: b: c", "- x", "[", "{", "schema: ./s.graphql", "schema: [a, b]\ndocuments: c", "schema: {a: 1}", "schema: 1", "schema: null", "documents: [1, 2]",
    "extensions: 3", "extensions:\n  nitrogql: 4", "extensions:\n  nitrogql:\n    plugins: x", "extensions:\n  nitrogql:\n    plugins: [a]\n    generate: 5",
    "extensions:\n  nitrogql:\n    generate:\n      mode: nope", "extensions:\n  nitrogql:\n    generate:\n      mode: with-loader-ts-5.0\n      schemaOutput: 1",
    "extensions:\n  nitrogql:\n    generate:\n      type:\n        scalarTypes:\n          Date: [1]", "extensions:\n  nitrogql:\n    generate:\n      type:\n        scalarTypes:\n          Date: {send: string}",
    "extensions:\n  nitrogql:\n    generate:\n      name:\n        capitalizeOperationNames: maybe", "extensions:\n  nitrogql:\n    generate:\n      export:\n        defaultExportForOperation: 7",
    "{\"schema\": \"s\"}", "{\"schema\": [\"s\", 1]}", "{\"schema\": \"s\",}", "{\"schema\": \"s\"", "\"just a string\"", "42", "null", "~", "&a [*a]", "*undefined", "a: &x [*x, *x]",
    "\t\tschema: s", "schema: \"\\u{110000}\"", "schema: \"\\uD800\"", "? [complex]\n: v", "%YAML 9.9\n---\na: 1", "--- a\n--- b", "schema: !!binary |\n  R0lG",
];

fn loader_cases(rng: &mut Rng, n: usize) -> Vec<Value> {
    let sources = [
        "query Q { a }", "{ a }", "query Q { ...Missing }", "query {", "", "#import F from \"./f.graphql\"\nquery Q { ...F }", "#import F, F from \"./f.graphql\"\nquery Q { ...F }",
        "#import * from \"./f.graphql\"\nquery Q { a }", "#import F from \"\"\nquery Q { ...F }", "#import F from \"./f.graphql\"", "fragment F on T { x ...F }", "query Q { a(s: \"\\uD800\") }",
        "query Q { a } # c", "query Q($v: [[Int!]!]! = [[1]] @d) @x { a { b ... on T { c } } }", "query Q { a } query Q { b }", "subscription { a b }", "mutation M { n: a { x } n: f }",
        "#import F from \"../../../../f.graphql\"\nquery Q { ...F }", "#import F from \"/abs/f.graphql\"\nquery Q { ...F }", "#import F from \"./op.graphql\"\nquery Q { ...F }\nfragment F on T { x }",
    ];
    let frag_sources = ["fragment F on T { x }", "fragment G on T { y }", "fragment F on T { x ...G }", "#import G from \"./g.graphql\"\nfragment F on T { ...G }", "query {", "", "query Z { z }", "fragment F on T { x } fragment F on T { y }"];
    let paths = ["/p/op.graphql", "op.graphql", "", "/", "/p/é 😀.graphql", "../op.graphql", "/p/./a/../op.graphql"];
    let configs = [None, Some("schema: s"), Some(":"), Some("extensions:\n  nitrogql:\n    generate:\n      export:\n        defaultExportForOperation: false\n        operationResultType: true\n        variablesType: true"), Some("")];
    let mut out = vec![];
    // bytes that are not UTF-8 (the JS side always passes TextEncoder output, i.e. valid UTF-8; the ABI itself
    // takes a pointer and a length)
    out.push(json!({"path": "/p/op.graphql", "source": [255, 254, 0], "fallback": "", "files": []}));
    out.push(json!({"path": [47, 112, 47, 255], "source": "query Q { a }", "fallback": "", "files": []}));
    out.push(json!({"path": "/p/op.graphql", "source": "query Q { a }", "config": [255], "fallback": "", "files": []}));
    for i in 0..n {
        let mut src = sources[rng.below(sources.len())].to_string();
        if i % 3 == 0 {
            src = mutate::mutate(rng, &src).0;
        } else if i % 7 == 0 {
            src = mutate::soup(rng);
        } else if i % 11 == 0 {
            src = mutate::unicode_noise(rng);
        }
        let mut c = json!({"path": paths[rng.below(paths.len())], "source": src, "fallback": frag_sources[rng.below(frag_sources.len())],
            "files": [["/p/f.graphql", frag_sources[rng.below(frag_sources.len())]], ["/p/g.graphql", frag_sources[rng.below(frag_sources.len())]]]});
        if let Some(cfg) = configs[rng.below(configs.len())] {
            c["config"] = json!(cfg);
        }
        out.push(c);
    }
    out
}

fn corpus_parse() -> Vec<(&'static str, String, String)> {
    let mut v = vec![];
    for t in ["{ a }", "{a} #x", "query { a(s: \"\\uD800\") }", "query { a(s: \"\\u{110000}\") }", "query { a(s: \"\\u{123456789}\") }", "query { a(s: \"\\uDFFF\\uD800\") }",
        "query { a(s: \"\\", "query { a(s: \"\\u", "query { a(s: \"\\u{", "query { a(s: \"\\u{}\") }", "query { a(s: \"\"\"", "query { a(s: \"\"\"\\\"\"\"", "query { a(s: \"\\u00\") }",
        "#import A, A from \"x\"\nquery { a }", "#import", "#import *", "#import * from", "#import * from \"", "# import", "#\u{0}", "\u{0}", "\\", "query { a(x: {a: {a: {a: [[[{}]]]}}}) }"] {
        v.push(("op", t.to_string(), "corpus".to_string()));
        v.push(("ts", t.to_string(), "corpus".to_string()));
    }
    for t in ["\"\\uD800\" type T { f: Int }", "type T { f(a: String = \"\\u{110000}\"): Int }", "type T { f: Int } #", "extend", "extend type", "directive @d on", "union U = |", "schema {", "enum E {", "input I { a: [", "type T implements"] {
        v.push(("ts", t.to_string(), "corpus".to_string()));
    }
    v
}

fn replay(ctx: &mut Ctx, args: &Args, c: &Value) {
    match c["stream"].as_str().unwrap_or("") {
        "parse" => {
            let kind = if c["kind"].as_str() == Some("ts") { "ts" } else { "op" };
            ctx.parse_stream(&[(kind, c["text"].as_str().unwrap_or("").to_string(), "replay".to_string())]);
        }
        "pipeline" => {
            let ops: Vec<String> = c["operations"].as_array().map(|a| a.iter().map(|x| x.as_str().unwrap_or("").to_string()).collect()).unwrap_or_default();
            ctx.pipeline(c["schema"].as_str().unwrap_or(""), &ops, "replay");
        }
        "config" => ctx.config_case(c["text"].as_str().unwrap_or("")),
        "render" => {
            let p = Pos { line: c["line"].as_u64().unwrap_or(0) as usize, column: c["column"].as_u64().unwrap_or(0) as usize, file: 0, builtin: false };
            let extra = c["extra"].as_array().map(|a| a.iter().map(|e| (Pos { line: e[0].as_u64().unwrap_or(0) as usize, column: e[1].as_u64().unwrap_or(0) as usize, file: 0, builtin: false }, "info".to_string())).collect()).unwrap_or_default();
            ctx.render_case(c["source"].as_str().unwrap_or(""), p, extra, c);
        }
        "loader" => loader_stream(ctx.rep, &[c["case"].clone()]),
        "stress" | "project" => stress_stream(ctx.rep, &[c.clone()]),
        "cli" => cli_stream(ctx.rep, args, &[c.clone()]),
        _ => {}
    }
}

fn main() {
    let args = Args::parse();
    if let Some(w) = args.extra.get("worker") {
        if w == "2" {
            stress_worker::main();
        } else {
            worker::main();
        }
        return;
    }
    install_hook();
    let mut rep = Report::new("C08", RULE);
    let mut drv = Driver::spawn(&args.driver);
    let mut ctx = Ctx { rep: &mut rep, drv: &mut drv, slowest: (0, String::new()) };

    if let Some(path) = &args.replay {
        let v: Value = serde_json::from_str(&std::fs::read_to_string(path).expect("replay file")).expect("replay json");
        replay(&mut ctx, &args, &v["case"]);
        rep.write(&args);
        return;
    }

    if args.extra.get("list-shadow").is_some() {
        // diagnostic mode: only the shadowed-builtin family; every failing case is listed with its class
        let sh = shadow::shadow_cases();
        for c in &sh {
            let mut one = Report::new("C08", RULE);
            stress_stream(&mut one, &[c.clone()]);
            for f in one.failures {
                println!("{}\t{}\t{}\t{}", f.signature, f.what.split(" on a project").next().unwrap_or(""), c["schema"].as_str().unwrap_or("").replace('\n', " / "), c["files"][0][1].as_str().unwrap_or("").replace('\n', " / "));
            }
        }
        return;
    }
    if args.extra.get("list-wrongkind").is_some() {
        // diagnostic mode: only the wrong-kind family; outcome per position:kind (the legal kinds must generate)
        let mut by: std::collections::BTreeMap<String, std::collections::BTreeMap<String, u64>> = Default::default();
        for c in &wrongkind::wrong_kind_cases() {
            let mut one = Report::new("C08", RULE);
            stress_stream(&mut one, &[c.clone()]);
            for (k, v) in one.dist.iter().filter(|(k, _)| k.starts_with("project-outcome:")) {
                *by.entry(c["class"].as_str().unwrap_or("").to_string()).or_default().entry(k.trim_start_matches("project-outcome:").to_string()).or_default() += *v;
            }
            for f in one.failures {
                println!("{}\t{}\t{}\t{}", f.signature, f.what, c["schema"].as_str().unwrap_or("").replace('\n', " / "), c["files"][0][1].as_str().unwrap_or("").replace('\n', " / "));
            }
        }
        for (k, v) in by {
            println!("{k}\t{v:?}");
        }
        return;
    }
    if args.extra.get("list-cli").is_some() {
        // diagnostic mode: the deterministic CLI rows with their verdicts
        let mut rng = Rng::new(args.seed);
        let mut cc = cliconf::core_rows(&mut rng);
        cc.extend(cliconf::plugin_fault_rows());
        let cli = args.extra.get("cli").cloned().unwrap_or_default();
        for c in &cc {
            let v = match cliconf::run_case(&cli, &args.scratch, c, &site_class_of) {
                cliconf::Verdict::Ok(t) => t,
                cliconf::Verdict::Fail(s, w) => format!("FAIL {s} {w}"),
            };
            println!("{}\t{}\t{}", c["class"].as_str().unwrap_or(""), c["args"], v);
        }
        return;
    }
    if args.extra.get("list-repeats").is_some() {
        // diagnostic mode: only the conditional-repeats family; outcome distribution (the documents are meant to be valid)
        let mut rng = Rng::new(args.seed);
        let mut rc = repeats::systematic(&mut rng, true);
        for _ in 0..1000 {
            rc.push(repeats::random(&mut rng));
        }
        let mut one = Report::new("C08", RULE);
        stress_stream(&mut one, &rc);
        for (k, v) in one.dist.iter().filter(|(k, _)| k.starts_with("project-")) {
            println!("{k}\t{v}");
        }
        for f in one.failures {
            println!("{}\t{}\t{}", f.signature, f.what, f.case["files"][0][1].as_str().unwrap_or("").replace('\n', " / "));
        }
        return;
    }
    let mut rng = Rng::new(args.seed);
    let search = args.extra.get("search").is_some();
    // ---- corpus first
    ctx.parse_stream(&corpus_parse());
    // escapes at the facing ends of neighbouring string literals: exhaustive pairs, minimal texts
    ctx.parse_stream(&strings::boundary_pairs());
    for t in CONFIG_TEXTS {
        ctx.config_case(t);
    }
    ctx.pipeline("type Query { a: A f: Int } type A { x: Int }", &["fragment F on A { nonexistent }".to_string(), "query Q { n: a { x } n: f }".to_string(), "{ a { x } }".to_string(), "query { ...Missing }".to_string()], "corpus");

    // minimal representatives of the conditional-repeats family (the full family runs in the project stream)
    for op in [
        "query Q($a: Boolean!, $b: Boolean!) { me { ...F @include(if: $a) ...F @skip(if: $b) } }\nfragment F on User { id }",
        "query Q($a: Boolean!, $b: Boolean!) { me { ...F @skip(if: $a) ...F @include(if: $b) } }\nfragment F on User { id }",
        "query Q($a: Boolean!, $b: Boolean!) { me { ...F @include(if: $a) ... on User { ...F @include(if: $b) } } }\nfragment F on User { id }",
        "query Q($a: Boolean!, $b: Boolean!) { me { ...F @skip(if: $a) ...G } }\nfragment F on User { id }\nfragment G on User { ...F @skip(if: $b) }",
        "query Q($a: Boolean!, $b: Boolean!) { me { name @skip(if: $a) name @include(if: $b) ... on User @skip(if: $a) { id } ... on User @skip(if: $b) { id } } }",
    ] {
        ctx.pipeline(project::SCHEMA, &[op.to_string()], "corpus");
    }
    // a type of the wrong kind in a position of the schema / of the operation × documents that reach the position
    // (exhaustive small product; every stage incl. the schema / resolver / operation type printers, under the watchdog)
    let wk = wrongkind::wrong_kind_cases();
    ctx.rep.extra.insert("wrong_kind_cases".into(), json!(wk.len()));
    let t_wk = std::time::Instant::now();
    stress_stream(ctx.rep, &wk);
    ctx.rep.extra.insert("wrong_kind_ms".into(), json!(t_wk.elapsed().as_millis() as u64));
    let n_schemas = if search { 600 } else { args.budget(260, 1500) };
    let mut parse_batch: Vec<(&'static str, String, String)> = vec![];
    for i in 0..n_schemas {
        let cfg = GenCfg { hostile_text: i % 3 == 0, max_depth: 2 + rng.below(2), ..GenCfg::default() };
        let schema = gen_schema(&mut rng, &cfg);
        let sdl = schema.sdl();
        let mut ops: Vec<String> = vec![];
        for _ in 0..2 {
            let (doc, _) = gen_doc(&mut rng, &schema, &cfg);
            ops.push(doc_text(&doc));
        }
        if i < 2 {
            ctx.rep.sample(json!({"schema": sdl.chars().take(300).collect::<String>(), "operation": ops[0].chars().take(300).collect::<String>()}));
        }
        // mutations of the valid texts: parser stream
        for _ in 0..6 {
            let (t, l) = mutate::mutate(&mut rng, &sdl);
            parse_batch.push(("ts", t, format!("mutation:{l}")));
        }
        let mut mutated_ops = vec![];
        for o in &ops {
            for _ in 0..6 {
                let (t, l) = mutate::mutate(&mut rng, o);
                parse_batch.push(("op", t.clone(), format!("mutation:{l}")));
                mutated_ops.push(t);
            }
        }
        // neighbouring string literals / the same construct in adjacent tokens
        parse_batch.push(strings::random_strings(&mut rng));
        if let Some(t) = strings::inject_strings(&mut rng, &sdl) {
            parse_batch.push(("ts", t, "string-inject".into()));
        }
        let o = &ops[rng.below(ops.len())];
        match strings::inject_strings(&mut rng, o) {
            Some(t) => parse_batch.push(("op", t, "string-inject".into())),
            None => parse_batch.push(strings::random_strings(&mut rng)),
        }
        let (k, src) = if rng.coin() { ("ts", &sdl) } else { ("op", o) };
        if let Some(t) = strings::adjacent_repeat(&mut rng, src, &mutate::lex) {
            parse_batch.push((k, t, "adjacent-repeat".into()));
        }
        for _ in 0..4 {
            parse_batch.push((if rng.coin() { "op" } else { "ts" }, mutate::soup(&mut rng), "token-soup".into()));
            parse_batch.push((if rng.coin() { "op" } else { "ts" }, mutate::unicode_noise(&mut rng), "unicode-noise".into()));
        }
        // later stages: valid schema × (valid + mutated operations); mutated schema × valid operations
        let mut all_ops = ops.clone();
        all_ops.extend(mutated_ops.into_iter().take(6));
        ctx.pipeline(&sdl, &all_ops, "valid-schema");
        let (msdl, _) = mutate::mutate(&mut rng, &sdl);
        ctx.pipeline(&msdl, &ops, "mutated-schema");
        if parse_batch.len() >= 1500 {
            ctx.parse_stream(&parse_batch);
            parse_batch.clear();
        }
    }
    ctx.parse_stream(&parse_batch);
    ctx.render_stream(&mut rng, args.budget(600, 6000));
    // configs: mutations of the fixed texts
    for _ in 0..args.budget(600, 6000) {
        let base = CONFIG_TEXTS[rng.below(CONFIG_TEXTS.len())];
        let t = match rng.below(3) {
            0 => mutate::mutate(&mut rng, base).0,
            1 => format!("{base}\n{}", CONFIG_TEXTS[rng.below(CONFIG_TEXTS.len())]),
            _ => mutate::unicode_noise(&mut rng),
        };
        ctx.config_case(&t);
    }
    let slow = ctx.slowest.clone();
    let lc = loader_cases(&mut rng, args.budget(500, 5000));
    loader_stream(&mut rep, &lc);
    // configuration texts × file sets through the real built CLI binary
    let t_cli = std::time::Instant::now();
    let mut cc = cliconf::core_rows(&mut rng);
    cc.extend(cliconf::plugin_fault_rows());
    cc.extend(cliconf::pairwise_rows(&mut rng));
    cc.extend(cliconf::random_rows(&mut rng, if search { 1500 } else { args.budget(60, 3000) }));
    rep.extra.insert("cli_config_cases".into(), json!(cc.len()));
    cli_stream(&mut rep, &args, &cc);
    rep.extra.insert("cli_stream_ms".into(), json!(t_cli.elapsed().as_millis() as u64));
    let t_project = std::time::Instant::now();
    // the project stream: several operation files connected by #import, through the CLI's and the loader's composition
    let mut pc = project::systematic_projects(&mut rng, args.thorough() || search);
    for _ in 0..(if search { 4000 } else { args.budget(450, 8000) }) {
        pc.push(project::random_project(&mut rng, &mut |rng, t| mutate::mutate(rng, t).0));
    }
    rep.extra.insert("project_cases".into(), json!(pc.len()));
    stress_stream(&mut rep, &pc);
    // the user's schema re-declares a built-in name (exhaustive list; same stages, same watchdog)
    let sh = shadow::shadow_cases();
    rep.extra.insert("shadowed_builtin_cases".into(), json!(sh.len()));
    stress_stream(&mut rep, &sh);
    // the same fragment / field / inline fragment repeated in one scope under different conditions (valid documents)
    let mut rc = repeats::systematic(&mut rng, args.thorough() || search);
    for _ in 0..args.budget(200, 3000) {
        rc.push(repeats::random(&mut rng));
    }
    rep.extra.insert("conditional_repeat_cases".into(), json!(rc.len()));
    stress_stream(&mut rep, &rc);
    rep.extra.insert("project_stream_ms".into(), json!(t_project.elapsed().as_millis() as u64));
    // the semantic stress stream runs LAST (a hang costs the watchdog bound)
    let sc = stress_cases(&mut rng, args.thorough() || search);
    rep.extra.insert("stress_cases".into(), json!(sc.len()));
    rep.extra.insert("hang_bound_ms".into(), json!({"cpu": HANG_CPU_MS, "wall": HANG_BOUND_MS}));
    stress_stream(&mut rep, &sc);
    rep.extra.insert("slowest_case_ms".into(), json!({"ms": slow.0 as u64, "what": slow.1}));
    rep.extra.insert("time_bound_ms".into(), json!(TIME_BOUND_MS as u64));
    rep.write(&args);
}
