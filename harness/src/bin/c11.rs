//! C11 — schema extensions merge into their definitions without loss or invention.
//!
//! A case is a list of ≤ 3 SDL file texts. Real pipeline (under `catch`): per file `set_current_file_of_pos(i)` +
//! `parse_type_system_document`, then `TypeSystemOrExtensionDocument::merge`, then `resolve_schema_extensions`.
//! The merged INPUT (converted with `gm::from_real_tsdoc_ext`, positions and file indices included) is the payload
//! of the two driver requests:
//!   K: `(ext.resolve <tsdoc>)` — Lean model of the code; the real answer must be EXACTLY equal (item order, every
//!      position, error variant / names / positions);
//!   O: `(ext.ref <tsdoc>)` — Lean reference merge; real Ok ⇔ spec ok and equal item multisets (positions included),
//!      real Err variant justified by the spec's fail atoms;
//!   O (Rust only): directive definitions and un-extended definitions pass through unchanged; the primary diagnostic
//!      position is `first` / `first_extension`; permutation independence (a second layout of the same items that
//!      keeps the relative order of same-key extensions gives the same outcome modulo positions).
//!
//! CLI leg (`c11/cli_leg.rs`): the same kind of case written to a scratch project and run through the real
//! `nitrogql-cli generate` (files concatenated, built-ins appended by the CLI); judged in O (`cli:*` signatures) by the
//! Lean reference merge of (files ++ built-ins): error iff duplicate-original / orphan-extension with the built-ins
//! counted as definitions, emitted schema (serverGraphqlOutput) = reference merge, diagnostic at an offending item,
//! same outcome for a permuted layout.
//!
//! How the error fields are obtained: `resolve_schema_extensions` returns `ExtensionError`, whose type (and the
//! `ExtensionErrorMessage` enum) lives in a private module and is not re-exported by nitrogql_semantics, so the
//! variants cannot be named in a `match`. The `message` field itself is reachable (`e.message`), and it derives Debug:
//! variant name and fields (`name_of_elem`, `name`, `first`, `second`, `first_extension`) are parsed from `{:?}`
//! (`Pos { line: 1, column: 2, file: 0, builtin: false }`). Independently `PositionedError::from(e).position()` gives
//! the primary diagnostic position, which is checked against `first` / `first_extension` (O signature `diag-pos`).
use nitrogql_ast::{set_current_file_of_pos, TypeSystemOrExtensionDocument};
use nitrogql_error::PositionedError;
use nitrogql_parser::parse_type_system_document;
use nitrogql_semantics::resolve_schema_extensions;
use nvh::gen::{gen_schema, split_into_extensions, GenCfg, SchemaModel};
use nvh::gm::{self, *};
use nvh::render::{render_tsdoc, Style};
use nvh::*;
use serde_json::{json, Value};
use std::collections::{BTreeMap, BTreeSet, HashSet};
use std::panic::AssertUnwindSafe;

const FILE_SEP: &str = "\n<<<FILE>>>\n";

#[path = "c11/cli_leg.rs"]
mod cli_leg;

// ---------------------------------------------------------------------------------------------
// real code

#[derive(Clone, Debug)]
enum Outcome {
    Ok(TsDoc),
    Dup { elem: String, name: String, first: P, second: P },
    NoOrig { elem: String, first: P },
    Panic(String),
    ParseErr(String),
    /// the Debug text of the error could not be understood (harness bug)
    Unknown(String),
}

impl Outcome {
    fn tag(&self) -> &'static str {
        match self {
            Outcome::Ok(_) => "ok",
            Outcome::Dup { .. } => "DuplicateOriginal",
            Outcome::NoOrig { .. } => "NoOriginal",
            Outcome::Panic(_) => "panic",
            Outcome::ParseErr(_) => "parse-error",
            Outcome::Unknown(_) => "unknown-error",
        }
    }
    fn is_err(&self) -> bool {
        matches!(self, Outcome::Dup { .. } | Outcome::NoOrig { .. })
    }
    fn answer(&self) -> Sexp {
        match self {
            Outcome::Ok(d) => Sexp::call("ok", vec![d.to_sexp()]),
            Outcome::Dup { elem, name, first, second } => Sexp::call(
                "err",
                vec![Sexp::atom("DuplicateOriginal"), Sexp::str(elem.as_str()), Sexp::str(name.as_str()), first.to_sexp(), second.to_sexp()],
            ),
            Outcome::NoOrig { elem, first } => Sexp::call("err", vec![Sexp::atom("NoOriginal"), Sexp::str(elem.as_str()), first.to_sexp()]),
            Outcome::Panic(_) => Sexp::call("panic", vec![]),
            Outcome::ParseErr(_) => Sexp::call("parse-error", vec![]),
            Outcome::Unknown(_) => Sexp::call("unknown-error", vec![]),
        }
    }
}

#[derive(Clone, Debug)]
struct RealRun {
    /// the merged input document (None if a file did not parse)
    input: Option<TsDoc>,
    outcome: Outcome,
    /// primary position of `PositionedError::from(e)` (errors only)
    diag_pos: Option<P>,
    /// Display text of the error message
    msg: String,
}

/// `key: "text"` inside a Debug rendering (identifiers and element names contain no quotes or escapes)
fn dbg_str(s: &str, key: &str) -> Option<String> {
    let pat = format!("{key}: \"");
    let at = s.find(&pat)? + pat.len();
    let rest = &s[at..];
    Some(rest[..rest.find('"')?].to_string())
}

/// `key: Pos { line: L, column: C, file: F, builtin: B }` inside a Debug rendering
fn dbg_pos(s: &str, key: &str) -> Option<P> {
    let pat = format!("{key}: Pos {{");
    let at = s.find(&pat)? + pat.len();
    let rest = &s[at..];
    let body = &rest[..rest.find('}')?];
    let num = |k: &str| -> Option<usize> {
        let p = format!("{k}: ");
        let a = body.find(&p)? + p.len();
        let t: String = body[a..].chars().take_while(|c| c.is_ascii_digit()).collect();
        t.parse().ok()
    };
    let builtin = body.contains("builtin: true");
    Some(P { line: num("line")?, col: num("column")?, file: num("file")?, builtin, known: true })
}

fn outcome_of_debug(dbg: &str) -> Outcome {
    let variant: String = dbg.chars().take_while(|c| c.is_alphanumeric() || *c == '_').collect();
    let parsed = match variant.as_str() {
        "DuplicateOriginal" => (|| {
            Some(Outcome::Dup {
                elem: dbg_str(dbg, "name_of_elem")?,
                name: dbg_str(dbg, " name")?,
                first: dbg_pos(dbg, "first")?,
                second: dbg_pos(dbg, "second")?,
            })
        })(),
        "NoOriginal" => (|| Some(Outcome::NoOrig { elem: dbg_str(dbg, "name_of_elem")?, first: dbg_pos(dbg, "first_extension")? }))(),
        _ => None,
    };
    parsed.unwrap_or_else(|| Outcome::Unknown(dbg.to_string()))
}

fn run_real(files: &[String]) -> RealRun {
    let mut input: Option<TsDoc> = None;
    let r = catch(AssertUnwindSafe(|| {
        let mut docs = vec![];
        for (i, t) in files.iter().enumerate() {
            set_current_file_of_pos(i);
            match parse_type_system_document(t) {
                Ok(d) => docs.push(d),
                Err(e) => return (Outcome::ParseErr(format!("file {i}: {e:?}")), None, String::new()),
            }
        }
        let merged = TypeSystemOrExtensionDocument::merge(docs);
        input = Some(gm::from_real_tsdoc_ext(&merged));
        match resolve_schema_extensions(merged) {
            Ok(doc) => (Outcome::Ok(gm::from_real_tsdoc(&doc)), None, String::new()),
            Err(e) => {
                // route 1: fields from the Debug text of the (unnameable) message enum
                let dbg = format!("{:?}", e.message);
                let msg = e.message.to_string();
                // route 2: primary diagnostic position as the CLI sees it
                let pe = PositionedError::from(e);
                let dp = pe.position().map(|p| P::from_real(&p));
                (outcome_of_debug(&dbg), dp, msg)
            }
        }
    }));
    set_current_file_of_pos(0);
    match r {
        Ok((outcome, diag_pos, msg)) => RealRun { input, outcome, diag_pos, msg },
        Err(p) => RealRun { input, outcome: Outcome::Panic(p), diag_pos: None, msg: String::new() },
    }
}

// ---------------------------------------------------------------------------------------------
// features of an input (computed from what the real parser produced, so corpus / replay cases are classified too)

fn item_key(it: &TsItem) -> Option<(String, String, bool, P)> {
    match it {
        TsItem::SchemaDef(s) => Some(("schema".into(), String::new(), false, s.pos)),
        TsItem::SchemaExt(s) => Some(("schema".into(), String::new(), true, s.pos)),
        TsItem::TypeDef(t) => Some((t.kind.as_str().into(), t.name.clone(), false, t.pos)),
        TsItem::TypeExt(t) => Some((t.kind.as_str().into(), t.name.clone(), true, t.pos)),
        TsItem::DirectiveDef(_) => None,
    }
}

#[derive(Default, Debug)]
struct KeyInfo {
    defs: Vec<(usize, P)>,
    exts: Vec<(usize, P)>,
}

#[derive(Default, Debug)]
struct Feats {
    tags: BTreeSet<String>,
    nontrivial: bool,
    dup_kind: Option<String>,
    orphan_kind: Option<String>,
}

fn key_table(input: &TsDoc) -> BTreeMap<(String, String), KeyInfo> {
    let mut keys: BTreeMap<(String, String), KeyInfo> = BTreeMap::new();
    for (i, it) in input.items.iter().enumerate() {
        if let Some((k, n, is_ext, p)) = item_key(it) {
            let e = keys.entry((k, n)).or_default();
            if is_ext {
                e.exts.push((i, p));
            } else {
                e.defs.push((i, p));
            }
        }
    }
    keys
}

fn features_of(input: &TsDoc) -> Feats {
    let mut f = Feats::default();
    let keys = key_table(input);
    let mut kinds_of_name: BTreeMap<&str, BTreeSet<&str>> = BTreeMap::new();
    let mut def_pos_by_kind: BTreeMap<&str, Vec<(usize, usize)>> = BTreeMap::new();
    for ((kind, name), info) in &keys {
        if !info.exts.is_empty() {
            f.tags.insert(format!("feature:kind:{kind}-ext"));
            f.nontrivial = true;
        }
        if info.exts.len() >= 2 {
            f.tags.insert("feature:multi-ext".into());
        }
        if info.defs.len() >= 2 {
            f.tags.insert("feature:dup-original".into());
            f.nontrivial = true;
            f.dup_kind.get_or_insert(kind.clone());
        }
        if info.defs.is_empty() && !info.exts.is_empty() {
            f.tags.insert("feature:orphan".into());
            f.orphan_kind.get_or_insert(kind.clone());
            if kind == "schema" {
                f.tags.insert("feature:orphan-extend-schema".into());
            }
        }
        if let Some((di, dp)) = info.defs.first() {
            if info.exts.iter().any(|(ei, _)| ei < di) {
                f.tags.insert("feature:ext-before-def".into());
            }
            if info.exts.iter().any(|(_, ep)| ep.file != dp.file) {
                f.tags.insert("feature:cross-file".into());
            }
            if kind != "schema" {
                kinds_of_name.entry(name.as_str()).or_default().insert(kind.as_str());
            }
            for (_, p) in &info.defs {
                def_pos_by_kind.entry(kind.as_str()).or_default().push((p.line, p.col));
            }
        }
    }
    // an extension of kind k for a name that is defined only under other kinds
    for ((kind, name), info) in &keys {
        if info.defs.is_empty() && !info.exts.is_empty() && kind != "schema" && kinds_of_name.contains_key(name.as_str()) {
            f.tags.insert("feature:orphan-by-kind".into());
        }
    }
    if kinds_of_name.values().any(|s| s.len() >= 2) {
        f.tags.insert("feature:same-name-two-kinds".into());
    }
    for ps in def_pos_by_kind.values_mut() {
        let n = ps.len();
        ps.sort();
        ps.dedup();
        if ps.len() < n {
            f.tags.insert("feature:pos-tie".into());
        }
    }
    let n_orphans = keys.values().filter(|i| i.defs.is_empty() && !i.exts.is_empty()).count();
    if n_orphans >= 2 {
        f.tags.insert("feature:multi-orphan".into());
    }
    if f.dup_kind.is_some() && f.orphan_kind.is_some() {
        f.tags.insert("feature:dup-and-orphan".into());
    }
    if input.items.iter().any(|i| match i {
        TsItem::TypeExt(t) => t.implements.is_empty() && t.dirs.is_empty() && t.fields.is_empty() && t.members.is_empty() && t.values.is_empty() && t.inputs.is_empty(),
        _ => false,
    }) {
        f.tags.insert("feature:empty-ext".into());
    }
    if input.items.iter().any(|i| matches!(i, TsItem::DirectiveDef(_))) {
        f.tags.insert("feature:directive-def".into());
    }
    f
}

// ---------------------------------------------------------------------------------------------
// cases

/// a materialised case: what is run, reported and replayed
#[derive(Clone, Debug)]
struct Mat {
    files: Vec<String>,
    alt: Option<Vec<String>>,
}

impl Mat {
    fn to_json(&self, with_alt: bool) -> Value {
        json!({"files": self.files, "alt_files": if with_alt { json!(self.alt) } else { Value::Null }})
    }
    fn from_json(v: &Value) -> Option<Mat> {
        let strs = |a: &Value| -> Option<Vec<String>> { a.as_array()?.iter().map(|x| x.as_str().map(|s| s.to_string())).collect() };
        Some(Mat { files: strs(&v["files"])?, alt: strs(&v["alt_files"]) })
    }
}

/// assignment of item indices to files (in order) and how each file is rendered
#[derive(Clone, Debug)]
struct Layout {
    files: Vec<Vec<usize>>,
    noisy: Vec<bool>,
    seeds: Vec<u64>,
}

/// an abstract case: items with unknown positions + a main layout + optionally a permuted layout
#[derive(Clone, Debug)]
struct Abs {
    items: Vec<TsItem>,
    main: Layout,
    alt: Option<Layout>,
}

fn render_layout(items: &[TsItem], lay: &Layout) -> Vec<String> {
    let mut out = vec![];
    for (f, idxs) in lay.files.iter().enumerate() {
        if idxs.is_empty() {
            continue; // the grammar needs at least one definition per document
        }
        let mut doc = TsDoc { items: idxs.iter().map(|i| items[*i].clone()).collect() };
        let style = if lay.noisy[f] { Style::noisy() } else { Style::canonical() };
        let (text, _) = render_tsdoc(&mut doc, style, Rng(lay.seeds[f]));
        out.push(text);
    }
    out
}

impl Abs {
    fn materialize(&self) -> Mat {
        Mat { files: render_layout(&self.items, &self.main), alt: self.alt.as_ref().map(|l| render_layout(&self.items, l)) }
    }
    fn without(&self, i: usize) -> Abs {
        let fix = |l: &Layout| Layout {
            files: l.files.iter().map(|f| f.iter().filter(|x| **x != i).map(|x| if *x > i { *x - 1 } else { *x }).collect()).collect(),
            noisy: l.noisy.clone(),
            seeds: l.seeds.clone(),
        };
        let mut items = self.items.clone();
        items.remove(i);
        Abs { items, main: fix(&self.main), alt: self.alt.as_ref().map(fix) }
    }
    fn canonical(&self) -> Abs {
        let fix = |l: &Layout| Layout { files: l.files.clone(), noisy: vec![false; l.noisy.len()], seeds: l.seeds.clone() };
        Abs { items: self.items.clone(), main: fix(&self.main), alt: self.alt.as_ref().map(fix) }
    }
}

fn split_files(rng: &mut Rng, order: Vec<usize>, nfiles: usize) -> Vec<Vec<usize>> {
    let mut files = vec![vec![]; nfiles];
    if nfiles == 1 || order.is_empty() {
        files[0] = order;
    } else if rng.coin() {
        // contiguous chunks
        let mut cuts: Vec<usize> = (0..nfiles - 1).map(|_| rng.below(order.len() + 1)).collect();
        cuts.sort();
        let mut f = 0;
        for (pos, it) in order.into_iter().enumerate() {
            while f < cuts.len() && pos >= cuts[f] {
                f += 1;
            }
            files[f].push(it);
        }
    } else {
        for it in order {
            let f = rng.below(nfiles);
            files[f].push(it);
        }
    }
    files.retain(|f| !f.is_empty());
    files
}

fn mk_layout(rng: &mut Rng, files: Vec<Vec<usize>>, noisy_prob: (u32, u32)) -> Layout {
    let n = files.len();
    Layout { files, noisy: (0..n).map(|_| rng.chance(noisy_prob.0, noisy_prob.1)).collect(), seeds: (0..n).map(|_| rng.next_u64()).collect() }
}

/// a second layout of the same items: random order and file assignment, but the extensions of one (kind, name)
/// keep the relative order they have in the main layout
fn mk_alt(rng: &mut Rng, items: &[TsItem], main: &Layout, noisy_prob: (u32, u32)) -> Layout {
    let flat: Vec<usize> = main.files.concat();
    let mut perm = flat.clone();
    rng.shuffle(&mut perm);
    let ext_key = |i: usize| item_key(&items[i]).and_then(|(k, n, e, _)| if e { Some((k, n)) } else { None });
    let mut by_key: BTreeMap<(String, String), Vec<usize>> = BTreeMap::new();
    for &i in &flat {
        if let Some(k) = ext_key(i) {
            by_key.entry(k).or_default().push(i);
        }
    }
    let nfiles = 1 + rng.below(3);
    let mut files = split_files(rng, perm, nfiles);
    // restore the order of same-key extensions over the MERGED order (file 0 ++ file 1 ++ …)
    let mut next: BTreeMap<(String, String), usize> = BTreeMap::new();
    for slot in files.iter_mut().flat_map(|f| f.iter_mut()) {
        if let Some(k) = ext_key(*slot) {
            let n = next.entry(k.clone()).or_insert(0);
            *slot = by_key[&k][*n];
            *n += 1;
        }
    }
    mk_layout(rng, files, noisy_prob)
}

// ---------------------------------------------------------------------------------------------
// comparisons

#[derive(Clone, Debug)]
struct Fail {
    stream: &'static str,
    sig: String,
    what: String,
    with_alt: bool,
}

fn trunc(s: &str, n: usize) -> String {
    if s.chars().count() <= n {
        s.to_string()
    } else {
        let t: String = s.chars().take(n).collect();
        format!("{t}…")
    }
}

fn sorted_lines(items: &[Sexp]) -> Vec<String> {
    let mut v: Vec<String> = items.iter().map(|i| i.to_line()).collect();
    v.sort();
    v
}

/// items of an `(ok (tsdoc item…))` answer
fn ok_items(ans: &Sexp) -> Option<&[Sexp]> {
    if ans.head() != Some("ok") {
        return None;
    }
    let d = ans.args().first()?;
    if d.head() != Some("tsdoc") {
        return None;
    }
    Some(d.args())
}

fn k_signature(real: &Sexp, model: &Sexp) -> String {
    let mh = model.head();
    let well_formed = match mh {
        Some("ok") => ok_items(model).is_some(),
        Some("err") => true,
        _ => false,
    };
    if !well_formed {
        return "driver-bad-request".into();
    }
    let rh = real.head();
    if rh == Some("panic") {
        return "panic-vs-model".into();
    }
    if rh != mh {
        return "ok-vs-err".into();
    }
    if rh == Some("err") {
        let (ra, ma) = (real.args(), model.args());
        if ra.first() != ma.first() {
            return "err-variant".into();
        }
        let strs = |a: &[Sexp]| a.iter().filter_map(|x| x.as_str().map(|s| s.to_string())).collect::<Vec<_>>();
        if strs(ra) != strs(ma) {
            return "err-name".into();
        }
        return "err-pos".into();
    }
    let (ri, mi) = (ok_items(real).unwrap_or(&[]), ok_items(model).unwrap_or(&[]));
    if sorted_lines(ri) == sorted_lines(mi) {
        "output-order".into()
    } else {
        "output-content".into()
    }
}

/// (kind, name) of an output item S-expression
fn sexp_key(it: &Sexp) -> (String, String) {
    let a = it.args();
    match it.head() {
        Some("typedef") | Some("typeext") => (
            a.first().and_then(|k| k.as_atom()).unwrap_or("?").to_string(),
            a.get(2).and_then(|n| n.as_str()).unwrap_or("?").to_string(),
        ),
        Some("schemadef") | Some("schemaext") => ("schema".into(), String::new()),
        Some("dirdef") => ("directive".into(), a.get(1).and_then(|n| n.as_str()).unwrap_or("?").to_string()),
        _ => ("?".into(), "?".into()),
    }
}

/// remove one occurrence of every element of `b` from `a`; what is left of `a`
fn multiset_minus(a: &[Sexp], b: &[Sexp]) -> Vec<Sexp> {
    let mut rest: Vec<Sexp> = b.to_vec();
    let mut out = vec![];
    for x in a {
        if let Some(p) = rest.iter().position(|y| y == x) {
            rest.remove(p);
        } else {
            out.push(x.clone());
        }
    }
    out
}

/// stable class of a difference between the real output items and the reference items (as multisets):
/// first differing definition (by sorted key), first differing component
fn classify_items(real: &[Sexp], spec: &[Sexp]) -> String {
    if real.iter().any(|i| matches!(i.head(), Some("typeext") | Some("schemaext"))) {
        return "extend-survives".into();
    }
    let mut rk: BTreeMap<(String, String), Vec<Sexp>> = BTreeMap::new();
    let mut sk: BTreeMap<(String, String), Vec<Sexp>> = BTreeMap::new();
    for i in real {
        rk.entry(sexp_key(i)).or_default().push(i.clone());
    }
    for i in spec {
        sk.entry(sexp_key(i)).or_default().push(i.clone());
    }
    let keys: BTreeSet<(String, String)> = rk.keys().chain(sk.keys()).cloned().collect();
    for key in keys {
        let mut r = rk.get(&key).cloned().unwrap_or_default();
        let mut s = sk.get(&key).cloned().unwrap_or_default();
        r.sort();
        s.sort();
        if r == s {
            continue;
        }
        let kind = key.0.clone();
        if r.len() < s.len() {
            return format!("def-lost:{kind}");
        }
        if r.len() > s.len() {
            return format!("def-invented:{kind}");
        }
        let (ri, si) = r.iter().zip(s.iter()).find(|(a, b)| a != b).unwrap();
        let (ra, sa) = (ri.args(), si.args());
        // component slots of the wire format (see gm::TypeDef::body / SchemaDef::body)
        let comps: &[(usize, &str)] = match ri.head() {
            Some("typedef") => &[(4, "implements"), (5, "dirs"), (6, "fields"), (7, "members"), (8, "values"), (9, "inputs")],
            Some("schemadef") => &[(1, "dirs"), (2, "roots")],
            _ => &[],
        };
        for (idx, cname) in comps {
            let (rc, sc) = (ra.get(*idx).and_then(|x| x.as_list()).unwrap_or(&[]), sa.get(*idx).and_then(|x| x.as_list()).unwrap_or(&[]));
            if rc == sc {
                continue;
            }
            if !multiset_minus(sc, rc).is_empty() {
                return format!("merge-lost:{kind}:{cname}");
            }
            if !multiset_minus(rc, sc).is_empty() {
                return format!("merge-invented:{kind}:{cname}");
            }
            return format!("merge-order:{kind}:{cname}");
        }
        return format!("header-changed:{kind}");
    }
    "output-differs".into()
}

/// judge one evaluated case; `model` / `spec` are the driver's answers (None = no driver or no request)
fn judge(mat: &Mat, main: &RealRun, alt: Option<&RealRun>, model: Option<&Sexp>, spec: Option<&Sexp>, mut stats: Option<&mut Report>) -> Vec<Fail> {
    let mut fails = vec![];
    let fail = |fails: &mut Vec<Fail>, stream: &'static str, sig: &str, what: String, with_alt: bool| {
        fails.push(Fail { stream, sig: sig.to_string(), what, with_alt })
    };
    let input = match (&main.outcome, &main.input) {
        (Outcome::ParseErr(m), _) => {
            fail(&mut fails, "K", "harness-parse-error", format!("generated text does not parse: {m}"), false);
            return fails;
        }
        (_, Some(i)) => i,
        (o, None) => {
            fail(&mut fails, "O", "panic", format!("panic before the resolver ran: {o:?}"), false);
            return fails;
        }
    };
    let feats = features_of(input);
    if let Some(rep) = stats.as_deref_mut() {
        for t in &feats.tags {
            rep.count(t);
        }
        rep.count(&format!("outcome:{}", main.outcome.tag()));
        rep.count(&format!("files:{}", mat.files.len()));
        if feats.nontrivial {
            rep.nontrivial(&mat.files.join(FILE_SEP));
        }
    }
    let real = main.outcome.answer();
    match &main.outcome {
        Outcome::Panic(m) => fail(&mut fails, "O", "panic", format!("resolve_schema_extensions panics: {}", trunc(m, 300)), false),
        Outcome::Unknown(d) => fail(&mut fails, "K", "harness-error-debug-format", format!("cannot read the error's Debug text: {}", trunc(d, 300)), false),
        _ => {}
    }

    // ---- K: exact equality with the model of the code
    if let Some(model) = model {
        if let Some(rep) = stats.as_deref_mut() {
            rep.k_cases += 1;
        }
        if *model != real {
            let sig = k_signature(&real, model);
            fail(&mut fails, "K", &sig, format!("code {} ≠ model {}", trunc(&real.to_line(), 700), trunc(&model.to_line(), 700)), false);
        }
    }

    // ---- O: against the reference merge
    if let Some(spec) = spec {
        if let Some(rep) = stats.as_deref_mut() {
            rep.o_cases += 1;
        }
        let spec_items = ok_items(spec);
        let spec_fail: Option<Vec<&str>> = if spec.head() == Some("fail") { Some(spec.args().iter().filter_map(|a| a.as_atom()).collect()) } else { None };
        if spec_items.is_none() && spec_fail.as_ref().map_or(true, |a| a.is_empty()) {
            fail(&mut fails, "K", "driver-bad-request", format!("ext.ref answered {}", trunc(&spec.to_line(), 300)), false);
        } else {
            match (&main.outcome, spec_items, &spec_fail) {
                (Outcome::Ok(out), Some(si), _) => {
                    let ri: Vec<Sexp> = out.items.iter().map(|i| i.to_sexp()).collect();
                    if sorted_lines(&ri) != sorted_lines(si) {
                        let sig = classify_items(&ri, si);
                        fail(&mut fails, "O", &sig, format!("merged output ≠ reference merge (as multisets): code {} reference {}", trunc(&real.to_line(), 700), trunc(&spec.to_line(), 700)), false);
                    }
                }
                (Outcome::Ok(_), None, Some(atoms)) => {
                    let sig = if atoms.contains(&"dup-original") {
                        format!("accepts-dup-original:{}", feats.dup_kind.clone().unwrap_or_else(|| "?".into()))
                    } else {
                        format!("accepts-orphan:{}", feats.orphan_kind.clone().unwrap_or_else(|| "?".into()))
                    };
                    fail(&mut fails, "O", &sig, format!("the reference rejects the input ({}) but the code accepts it", spec.to_line()), false);
                }
                (o, Some(_), _) if o.is_err() => {
                    fail(&mut fails, "O", &format!("rejects-valid:{}", o.tag()), format!("the reference merges the input but the code answers {} ({})", real.to_line(), main.msg), false);
                }
                (Outcome::Dup { .. }, None, Some(atoms)) if !atoms.contains(&"dup-original") => {
                    fail(&mut fails, "O", "err-unjustified:DuplicateOriginal", format!("code reports {} but the reference finds only {}", real.to_line(), spec.to_line()), false);
                }
                (Outcome::NoOrig { .. }, None, Some(atoms)) if !atoms.contains(&"orphan") => {
                    fail(&mut fails, "O", "err-unjustified:NoOriginal", format!("code reports {} but the reference finds only {}", real.to_line(), spec.to_line()), false);
                }
                _ => {}
            }
        }
    }

    // ---- O (Rust only): diagnostic position, pass-through, no extension survives
    if let Some(rep) = stats.as_deref_mut() {
        rep.o_cases += 1;
    }
    match &main.outcome {
        Outcome::Dup { first, .. } | Outcome::NoOrig { first, .. } => {
            if main.diag_pos != Some(*first) {
                fail(&mut fails, "O", "diag-pos", format!("primary diagnostic position {:?} ≠ position in the message {:?}", main.diag_pos, first), false);
            }
        }
        Outcome::Ok(out) => {
            if let Some(rep) = stats.as_deref_mut() {
                // by type no output item is an extension; counted as evidence
                rep.count_n("checked:output-items-not-extensions", out.items.len() as u64);
            }
            let in_dirs: Vec<String> = input.items.iter().filter(|i| matches!(i, TsItem::DirectiveDef(_))).map(|i| i.to_sexp().to_line()).collect();
            let out_dirs: Vec<String> = out.items.iter().filter(|i| matches!(i, TsItem::DirectiveDef(_))).map(|i| i.to_sexp().to_line()).collect();
            if in_dirs != out_dirs {
                fail(&mut fails, "O", "passthrough-changed:directive", format!("directive definitions changed: in {} out {}", trunc(&in_dirs.join(" "), 400), trunc(&out_dirs.join(" "), 400)), false);
            }
            let out_set: HashSet<String> = out.items.iter().map(|i| i.to_sexp().to_line()).collect();
            for ((kind, _), info) in key_table(input) {
                if info.exts.is_empty() && info.defs.len() == 1 {
                    let line = input.items[info.defs[0].0].to_sexp().to_line();
                    if !out_set.contains(&line) {
                        fail(&mut fails, "O", &format!("passthrough-changed:{kind}"), format!("un-extended definition is not in the output unchanged: {}", trunc(&line, 400)), false);
                        break;
                    }
                }
            }
            let n_keys = key_table(input).values().filter(|i| !i.defs.is_empty()).count() + in_dirs.len();
            if out.items.len() != n_keys {
                let sig = if out.items.len() < n_keys { "def-lost:count" } else { "def-invented:count" };
                fail(&mut fails, "O", sig, format!("{} definitions in, {} out", n_keys, out.items.len()), false);
            }
        }
        _ => {}
    }

    // ---- O (Rust only): permutation independence
    if let Some(alt) = alt {
        if let Some(rep) = stats.as_deref_mut() {
            rep.o_cases += 1;
            rep.count("checked:permuted-layout");
        }
        match (&main.outcome, &alt.outcome) {
            (_, Outcome::ParseErr(m)) => fail(&mut fails, "K", "harness-parse-error", format!("permuted layout does not parse: {m}"), true),
            (_, Outcome::Panic(m)) => fail(&mut fails, "O", "panic", format!("panic on the permuted layout: {}", trunc(m, 300)), true),
            (Outcome::Ok(a), Outcome::Ok(b)) => {
                let norm = |d: &TsDoc| {
                    let mut v: Vec<String> = d.items.iter().map(|i| gm::strip_pos(&i.to_sexp()).to_line()).collect();
                    v.sort();
                    v
                };
                let (na, nb) = (norm(a), norm(b));
                if na != nb {
                    let d = na.iter().zip(nb.iter()).find(|(x, y)| x != y).map(|(x, y)| format!("{} vs {}", trunc(x, 300), trunc(y, 300))).unwrap_or_else(|| format!("{} vs {} items", na.len(), nb.len()));
                    fail(&mut fails, "O", "perm-dependent", format!("two layouts of the same items merge differently (modulo positions): {d}"), true);
                }
            }
            (a, b) if a.is_err() && b.is_err() => {}
            (a, b) => fail(&mut fails, "O", "perm-dependent", format!("one layout gives {} and a permuted layout of the same items gives {}", a.tag(), b.tag()), true),
        }
    }
    fails
}

// ---------------------------------------------------------------------------------------------
// runner

struct Case {
    mat: Mat,
    abs: Option<Abs>,
    origin: &'static str,
}

struct Ctx {
    rep: Report,
    drv: Option<Driver>,
    shrink_runs: usize,
    samples_by_origin: BTreeMap<&'static str, usize>,
    /// CLI leg: path of the built nitrogql-cli (`--cli`), scratch directory, project counter
    cli: Option<String>,
    scratch: String,
    cli_seq: u64,
    cli_later_notes: usize,
    /// milliseconds spent (parsing the reference input, running the CLI)
    cli_ms: (u128, u128),
}

impl Ctx {
    fn ask(&mut self, runs: &[&RealRun]) -> Vec<(Option<Sexp>, Option<Sexp>)> {
        let Some(drv) = self.drv.as_mut() else { return runs.iter().map(|_| (None, None)).collect() };
        let mut reqs = vec![];
        for r in runs {
            if let Some(i) = &r.input {
                let d = i.to_sexp();
                reqs.push(Sexp::call("ext.resolve", vec![d.clone()]));
                reqs.push(Sexp::call("ext.ref", vec![d]));
            }
        }
        let ans = drv.batch(&reqs);
        let mut k = 0;
        runs.iter()
            .map(|r| {
                if r.input.is_some() {
                    k += 2;
                    (Some(ans[k - 2].clone()), Some(ans[k - 1].clone()))
                } else {
                    (None, None)
                }
            })
            .collect()
    }

    /// full evaluation of one materialised case, without touching the statistics (shrinking)
    fn eval_one(&mut self, mat: &Mat) -> Vec<Fail> {
        let main = run_real(&mat.files);
        let alt = mat.alt.as_ref().map(|a| run_real(a));
        let (model, spec) = self.ask(&[&main]).pop().unwrap();
        judge(mat, &main, alt.as_ref(), model.as_ref(), spec.as_ref(), None)
    }

    /// greedy shrink: drop whole items while the same (stream, signature) still fails
    fn shrink(&mut self, abs: &Abs, stream: &str, sig: &str, cli: bool) -> Abs {
        let mut cur = abs.clone();
        let mut budget = 200usize;
        let still = |ctx: &mut Ctx, a: &Abs| -> bool {
            if a.main.files.iter().all(|f| f.is_empty()) {
                return false;
            }
            ctx.shrink_runs += 1;
            let m = a.materialize();
            let fails = if cli { ctx.cli_eval_one(&m) } else { ctx.eval_one(&m) };
            fails.iter().any(|f| f.stream == stream && f.sig == sig)
        };
        loop {
            let mut changed = false;
            let mut i = 0;
            while i < cur.items.len() && budget > 0 {
                if cur.items.len() <= 1 {
                    break;
                }
                let cand = cur.without(i);
                budget -= 1;
                if still(self, &cand) {
                    cur = cand;
                    changed = true;
                } else {
                    i += 1;
                }
            }
            if !changed || budget == 0 {
                break;
            }
        }
        let canon = cur.canonical();
        if still(self, &canon) {
            cur = canon;
        }
        cur
    }

    fn process(&mut self, cases: Vec<Case>) {
        for chunk in cases.chunks(1500) {
            let runs: Vec<(RealRun, Option<RealRun>)> = chunk
                .iter()
                .map(|c| {
                    let main = run_real(&c.mat.files);
                    let alt = c.mat.alt.as_ref().map(|a| run_real(a));
                    (main, alt)
                })
                .collect();
            let answers = self.ask(&runs.iter().map(|r| &r.0).collect::<Vec<_>>());
            for ((case, (main, alt)), (model, spec)) in chunk.iter().zip(runs.iter()).zip(answers.iter()) {
                self.rep.evaluations += 1 + alt.is_some() as u64;
                self.rep.count(&format!("origin:{}", case.origin));
                let fails = judge(&case.mat, main, alt.as_ref(), model.as_ref(), spec.as_ref(), Some(&mut self.rep));
                let seen = self.samples_by_origin.entry(case.origin).or_insert(0);
                if *seen < 2 && main.input.as_ref().map_or(false, |i| features_of(i).nontrivial) {
                    *seen += 1;
                    self.rep.sample(json!({"origin": case.origin, "files": case.mat.files, "outcome": main.outcome.tag(),
                        "answer": trunc(&main.outcome.answer().to_line(), 400)}));
                }
                for f in fails {
                    let known = self.rep.failures.iter().any(|x| x.stream == f.stream && x.signature == f.sig);
                    let mut mat = case.mat.clone();
                    let mut what = f.what.clone();
                    if !known {
                        if let Some(abs) = &case.abs {
                            let small = self.shrink(abs, f.stream, &f.sig, false);
                            let m2 = small.materialize();
                            // keep the shrunk case only if it reproduces (it does by construction) and take its description
                            if let Some(f2) = self.eval_one(&m2).into_iter().find(|x| x.stream == f.stream && x.sig == f.sig) {
                                mat = m2;
                                what = f2.what;
                            }
                        }
                    }
                    self.rep.fail(f.stream, &f.sig, &what, mat.to_json(f.with_alt));
                }
            }
        }
    }
}

// ---------------------------------------------------------------------------------------------
// generators

const KINDS: [TypeKind; 6] = [TypeKind::Scalar, TypeKind::Object, TypeKind::Interface, TypeKind::Union, TypeKind::Enum, TypeKind::Input];

struct TG<'a> {
    rng: &'a mut Rng,
    ctr: usize,
}

impl<'a> TG<'a> {
    fn name(&mut self, base: &str, pool: &[&str]) -> String {
        if self.rng.coin() {
            self.rng.pick(pool).to_string()
        } else {
            self.ctr += 1;
            format!("{base}{}", self.ctr)
        }
    }
    fn ty(&mut self) -> Ty {
        let mut t = Ty::named(*self.rng.pick(&["Int", "String", "Boolean", "A", "B", "Foo"]));
        for _ in 0..self.rng.below(3) {
            t = match self.rng.below(3) {
                0 => Ty::list(t),
                1 if !t.is_non_null() => Ty::non_null(t),
                _ => t,
            };
        }
        t
    }
    fn val(&mut self, depth: usize) -> Val {
        let p = P::default();
        match self.rng.below(if depth == 0 { 7 } else { 9 }) {
            0 => Val::Int(self.rng.pick(&["0", "7", "-3"]).to_string(), p),
            1 => Val::Float("1.5".into(), p),
            2 => Val::Str(self.rng.pick(&["", "x", "a \"q\" \\ b", "é😀", "line\nbreak"]).to_string(), p),
            3 => Val::Bool(self.rng.coin(), p),
            4 => Val::Null(p),
            5 | 6 => Val::Enum(self.rng.pick(&["RED", "V1", "on"]).to_string(), p),
            7 => Val::List((0..self.rng.below(3)).map(|_| self.val(depth - 1)).collect(), p),
            _ => Val::Obj((0..self.rng.below(3)).map(|i| Arg::new(&format!("k{i}"), self.val(depth - 1))).collect(), p),
        }
    }
    fn dirs(&mut self, max: usize) -> Vec<Dir> {
        (0..1 + self.rng.below(max))
            .map(|_| {
                let n = self.name("d", &["d", "e", "deprecated", "tag"]);
                let args = (0..self.rng.below(3)).map(|i| Arg::new(["a", "b", "reason"][i], self.val(1))).collect();
                Dir::new(&n, args)
            })
            .collect()
    }
    fn opt_dirs(&mut self) -> Vec<Dir> {
        if self.rng.chance(1, 3) {
            self.dirs(2)
        } else {
            vec![]
        }
    }
    fn desc(&mut self) -> Option<String> {
        if self.rng.chance(1, 3) {
            Some(self.rng.pick(&["desc", "a \"quoted\" one", "two\nlines", "é😀", ""]).to_string())
        } else {
            None
        }
    }
    fn ivdef(&mut self, base: &str) -> InputValueDef {
        InputValueDef {
            desc: if self.rng.chance(1, 5) { self.desc() } else { None },
            name: self.name(base, &["a", "b", "id", "x"]),
            pos: P::default(),
            ty: self.ty(),
            default: if self.rng.chance(1, 3) { Some(self.val(1)) } else { None },
            dirs: self.opt_dirs(),
        }
    }
    fn field(&mut self) -> FieldDef {
        FieldDef {
            desc: if self.rng.chance(1, 5) { self.desc() } else { None },
            name: self.name("f", &["f", "g", "id", "x"]),
            pos: P::default(),
            args: if self.rng.chance(1, 3) { (0..1 + self.rng.below(2)).map(|_| self.ivdef("arg")).collect() } else { vec![] },
            ty: self.ty(),
            dirs: self.opt_dirs(),
        }
    }
    fn evalue(&mut self) -> EnumValueDef {
        EnumValueDef { desc: if self.rng.chance(1, 5) { self.desc() } else { None }, name: self.name("V", &["RED", "GREEN", "X"]), pos: P::default(), dirs: self.opt_dirs() }
    }
    fn names(&mut self, base: &str, pool: &[&str], max: usize) -> Vec<(String, P)> {
        (0..1 + self.rng.below(max)).map(|_| (self.name(base, pool), P::default())).collect()
    }
    /// a type definition or extension of `kind`; every component populated with probability 1/2, at least
    /// what the grammar needs (rarely an empty extension where the grammar allows one)
    fn type_item(&mut self, kind: TypeKind, name: &str, is_ext: bool) -> TypeDef {
        let mut t = TypeDef::new(kind, name);
        let comps: &[&str] = match kind {
            TypeKind::Scalar => &["dirs"],
            TypeKind::Object | TypeKind::Interface => &["implements", "dirs", "fields"],
            TypeKind::Union => &["dirs", "members"],
            TypeKind::Enum => &["dirs", "values"],
            TypeKind::Input => &["dirs", "inputs"],
        };
        let mut chosen: Vec<&str> = comps.iter().copied().filter(|_| self.rng.coin()).collect();
        if is_ext && chosen.is_empty() {
            let may_be_empty = matches!(kind, TypeKind::Scalar | TypeKind::Interface | TypeKind::Enum | TypeKind::Input);
            if !(may_be_empty && self.rng.chance(1, 6)) {
                chosen.push(*self.rng.pick(comps));
            }
        }
        if !is_ext {
            match kind {
                TypeKind::Object if !chosen.contains(&"fields") && !chosen.contains(&"dirs") => chosen.push("fields"),
                TypeKind::Union if !chosen.contains(&"members") => chosen.push("members"),
                _ => {}
            }
            t.desc = self.desc();
        }
        for c in chosen {
            match c {
                "implements" => t.implements = self.names("I", &["I", "J", "Node"], 2),
                "dirs" => t.dirs = self.dirs(2),
                "fields" => t.fields = (0..1 + self.rng.below(3)).map(|_| self.field()).collect(),
                "members" => t.members = self.names("M", &["A", "B", "M"], 3),
                "values" => t.values = (0..1 + self.rng.below(3)).map(|_| self.evalue()).collect(),
                "inputs" => t.inputs = (0..1 + self.rng.below(3)).map(|_| self.ivdef("i")).collect(),
                _ => {}
            }
        }
        t
    }
    fn schema_item(&mut self, is_ext: bool) -> SchemaDef {
        let mut s = SchemaDef::default();
        let (mut want_dirs, mut want_roots) = (self.rng.coin(), self.rng.coin());
        if !is_ext {
            want_roots = true;
            s.desc = self.desc();
        } else if !want_dirs && !want_roots {
            if self.rng.coin() {
                want_dirs = true
            } else {
                want_roots = true
            }
        }
        if want_dirs {
            s.dirs = self.dirs(2);
        }
        if want_roots {
            let ops = [OpKind::Query, OpKind::Mutation, OpKind::Subscription];
            s.roots = (0..1 + self.rng.below(3)).map(|_| (*self.rng.pick(&ops), self.name("R", &["Query", "Mutation", "A", "Q"]), P::default())).collect();
        }
        s
    }
    fn dirdef(&mut self) -> DirectiveDef {
        let locs = ["FIELD", "OBJECT", "SCALAR", "SCHEMA", "ENUM_VALUE", "INPUT_FIELD_DEFINITION", "UNION", "INTERFACE", "FIELD_DEFINITION", "QUERY"];
        DirectiveDef {
            desc: self.desc(),
            name: self.name("dd", &["d", "e", "tag"]),
            name_pos: P::default(),
            args: (0..self.rng.below(3)).map(|_| self.ivdef("a")).collect(),
            repeatable: self.rng.coin(),
            locations: (0..1 + self.rng.below(3)).map(|_| self.rng.pick(&locs).to_string()).collect(),
            pos: P::default(),
        }
    }
}

fn shuffled_layouts(rng: &mut Rng, items: &[TsItem], keep_order: bool, noisy_prob: (u32, u32)) -> (Layout, Layout) {
    let mut order: Vec<usize> = (0..items.len()).collect();
    if !keep_order {
        rng.shuffle(&mut order);
    }
    let nfiles = 1 + rng.below(3);
    let files = split_files(rng, order, nfiles);
    let main = mk_layout(rng, files, noisy_prob);
    let alt = mk_alt(rng, items, &main, noisy_prob);
    (main, alt)
}

/// generator 1: a valid generated schema split into extensions, shuffled and spread over files
fn gen_based(rng: &mut Rng) -> Abs {
    let cfg = GenCfg { descriptions: rng.coin(), directives: !rng.chance(1, 4), explicit_schema: rng.coin(), hostile_text: rng.chance(1, 5), ..GenCfg::default() };
    let schema = gen_schema(rng, &cfg);
    let mut doc = split_into_extensions(rng, &schema);
    // a second round gives several extensions per name (extension items pass through unchanged)
    if rng.coin() {
        let again = SchemaModel { doc, ..schema.clone() };
        doc = split_into_extensions(rng, &again);
    }
    let keep = rng.chance(1, 3);
    let (main, alt) = shuffled_layouts(rng, &doc.items, keep, (1, 2));
    Abs { items: doc.items, main, alt: Some(alt) }
}

/// generator 2: few names, every kind, several extensions per name, injected faults
fn targeted(rng: &mut Rng, rep: &mut Report) -> Abs {
    targeted_named(rng, rep, ["A", "B", "C", "Q"])
}

/// `targeted` over a given pool of four type names (the CLI leg passes names of built-in scalars among them)
fn targeted_named(rng: &mut Rng, rep: &mut Report, pool: [&str; 4]) -> Abs {
    let mut items: Vec<TsItem> = vec![];
    // (kind index 0..6 = type kinds, 6 = schema ; name)
    let mut def_keys: Vec<(usize, String)> = vec![];
    let mut g = TG { rng, ctr: 0 };
    let all_kinds = g.rng.chance(1, 8);
    let p_kind = 2 + g.rng.below(3) as u32; // per-kind inclusion probability p_kind/8
    for k in 0..7 {
        if !(all_kinds || g.rng.chance(p_kind, 8)) {
            continue;
        }
        if k == 6 {
            items.push(TsItem::SchemaDef(g.schema_item(false)));
            for _ in 0..g.rng.below(4) {
                items.push(TsItem::SchemaExt(g.schema_item(true)));
            }
            def_keys.push((6, String::new()));
        } else {
            let mut names: Vec<&str> = pool.to_vec();
            g.rng.shuffle(&mut names);
            let n_names = 1 + g.rng.below(3);
            for name in names.into_iter().take(n_names) {
                items.push(TsItem::TypeDef(g.type_item(KINDS[k], name, false)));
                for _ in 0..g.rng.below(4) {
                    items.push(TsItem::TypeExt(g.type_item(KINDS[k], name, true)));
                }
                def_keys.push((k, name.to_string()));
            }
        }
    }
    if def_keys.is_empty() {
        let name = *g.rng.pick(&pool);
        let k = g.rng.below(6);
        items.push(TsItem::TypeDef(g.type_item(KINDS[k], name, false)));
        items.push(TsItem::TypeExt(g.type_item(KINDS[k], name, true)));
        def_keys.push((k, name.to_string()));
    }
    for _ in 0..g.rng.below(3) {
        items.push(TsItem::DirectiveDef(g.dirdef()));
    }
    let has_def = |keys: &[(usize, String)], k: usize, n: &str| keys.iter().any(|(kk, nn)| *kk == k && nn == n);
    // ---- legal oddity: one name defined under two different kinds
    if g.rng.chance(1, 4) {
        let type_keys: Vec<(usize, String)> = def_keys.iter().filter(|(k, _)| *k < 6).cloned().collect();
        if !type_keys.is_empty() {
            let (k, n) = g.rng.pick(&type_keys).clone();
            let k2 = (k + 1 + g.rng.below(5)) % 6;
            if !has_def(&def_keys, k2, &n) {
                items.push(TsItem::TypeDef(g.type_item(KINDS[k2], &n, false)));
                for _ in 0..g.rng.below(3) {
                    items.push(TsItem::TypeExt(g.type_item(KINDS[k2], &n, true)));
                }
                def_keys.push((k2, n));
                rep.count("inject:same-name-two-kinds");
            }
        }
    }
    // ---- faults
    if g.rng.chance(1, 8) {
        let (k, n) = g.rng.pick(&def_keys).clone();
        if k == 6 {
            items.push(TsItem::SchemaDef(g.schema_item(false)));
            rep.count("inject:dup-schema-definition");
        } else {
            items.push(TsItem::TypeDef(g.type_item(KINDS[k], &n, false)));
            rep.count("inject:dup-original");
        }
    }
    let n_orphans = if g.rng.chance(1, 7) { 1 + g.rng.chance(1, 3) as usize } else { 0 };
    let mut orphan_kinds: Vec<usize> = vec![];
    for _ in 0..n_orphans {
        // pick a (kind, name) that has no definition; prefer a kind not used by another orphan
        for _try in 0..8 {
            let k = g.rng.below(7);
            if orphan_kinds.contains(&k) {
                continue;
            }
            if k == 6 {
                if has_def(&def_keys, 6, "") {
                    continue;
                }
                items.push(TsItem::SchemaExt(g.schema_item(true)));
                rep.count("inject:extend-schema-without-schema");
            } else {
                let by_kind = g.rng.coin();
                let defined_elsewhere: Vec<String> = def_keys.iter().filter(|(kk, n)| *kk < 6 && *kk != k && !has_def(&def_keys, k, n)).map(|(_, n)| n.clone()).collect();
                let name = if by_kind && !defined_elsewhere.is_empty() {
                    rep.count("inject:orphan-by-kind");
                    g.rng.pick(&defined_elsewhere).clone()
                } else {
                    rep.count("inject:orphan");
                    "Z".to_string()
                };
                for _ in 0..1 + g.rng.below(2) {
                    items.push(TsItem::TypeExt(g.type_item(KINDS[k], &name, true)));
                }
            }
            orphan_kinds.push(k);
            break;
        }
    }
    let rng = g.rng;
    let keep = rng.chance(1, 4);
    // canonical style mostly: items of different files then share (line, column)
    let (mut main, _) = shuffled_layouts(rng, &items, keep, (1, 5));
    // position ties on purpose: put definitions of one kind (present in ≥ 2 files) first in each file
    if main.files.len() >= 2 && rng.chance(2, 3) {
        let kind_of = |i: usize| item_key(&items[i]).and_then(|(k, _, e, _)| if e { None } else { Some(k) });
        let mut files_of_kind: BTreeMap<String, BTreeSet<usize>> = BTreeMap::new();
        for (fi, f) in main.files.iter().enumerate() {
            for i in f {
                if let Some(k) = kind_of(*i) {
                    files_of_kind.entry(k).or_default().insert(fi);
                }
            }
        }
        let kinds: Vec<String> = files_of_kind.into_iter().filter(|(_, fs)| fs.len() >= 2).map(|(k, _)| k).collect();
        if !kinds.is_empty() {
            let k = rng.pick(&kinds).clone();
            for f in main.files.iter_mut() {
                if let Some(p) = f.iter().position(|i| kind_of(*i).as_deref() == Some(k.as_str())) {
                    let it = f.remove(p);
                    f.insert(0, it);
                }
            }
            for n in main.noisy.iter_mut() {
                *n = false;
            }
        }
    }
    // the tie-making move may have reordered same-key extensions relative to `alt`; rebuild alt from the final main
    let alt = if rng.chance(5, 6) { Some(mk_alt(rng, &items, &main, (1, 5))) } else { None };
    Abs { items, main, alt }
}

// ---- generator 3: bounded-exhaustive interleavings (thorough tier)

fn ex_def(kind: usize, name: &str, variant: usize) -> TsItem {
    let n = format!("{}{}", name.to_lowercase(), variant);
    if kind == 6 {
        return TsItem::SchemaDef(SchemaDef { roots: vec![(OpKind::Query, format!("Q{variant}"), P::default())], ..SchemaDef::default() });
    }
    let mut t = TypeDef::new(KINDS[kind], name);
    let fld = |n: &str| FieldDef { desc: None, name: n.to_string(), pos: P::default(), args: vec![], ty: Ty::named("Int"), dirs: vec![] };
    match KINDS[kind] {
        TypeKind::Scalar => {
            if variant > 0 {
                t.dirs = vec![Dir::new(&format!("v{n}"), vec![])]
            }
        }
        TypeKind::Object | TypeKind::Interface => t.fields = vec![fld(&format!("f{n}"))],
        TypeKind::Union => t.members = vec![(format!("M{n}"), P::default())],
        TypeKind::Enum => t.values = vec![EnumValueDef { desc: None, name: format!("V{n}"), pos: P::default(), dirs: vec![] }],
        TypeKind::Input => t.inputs = vec![InputValueDef { desc: None, name: format!("i{n}"), pos: P::default(), ty: Ty::named("Int"), default: None, dirs: vec![] }],
    }
    TsItem::TypeDef(t)
}

fn ex_ext(kind: usize, name: &str, j: usize) -> TsItem {
    let n = format!("{}{}", name.to_lowercase(), j);
    let dir = vec![Dir::new(&format!("e{n}"), vec![])];
    if kind == 6 {
        return TsItem::SchemaExt(if j == 1 {
            SchemaDef { dirs: dir, ..SchemaDef::default() }
        } else {
            SchemaDef { roots: vec![(OpKind::Mutation, format!("M{j}"), P::default())], ..SchemaDef::default() }
        });
    }
    let mut t = TypeDef::new(KINDS[kind], name);
    if j == 1 || KINDS[kind] == TypeKind::Scalar {
        t.dirs = dir;
    } else {
        match KINDS[kind] {
            TypeKind::Object | TypeKind::Interface => t.fields = vec![FieldDef { desc: None, name: format!("x{n}"), pos: P::default(), args: vec![], ty: Ty::named("Int"), dirs: vec![] }],
            TypeKind::Union => t.members = vec![(format!("X{n}"), P::default())],
            TypeKind::Enum => t.values = vec![EnumValueDef { desc: None, name: format!("X{n}"), pos: P::default(), dirs: vec![] }],
            TypeKind::Input => t.inputs = vec![InputValueDef { desc: None, name: format!("x{n}"), pos: P::default(), ty: Ty::named("Int"), default: None, dirs: vec![] }],
            TypeKind::Scalar => {}
        }
    }
    TsItem::TypeExt(t)
}

fn permutations(n: usize) -> Vec<Vec<usize>> {
    fn go(cur: &mut Vec<usize>, used: &mut Vec<bool>, n: usize, out: &mut Vec<Vec<usize>>) {
        if cur.len() == n {
            out.push(cur.clone());
            return;
        }
        for i in 0..n {
            if !used[i] {
                used[i] = true;
                cur.push(i);
                go(cur, used, n, out);
                cur.pop();
                used[i] = false;
            }
        }
    }
    let mut out = vec![];
    go(&mut vec![], &mut vec![false; n], n, &mut out);
    out
}

/// all interleavings of (definition?, duplicate?, 0..=2 extensions) per name over ≤ 2 names of one kind
fn exhaustive_family(ctx: &mut Ctx, rng: &mut Rng) {
    let mut total = 0u64;
    let mut seen: HashSet<String> = HashSet::new();
    for kind in 0..7 {
        // configurations: per name (definitions 0..=2, extensions 0..=2)
        let mut configs: Vec<Vec<(&str, usize, usize)>> = vec![];
        for da in 0..=2 {
            for ea in 0..=2 {
                configs.push(vec![("A", da, ea)]);
                if kind == 6 {
                    continue; // the schema has a single key
                }
                for db in 0..=1 {
                    for eb in 0..=2 {
                        configs.push(vec![("A", da, ea), ("B", db, eb)]);
                    }
                }
            }
        }
        for cfg in configs {
            let mut items = vec![];
            for (name, d, e) in &cfg {
                for v in 0..*d {
                    items.push(ex_def(kind, name, v));
                }
                for j in 1..=*e {
                    items.push(ex_ext(kind, name, j));
                }
            }
            if items.is_empty() || items.len() > 6 {
                continue;
            }
            let mut batch = vec![];
            for perm in permutations(items.len()) {
                let mut layouts = vec![vec![perm.clone()]];
                if perm.len() >= 2 && rng.chance(1, 8) {
                    for c in 1..perm.len() {
                        layouts.push(vec![perm[..c].to_vec(), perm[c..].to_vec()]);
                    }
                }
                for files in layouts {
                    let n = files.len();
                    let abs = Abs { items: items.clone(), main: Layout { files, noisy: vec![false; n], seeds: vec![0; n] }, alt: None };
                    let mat = abs.materialize();
                    if !seen.insert(mat.files.join(FILE_SEP)) {
                        continue;
                    }
                    total += 1;
                    batch.push(Case { mat, abs: Some(abs), origin: "exhaustive" });
                }
            }
            ctx.process(batch);
        }
        seen.clear();
    }
    ctx.rep.count_n("exhaustive-cases", total);
    ctx.rep.exhaustive = true;
}

// ---------------------------------------------------------------------------------------------
// corpus

fn corpus() -> Vec<Mat> {
    let one = |t: &str| Mat { files: vec![t.to_string()], alt: None };
    let many = |ts: &[&str], alt: Option<&[&str]>| Mat { files: ts.iter().map(|s| s.to_string()).collect(), alt: alt.map(|a| a.iter().map(|s| s.to_string()).collect()) };
    vec![
        // the three unit tests of crates/semantics/src/schema_extension_resolver/tests/mod.rs
        one("
            schema { query: Query }

            extend schema { mutation: Mutation }

            type Query {
                foo: Int!
                bar(arg: String): Bar!
            }

            interface I {
                foo: Int!
            }

            extend type Query {
                baz: Baz!
            }

            extend interface I @heyhey

            union XYZ = | X | Y
            enum ABC {A B}

            extend union XYZ = Z
            extend enum ABC @wow { C }

            extend input Input1 {
                p: Boolean!
            }

            input Input1 {
                i: Boolean!
                n: Boolean!
            }

            extend input Input1 {
                u: Boolean!
                t: Boolean!
            }

            "),
        one("
            extend schema { mutation: Mutation }
            type A { foo: Int! }
            "),
        one("
            type A { foo: Int! }
            type A { bar: Int! }
            "),
        // extension before its definition
        many(&["extend type A { b: Int }\ntype A { a: Int }\n"], Some(&["type A { a: Int }\nextend type A { b: Int }\n"])),
        // cross-file
        many(&["type A { a: Int }\n", "extend type A implements I @d { b: Int }\n"], Some(&["extend type A implements I @d { b: Int }\n", "type A { a: Int }\n"])),
        // directives of a scalar extension are carried
        one("directive @d(a: Int) repeatable on SCALAR\nscalar S @c\nextend scalar S @d(a: 1)\nextend scalar S @d(a: 2)\n"),
        // extend interface … implements
        one("interface J { x: Int }\ninterface I { x: Int }\nextend interface I implements J\n"),
        // two schema definitions
        one("schema { query: Q }\nschema { query: R }\ntype Q { a: Int }\n"),
        // extend schema without a schema definition
        one("type Q { a: Int }\nextend schema @d\n"),
        // one name under two kinds (legal for the resolver)
        many(&["scalar A\nenum A { X }\nextend enum A { Y }\nextend scalar A @s\n"], Some(&["extend scalar A @s\nextend enum A { Y }\n", "enum A { X }\nscalar A\n"])),
        // equal (line, column) in two files: the stable sort decides
        many(&["scalar A\n", "scalar B\n"], Some(&["scalar B\n", "scalar A\n"])),
        many(&["extend scalar B @d\n", "scalar A\n", "scalar B\n"], Some(&["scalar A\nscalar B\nextend scalar B @d\n"])),
        many(&["type T { a: Int }\nenum E { X }\n", "enum F { Y }\ntype U { b: Int }\n", "extend enum F { Z }\n"], None),
        // a duplicate and an orphan in one document
        one("extend enum E { X }\ntype A { a: Int }\ntype A { b: Int }\n"),
        // two orphans of different kinds: which one is reported
        one("extend input I { a: Int }\nextend scalar S @d\n"),
        // two orphans of one kind
        one("extend enum F { a }\nextend enum E { b }\nenum G { c }\n"),
        // orphan by kind
        one("type A { a: Int }\nextend interface A { b: Int }\n"),
        // several extensions, every component, unions and inputs with defaults
        one("union U @a = A | B\nextend union U @b\nextend union U = C\ninput In @x { a: Int = 1 }\nextend input In { b: [Int!] = [1, 2] @y }\nextend input In @z\n"),
        // descriptions stay with the definition
        one("\"about T\"\ntype T @d\nextend type T { f(a: Int = 3 @q): String @r }\n\"the schema\"\nschema @s { query: T }\nextend schema { mutation: T }\n"),
    ]
}

/// CLI leg: general shapes around the definitions that only the CLI supplies (the built-ins)
fn cli_corpus() -> Vec<Mat> {
    let many = |ts: &[&str], alt: Option<&[&str]>| Mat { files: ts.iter().map(|s| s.to_string()).collect(), alt: alt.map(|a| a.iter().map(|s| s.to_string()).collect()) };
    let d = "scalar MarkArg\ndirective @mark(n: MarkArg) repeatable on SCHEMA | SCALAR | OBJECT | INTERFACE | UNION | ENUM | INPUT_OBJECT\n";
    vec![
        // every kind extended from another file, extensions first / last
        many(
            &[
                &format!("{d}extend schema @mark(n: 1) {{ mutation: M }}\nextend scalar Date @mark(n: 2)\nextend type Q @mark(n: 3) {{ b: Date }}\nextend interface I {{ y: Int }}\nextend union U = M\nextend enum E {{ B }}\nextend input In {{ b: E }}\n"),
                "schema { query: Q }\nscalar Date\ntype Q implements I { a: Int x: Int y: Int u: U }\ntype M { m(i: In): Int }\ninterface I { x: Int }\nunion U = Q\nenum E { A }\ninput In { a: Int }\n",
            ],
            Some(&[
                "schema { query: Q }\nscalar Date\ntype Q implements I { a: Int x: Int y: Int u: U }\ntype M { m(i: In): Int }\ninterface I { x: Int }\nunion U = Q\nenum E { A }\ninput In { a: Int }\n",
                &format!("{d}extend schema @mark(n: 1) {{ mutation: M }}\nextend scalar Date @mark(n: 2)\nextend type Q @mark(n: 3) {{ b: Date }}\nextend interface I {{ y: Int }}\nextend union U = M\nextend enum E {{ B }}\nextend input In {{ b: E }}\n"),
            ]),
        ),
        // extensions of the scalars whose definitions the CLI appends, before / after / apart from the user's items
        many(
            &[&format!("{d}extend scalar Int @mark(n: 1)\ntype Query {{ a: Int b: Boolean }}\nextend scalar Boolean @mark(n: 2) @mark(n: 3)\n"), "extend scalar Int @mark(n: 4)\nextend scalar ID @specifiedBy(url: \"https://example.com/s\")\n"],
            Some(&[&format!("extend scalar Int @mark(n: 1)\nextend scalar Boolean @mark(n: 2) @mark(n: 3)\nextend scalar Int @mark(n: 4)\nextend scalar ID @specifiedBy(url: \"https://example.com/s\")\n{d}type Query {{ a: Int b: Boolean }}\n")]),
        ),
        // a built-in scalar defined again by the user: defined twice within the kind
        many(&["type Query { a: Int }\n", "scalar Float\n"], Some(&["scalar Float\ntype Query { a: Int }\n"])),
        // an extension of another kind under a built-in scalar's name has no same-kind definition
        many(&["type Query { a: Int }\nextend enum Boolean { MAYBE }\n"], None),
        // orphan / duplicate among user items, across files
        many(&["type Query { a: Int }\n", "\nextend interface Query { b: Int }\n"], Some(&["\nextend interface Query { b: Int }\ntype Query { a: Int }\n"])),
        many(&["type Query { a: Int }\nscalar S\n", "\n\nscalar S\n"], None),
    ]
}

// ---------------------------------------------------------------------------------------------

fn main() {
    let args = Args::parse();
    quiet_panics();
    let rep = Report::new(
        "C11",
        "a case = ≤ 3 SDL files (definitions and `extend` items of all seven kinds, directive definitions), parsed, merged and resolved by the real code \
         (library call; in the CLI leg the built nitrogql-cli on a scratch project, where the built-in definitions are appended); \
         non-trivial = the merged input contains at least one extension (any kind) or a fault (duplicate original / orphan extension); distinct by the file texts",
    );
    // `--nodriver 1` runs the real-code side and the Rust-only O checks alone (development aid)
    let drv = if args.extra.get("nodriver").map(|s| s == "1").unwrap_or(false) { None } else { Some(Driver::spawn(&args.driver)) };
    let cli = args.extra.get("cli").cloned();
    let mut ctx = Ctx { rep, drv, shrink_runs: 0, samples_by_origin: BTreeMap::new(), cli, scratch: args.scratch.clone(), cli_seq: 0, cli_later_notes: 0, cli_ms: (0, 0) };
    if ctx.drv.is_none() {
        ctx.rep.notes.push("no driver: K and the reference comparison were skipped".into());
    }

    if let Some(path) = &args.replay {
        let v: Value = serde_json::from_str(&std::fs::read_to_string(path).expect("replay file")).expect("replay json");
        let mat = Mat::from_json(&v["case"]).expect("replay case: {\"files\": [...], \"alt_files\": [...] | null}");
        if v["case"]["cli"].as_bool() == Some(true) {
            ctx.process_cli(vec![Case { mat, abs: None, origin: "replay" }]);
        } else {
            ctx.process(vec![Case { mat, abs: None, origin: "replay" }]);
        }
        ctx.rep.write(&args);
        return;
    }

    let t0 = std::time::Instant::now();
    ctx.process(corpus().into_iter().map(|mat| Case { mat, abs: None, origin: "corpus" }).collect());

    let search = args.extra.get("search").map(|s| s == "1").unwrap_or(false);
    let mul = if search { 2 } else { 1 };
    let mut rng = Rng::new(args.seed);

    // ---- CLI leg (real binary on scratch projects; kept modest: two runs per case)
    let t_cli = std::time::Instant::now();
    ctx.process_cli(cli_corpus().into_iter().map(|mat| Case { mat, abs: None, origin: "cli-corpus" }).collect());
    let n_cli_valid = args.budget(90, 1200) * mul;
    let mut batch = vec![];
    for _ in 0..n_cli_valid {
        let abs = cli_leg::cli_valid(&mut rng, &mut ctx.rep);
        batch.push(Case { mat: abs.materialize(), abs: Some(abs), origin: "cli-valid" });
    }
    ctx.process_cli(batch);
    // arbitrary (mostly ill-typed) documents whose names collide with the built-in scalars': only the resolver's
    // verdict is observable (error iff duplicate-original or orphan-extension, the built-ins counted as definitions)
    let n_cli_targeted = args.budget(90, 1200) * mul;
    let mut batch = vec![];
    for _ in 0..n_cli_targeted {
        let mut pool = ["A", "Q", "ID", "Int"];
        pool[rng.below(2)] = *rng.pick(&["String", "Boolean", "Float", "B"]);
        let abs = targeted_named(&mut rng, &mut ctx.rep, pool);
        batch.push(Case { mat: abs.materialize(), abs: Some(abs), origin: "cli-targeted" });
    }
    ctx.process_cli(batch);
    ctx.rep.extra.insert("cli_ms_parse_run".into(), json!([ctx.cli_ms.0 as u64, ctx.cli_ms.1 as u64]));
    ctx.rep.extra.insert("cli_seconds".into(), json!((t_cli.elapsed().as_secs_f64() * 10.0).round() / 10.0));

    let n_gen = args.budget(300, 4000) * mul;
    let mut batch = vec![];
    for _ in 0..n_gen {
        let abs = gen_based(&mut rng);
        batch.push(Case { mat: abs.materialize(), abs: Some(abs), origin: "gen-based" });
    }
    ctx.process(batch);

    let n_targeted = args.budget(3000, 60000) * mul;
    let mut done = 0;
    while done < n_targeted {
        let n = (n_targeted - done).min(3000);
        let mut batch = vec![];
        for _ in 0..n {
            let abs = targeted(&mut rng, &mut ctx.rep);
            batch.push(Case { mat: abs.materialize(), abs: Some(abs), origin: "targeted" });
        }
        ctx.process(batch);
        done += n;
    }

    if args.thorough() {
        exhaustive_family(&mut ctx, &mut rng);
    }

    let secs = t0.elapsed().as_secs_f64();
    ctx.rep.extra.insert("seconds".into(), json!((secs * 10.0).round() / 10.0));
    ctx.rep.extra.insert("shrink_runs".into(), json!(ctx.shrink_runs));
    if let Some(d) = &ctx.drv {
        ctx.rep.extra.insert("driver_requests".into(), json!(d.requests));
    }
    ctx.rep.write(&args);
}
