//! C03 — `check` accepts no operation that violates an implemented validation rule (see opcheck/mod.rs).
#[path = "opcheck/mod.rs"]
mod opcheck;
fn main() {
    opcheck::run("C03");
}
