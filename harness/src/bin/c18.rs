//! C18 — CLI status, diagnostics and written files are consistent and well-located.
//!
//! Generated projects (valid, or with injected faults in schema / operation files / generate options) are run
//! through the REAL built `nitrogql-cli` binary (cwd = project directory, three output formats), the directory is
//! snapshotted before and after.
//!  K: the stage results of the same files are computed in-process with the REAL library stages (parser, extension /
//!     import resolvers, checkers, schema printer) and sent to the Lean model of the CLI driver (`Model/Cli.lean`);
//!     its predicted outcome (exit code, command error, diagnostics, files listed, files written) is compared with
//!     what the binary did.  `print_positioned_error` is compared text for text with its model on generated sources.
//!     `composed:*` (c18/composed.rs): the model COMPOSED with the stage models (`stagesOf`) is evaluated on the whole
//!     project — only the parsers are real (ASTs sent to the driver) — and compared with the binary's json run.
//!  O: the property itself on the binary's behaviour (independent of the model), judged against the INJECTED faults —
//!     including faults that exist only in the context of an importing document (`c18/ctx.rs`: clusters of operation
//!     files linked by `#import`, each valid on its own).
use nitrogql_ast::base::Pos;
use nitrogql_ast::{set_current_file_of_pos, OperationDocument, TypeSystemOrExtensionDocument};
use nitrogql_checker::{check_operation_document, check_type_system_document, CheckError, OperationCheckContext};
use nitrogql_error::{print_positioned_error, PositionedError};
use nitrogql_parser::{parse_operation_document, parse_type_system_document};
use nitrogql_semantics::{
    ast_to_type_system, resolve_operation_extensions, resolve_operation_imports, resolve_schema_extensions, OperationExtension, OperationResolver,
};
use nvh::*;
use serde_json::{json, Value};
use std::collections::{BTreeMap, BTreeSet, HashMap};
use std::panic::AssertUnwindSafe;
use std::path::{Path, PathBuf};

#[path = "c18/ctx.rs"]
mod ctx;
#[path = "c18/composed.rs"]
mod composed;

// ---------------------------------------------------------------------------------------------
// cases

#[derive(Clone, Debug)]
struct Fault {
    kind: String,
    /// relative path of the file the fault was injected into ("" for option / file-system faults)
    file: String,
    /// parse-schema | schema-ext | schema-check | parse-operation | op-ext | op-import | op-check | generate
    stage: String,
    /// context-dependent faults (`ctx-…`): the importing file(s) in whose context the construct of `file` is a fault;
    /// a diagnostic naming `file` or one of these names the fault
    alt: Vec<String>,
}

#[derive(Clone, Debug)]
struct Case {
    schema_files: Vec<(String, String)>,
    op_files: Vec<(String, String)>,
    yaml: String,
    cmds: Vec<String>,
    /// directories created before the run at output paths (file-system faults)
    blocked: Vec<String>,
    faults: Vec<Fault>,
    schema_output: Option<String>,
    module_specifier: bool,
    server_output: Option<String>,
    resolvers_output: Option<String>,
    emit_runtime: bool,
    mode: String,
}

impl Case {
    fn to_json(&self) -> Value {
        json!({
            "schemaFiles": self.schema_files, "opFiles": self.op_files, "yaml": self.yaml, "cmds": self.cmds, "blocked": self.blocked,
            "faults": self.faults.iter().map(|f| if f.alt.is_empty() { json!({"kind": f.kind, "file": f.file, "stage": f.stage}) } else { json!({"kind": f.kind, "file": f.file, "stage": f.stage, "alt": f.alt}) }).collect::<Vec<_>>(),
            "schemaOutput": self.schema_output, "moduleSpecifier": self.module_specifier, "serverOutput": self.server_output,
            "resolversOutput": self.resolvers_output, "emitRuntime": self.emit_runtime, "mode": self.mode,
        })
    }
    fn from_json(v: &Value) -> Case {
        let pairs = |x: &Value| -> Vec<(String, String)> {
            x.as_array().map(|a| a.iter().map(|p| (p[0].as_str().unwrap_or("").to_string(), p[1].as_str().unwrap_or("").to_string())).collect()).unwrap_or_default()
        };
        let strs = |x: &Value| -> Vec<String> { x.as_array().map(|a| a.iter().map(|s| s.as_str().unwrap_or("").to_string()).collect()).unwrap_or_default() };
        Case {
            schema_files: pairs(&v["schemaFiles"]),
            op_files: pairs(&v["opFiles"]),
            yaml: v["yaml"].as_str().unwrap_or("").to_string(),
            cmds: strs(&v["cmds"]),
            blocked: strs(&v["blocked"]),
            faults: v["faults"].as_array().map(|a| a.iter().map(|f| Fault { kind: f["kind"].as_str().unwrap_or("").into(), file: f["file"].as_str().unwrap_or("").into(), stage: f["stage"].as_str().unwrap_or("").into(), alt: strs(&f["alt"]) }).collect()).unwrap_or_default(),
            schema_output: v["schemaOutput"].as_str().map(|s| s.to_string()),
            module_specifier: v["moduleSpecifier"].as_bool().unwrap_or(false),
            server_output: v["serverOutput"].as_str().map(|s| s.to_string()),
            resolvers_output: v["resolversOutput"].as_str().map(|s| s.to_string()),
            emit_runtime: v["emitRuntime"].as_bool().unwrap_or(false),
            mode: v["mode"].as_str().unwrap_or("with-loader-ts-5.0").to_string(),
        }
    }
    fn has_generate(&self) -> bool {
        self.cmds.iter().any(|c| c == "generate")
    }
    fn standard_cmds(&self) -> bool {
        let c: Vec<&str> = self.cmds.iter().map(|s| s.as_str()).collect();
        c == ["check"] || c == ["generate"] || c == ["check", "generate"]
    }
}

fn leak(s: &str) -> &'static str {
    Box::leak(s.to_string().into_boxed_str())
}

// ---------------------------------------------------------------------------------------------
// a small GraphQL lexer: the (line, column) of every token start, columns in code points

fn token_starts(text: &str) -> (BTreeSet<(usize, usize)>, (usize, usize)) {
    let cs: Vec<char> = text.chars().collect();
    let mut out = BTreeSet::new();
    let (mut i, mut line, mut col) = (0usize, 0usize, 0usize);
    let adv = |i: &mut usize, line: &mut usize, col: &mut usize, cs: &Vec<char>| {
        if cs[*i] == '\n' {
            *line += 1;
            *col = 0;
        } else {
            *col += 1;
        }
        *i += 1;
    };
    while i < cs.len() {
        let c = cs[i];
        if c == ' ' || c == '\t' || c == '\n' || c == '\r' || c == ',' || c == '\u{feff}' {
            adv(&mut i, &mut line, &mut col, &cs);
            continue;
        }
        if c == '#' {
            // `#import …` is a statement of the nitrogql dialect, anything else a comment
            let mut j = i + 1;
            while j < cs.len() && cs[j] == ' ' {
                j += 1;
            }
            let is_import = cs[j..].starts_with(&['i', 'm', 'p', 'o', 'r', 't']) && cs.get(j + 6).map_or(true, |c| !(c.is_ascii_alphanumeric() || *c == '_'));
            if is_import {
                out.insert((line, col));
                adv(&mut i, &mut line, &mut col, &cs);
            } else {
                while i < cs.len() && cs[i] != '\n' {
                    adv(&mut i, &mut line, &mut col, &cs);
                }
            }
            continue;
        }
        out.insert((line, col));
        if c == '"' {
            if cs[i..].starts_with(&['"', '"', '"']) {
                for _ in 0..3 {
                    adv(&mut i, &mut line, &mut col, &cs);
                }
                while i < cs.len() {
                    if cs[i..].starts_with(&['\\', '"', '"', '"']) {
                        for _ in 0..4 {
                            adv(&mut i, &mut line, &mut col, &cs);
                        }
                    } else if cs[i..].starts_with(&['"', '"', '"']) {
                        for _ in 0..3 {
                            adv(&mut i, &mut line, &mut col, &cs);
                        }
                        break;
                    } else {
                        adv(&mut i, &mut line, &mut col, &cs);
                    }
                }
            } else {
                adv(&mut i, &mut line, &mut col, &cs);
                while i < cs.len() && cs[i] != '"' && cs[i] != '\n' {
                    if cs[i] == '\\' && i + 1 < cs.len() {
                        adv(&mut i, &mut line, &mut col, &cs);
                    }
                    adv(&mut i, &mut line, &mut col, &cs);
                }
                if i < cs.len() && cs[i] == '"' {
                    adv(&mut i, &mut line, &mut col, &cs);
                }
            }
        } else if c.is_ascii_alphabetic() || c == '_' {
            while i < cs.len() && (cs[i].is_ascii_alphanumeric() || cs[i] == '_') {
                adv(&mut i, &mut line, &mut col, &cs);
            }
        } else if c.is_ascii_digit() || c == '-' {
            adv(&mut i, &mut line, &mut col, &cs);
            while i < cs.len() && (cs[i].is_ascii_digit() || cs[i] == '.' || cs[i] == 'e' || cs[i] == 'E' || cs[i] == '+' || cs[i] == '-') {
                adv(&mut i, &mut line, &mut col, &cs);
            }
        } else if cs[i..].starts_with(&['.', '.', '.']) {
            for _ in 0..3 {
                adv(&mut i, &mut line, &mut col, &cs);
            }
        } else {
            adv(&mut i, &mut line, &mut col, &cs);
        }
    }
    (out, (line, col))
}

// ---------------------------------------------------------------------------------------------
// stage results, computed with the real library the way crates/cli composes it

#[derive(Clone, Debug)]
struct DiagR {
    pos: Pos,
    extra: Vec<Pos>,
    tag: usize,
}

#[derive(Clone, Debug, Default)]
struct OpStage {
    parse: Option<(usize, usize, usize)>,
    ext: Option<DiagR>,
    imp: Option<DiagR>,
    check: Vec<DiagR>,
}

#[derive(Clone, Debug, Default)]
struct Stages {
    schema_parse: Vec<Option<(usize, usize, usize)>>,
    sext: Option<DiagR>,
    scheck: Vec<DiagR>,
    ops: Vec<OpStage>,
    printer_fails: bool,
    /// a printer panicked on the valid project (out of scope here: C08) — the case is skipped
    printer_panics: bool,
    messages: Vec<String>,
    /// (variant name of `CheckErrorMessage`, message) of every checker diagnostic: the message-class table of composed.rs
    kinds: Vec<(String, String)>,
}

struct MapResolver(HashMap<PathBuf, (&'static OperationDocument<'static>, &'static OperationExtension<'static>)>);
impl OperationResolver<'static> for MapResolver {
    fn resolve(&self, path: &Path) -> Option<(&OperationDocument<'static>, &OperationExtension<'static>)> {
        self.0.get(path).map(|p| (p.0, p.1))
    }
}

fn tag_of(messages: &mut Vec<String>, m: String) -> usize {
    messages.push(m);
    messages.len() - 1
}

fn diag_of_positioned(messages: &mut Vec<String>, e: PositionedError) -> DiagR {
    let pos = e.position().unwrap_or_default();
    DiagR { pos, extra: vec![], tag: tag_of(messages, e.into_inner().to_string()) }
}

fn diag_of_check(messages: &mut Vec<String>, kinds: &mut Vec<(String, String)>, e: CheckError) -> DiagR {
    kinds.push((nvh::real::kind_of_message(&e.message), e.message.to_string()));
    for (_, m) in &e.additional_info {
        kinds.push((nvh::real::kind_of_message(m), m.to_string()));
    }
    DiagR { pos: e.position, extra: e.additional_info.iter().map(|(p, _)| *p).collect(), tag: tag_of(messages, e.message.to_string()) }
}

fn compute_stages(dir: &Path, case: &Case) -> Stages {
    let mut st = Stages::default();
    let mut messages = vec![];
    let mut kinds = vec![];
    // schema files
    let mut sdocs: Vec<TypeSystemOrExtensionDocument<'static>> = vec![];
    for (i, (_, text)) in case.schema_files.iter().enumerate() {
        set_current_file_of_pos(i);
        match parse_type_system_document(leak(text)) {
            Ok(d) => {
                sdocs.push(d);
                st.schema_parse.push(None);
            }
            Err(e) => {
                let pe: PositionedError = e.into();
                let p = pe.position().unwrap_or_default();
                let t = tag_of(&mut messages, pe.into_inner().to_string());
                st.schema_parse.push(Some((p.line, p.column, t)));
            }
        }
    }
    let schema_parsed = st.schema_parse.iter().all(|p| p.is_none());
    let mut resolved = None;
    if schema_parsed {
        let mut merged = TypeSystemOrExtensionDocument::merge(sdocs);
        merged.extend(graphql_builtins::generate_builtins());
        let nb = parse_type_system_document(nvh::real::NITROGQL_BUILTINS_SDL).expect("builtin sdl");
        merged.extend(nb.definitions);
        match resolve_schema_extensions(merged) {
            Err(e) => st.sext = Some(diag_of_positioned(&mut messages, e.into())),
            Ok(r) => {
                let r: &'static _ = Box::leak(Box::new(r));
                for e in check_type_system_document(r) {
                    st.scheck.push(diag_of_check(&mut messages, &mut kinds, e));
                }
                resolved = Some(r);
            }
        }
    }
    // operation files
    let ns = case.schema_files.len();
    let mut odocs = vec![];
    for (j, (_, text)) in case.op_files.iter().enumerate() {
        set_current_file_of_pos(ns + j);
        let mut os = OpStage::default();
        match parse_operation_document(leak(text)) {
            Ok(d) => odocs.push(Some(d)),
            Err(e) => {
                let pe: PositionedError = e.into();
                let p = pe.position().unwrap_or_default();
                let t = tag_of(&mut messages, pe.into_inner().to_string());
                os.parse = Some((p.line, p.column, t));
                odocs.push(None);
            }
        }
        st.ops.push(os);
    }
    let ops_parsed = st.ops.iter().all(|o| o.parse.is_none());
    if schema_parsed && ops_parsed {
        let mut pairs: Vec<Option<&'static (OperationDocument<'static>, OperationExtension<'static>)>> = vec![];
        for (j, d) in odocs.into_iter().enumerate() {
            match resolve_operation_extensions(d.unwrap()) {
                Ok(pair) => pairs.push(Some(Box::leak(Box::new(pair)))),
                Err(e) => {
                    st.ops[j].ext = Some(diag_of_positioned(&mut messages, e.into()));
                    pairs.push(None);
                }
            }
        }
        if pairs.iter().all(|p| p.is_some()) {
            let mut map = HashMap::new();
            for (j, (rel, _)) in case.op_files.iter().enumerate() {
                let p = pairs[j].unwrap();
                map.insert(dir.join(rel), (&p.0, &p.1));
            }
            let resolver = MapResolver(map);
            let mut docs: Vec<Option<OperationDocument<'static>>> = vec![];
            for (j, (rel, _)) in case.op_files.iter().enumerate() {
                let p = pairs[j].unwrap();
                let path = dir.join(rel);
                match resolve_operation_imports((path.as_path(), &p.0, &p.1), &resolver) {
                    Ok(d) => docs.push(Some(d)),
                    Err(e) => {
                        st.ops[j].imp = Some(diag_of_positioned(&mut messages, e.into()));
                        docs.push(None);
                    }
                }
            }
            if let (Some(resolved), true, true) = (resolved, st.scheck.is_empty(), docs.iter().all(|d| d.is_some())) {
                let schema = ast_to_type_system(resolved);
                let ctx = OperationCheckContext::new(&schema);
                let cfg = nvh::real::parse_config_text(&case.yaml).ok().flatten();
                for (j, d) in docs.iter().enumerate() {
                    let d = d.as_ref().unwrap();
                    for e in check_operation_document(d, &ctx) {
                        st.ops[j].check.push(diag_of_check(&mut messages, &mut kinds, e));
                    }
                    if st.ops[j].check.is_empty() {
                        if let Some(cfg) = &cfg {
                            if nvh::real::print_operation_types(&schema, d, cfg).is_err() {
                                st.printer_panics = true;
                            }
                        }
                    }
                }
                if let Some(cfg) = &cfg {
                    match nvh::real::print_schema_types(resolved, cfg) {
                        Ok(_) => {}
                        Err(m) if m.contains("SchemaTypePrinter error") => st.printer_fails = true,
                        Err(_) => st.printer_panics = true,
                    }
                    if nvh::real::print_resolver_types(resolved, cfg).is_err() {
                        st.printer_panics = true;
                    }
                }
            }
        }
    }
    st.messages = messages;
    st.kinds = kinds;
    st
}

// ---------------------------------------------------------------------------------------------
// the request for the model

fn s_pos(p: &Pos) -> Sexp {
    Sexp::call("p", vec![Sexp::int(p.line as i128), Sexp::int(p.column as i128), Sexp::int(p.file as i128), Sexp::atom(if p.builtin { "1" } else { "0" })])
}
fn s_diag(d: &DiagR) -> Sexp {
    Sexp::call("d", vec![s_pos(&d.pos), Sexp::list(d.extra.iter().map(s_pos).collect()), Sexp::int(d.tag as i128)])
}
fn s_optdiag(d: &Option<DiagR>) -> Sexp {
    d.as_ref().map_or(Sexp::atom("none"), s_diag)
}
fn s_parse(p: &Option<(usize, usize, usize)>) -> Sexp {
    match p {
        None => Sexp::atom("ok"),
        Some((l, c, t)) => Sexp::call("err", vec![Sexp::int(*l as i128), Sexp::int(*c as i128), Sexp::int(*t as i128)]),
    }
}
fn s_bit(b: bool) -> Sexp {
    Sexp::atom(if b { "1" } else { "0" })
}

fn io_of(case: &Case, out: &Option<String>) -> Sexp {
    match out {
        Some(o) if case.blocked.iter().any(|b| b == o) => Sexp::atom("main"),
        Some(o) if case.blocked.iter().any(|b| *b == format!("{o}.map")) => Sexp::atom("map"),
        _ => Sexp::atom("ok"),
    }
}

fn decl_path(op_rel: &str, ext: &str) -> String {
    let mut p = PathBuf::from(op_rel);
    p.set_extension(ext);
    p.to_string_lossy().to_string()
}

fn mode_ext(mode: &str) -> &'static str {
    match mode {
        "with-loader-ts-5.0" => "d.graphql.ts",
        "with-loader-ts-4.0" => "graphql.d.ts",
        _ => "graphql.ts",
    }
}

fn request(case: &Case, st: &Stages) -> Sexp {
    let cmds = case.cmds.iter().map(|c| match c.as_str() {
        "check" => Sexp::atom("check"),
        "generate" => Sexp::atom("generate"),
        _ => Sexp::call("other", vec![Sexp::int(0)]),
    });
    let ops = case.op_files.iter().zip(st.ops.iter()).map(|((rel, _), o)| {
        let d = Some(decl_path(rel, mode_ext(&case.mode)));
        Sexp::call("op", vec![s_parse(&o.parse), s_optdiag(&o.ext), s_optdiag(&o.imp), Sexp::call("chk", o.check.iter().map(s_diag).collect()), io_of(case, &d)])
    });
    let runtime_dts = case.emit_runtime && case.schema_output.as_ref().map_or(false, |s| s.ends_with(".d.ts"));
    Sexp::call(
        "run",
        vec![
            Sexp::call("cmds", cmds.collect()),
            Sexp::call("schema", st.schema_parse.iter().map(s_parse).collect()),
            Sexp::call("sext", vec![s_optdiag(&st.sext)]),
            Sexp::call("scheck", st.scheck.iter().map(s_diag).collect()),
            Sexp::call("ops", ops.collect()),
            Sexp::call(
                "gen",
                vec![
                    s_bit(case.schema_output.is_some()),
                    s_bit(case.module_specifier),
                    s_bit(runtime_dts),
                    s_bit(case.server_output.is_some()),
                    s_bit(case.resolvers_output.is_some()),
                    Sexp::atom(match case.mode.as_str() {
                        "with-loader-ts-5.0" => "ts50",
                        "with-loader-ts-4.0" => "ts40",
                        _ => "standalone",
                    }),
                ],
            ),
            Sexp::call("sprinter", vec![s_bit(st.printer_fails)]),
            Sexp::call("io", vec![io_of(case, &case.schema_output), io_of(case, &case.server_output), io_of(case, &case.resolvers_output)]),
        ],
    )
}

fn field<'a>(ans: &'a Sexp, name: &str) -> &'a [Sexp] {
    for a in ans.args() {
        if a.head() == Some(name) {
            return a.args();
        }
    }
    &[]
}

fn nat(s: &Sexp) -> usize {
    s.as_int().unwrap_or(-1) as usize
}

/// (relative path, kind string) of a model output file
fn out_path(case: &Case, of: &Sexp, ext: &str) -> (String, String) {
    let a = of.args();
    let is_map = a[1].as_atom() == Some("1");
    let (p, k) = match a[0].as_atom() {
        Some("schema") => (case.schema_output.clone().unwrap_or_default(), "schemaTypeDefinition"),
        Some("server") => (case.server_output.clone().unwrap_or_default(), "graphqlSource"),
        Some("resolvers") => (case.resolvers_output.clone().unwrap_or_default(), "resolversTypeDefinition"),
        _ => {
            let j = nat(&a[0].args()[0]);
            (decl_path(&case.op_files.get(j).map(|f| f.0.clone()).unwrap_or_default(), ext), "operationTypeDefinition")
        }
    };
    if is_map {
        (format!("{p}.map"), format!("{k}SourceMap"))
    } else {
        (p, k.to_string())
    }
}

fn classify_error(msg: &str) -> &'static str {
    if msg.starts_with("No command specified") {
        "no-command"
    } else if msg.starts_with("Unknown command") {
        "unknown-command"
    } else if msg.starts_with("Invalid command") {
        "invalid-command"
    } else if msg.starts_with("Command not successful") {
        "check-failed"
    } else if msg.starts_with("Option '") {
        "option-required"
    } else if msg.starts_with("Cannot emit code including runtime") {
        "runtime-to-dts"
    } else if msg.starts_with("Type for scalar") {
        "printer"
    } else if msg.starts_with("Failed to parse input files") {
        "parse-failed"
    } else if msg.contains("os error") {
        "io"
    } else {
        "other"
    }
}

/// `path:line:col` header lines (not indented) of a rendered message
fn headers(text: &str) -> Vec<(String, usize, usize)> {
    let mut out = vec![];
    for l in text.lines() {
        if !l.starts_with('/') {
            continue;
        }
        let parts: Vec<&str> = l.rsplitn(3, ':').collect();
        if parts.len() == 3 {
            if let (Ok(c), Ok(li)) = (parts[0].parse::<usize>(), parts[1].parse::<usize>()) {
                out.push((parts[2].to_string(), li, c));
            }
        }
    }
    out
}

fn fault_sig(case: &Case, rel: Option<&str>) -> String {
    let fs: Vec<&Fault> = case.faults.iter().filter(|f| rel.map_or(true, |r| f.file == r)).collect();
    if fs.is_empty() {
        "no-fault".into()
    } else if fs.len() == 1 {
        format!("{}:{}", fs[0].kind, fs[0].stage)
    } else {
        let mut ks: Vec<String> = fs.iter().map(|f| f.stage.clone()).collect();
        ks.sort();
        ks.dedup();
        format!("multi:{}", ks.join("+"))
    }
}

const STAGE_ORDER: [&str; 8] = ["parse-schema", "parse-operation", "schema-ext", "schema-check", "op-ext", "op-import", "op-check", "generate"];
fn stage_rank(s: &str) -> usize {
    STAGE_ORDER.iter().position(|x| *x == s).unwrap_or(99)
}

struct Ctx<'a> {
    rep: &'a mut Report,
    drv: &'a mut Driver,
    cli: String,
    scratch: String,
    counter: usize,
    /// message classes of the checker diagnostics seen so far (c18/composed.rs)
    classes: composed::Classes,
}

impl<'a> Ctx<'a> {
    fn run_case(&mut self, case: &Case) {
        self.counter += 1;
        let cj = case.to_json();
        let mut model_ans: Option<Sexp> = None;
        let mut json_diag_summary: Option<Vec<(Option<String>, usize, usize, String)>> = None;
        let mut exits = vec![];
        for fmt in ["json", "rdjson", "human"] {
            let dir0 = nvh::cli::fresh_dir(&self.scratch, &format!("p{}-{fmt}", self.counter));
            let dir = dir0.canonicalize().unwrap_or(dir0.clone());
            let mut pr = nvh::cli::Project::default();
            for (p, t) in case.schema_files.iter().chain(case.op_files.iter()) {
                pr.add(p, t);
            }
            pr.add("graphql.config.yaml", &case.yaml);
            pr.write(&dir);
            for b in &case.blocked {
                let _ = std::fs::create_dir_all(dir.join(b));
            }
            let stages = match catch(AssertUnwindSafe(|| compute_stages(&dir, case))) {
                Ok(s) => s,
                Err(p) => {
                    self.rep.count("skipped:library-stage-panicked");
                    self.rep.notes.push(format!("library stage panicked (out of scope here, see C08): {}", p.chars().take(120).collect::<String>()));
                    let _ = std::fs::remove_dir_all(&dir);
                    return;
                }
            };
            // a printer that panics in-process on an accepted document is C08's matter — but only when the project is
            // meant to reach the printers: with an injected fault before the generate stage the binary must stop at
            // check, so the run is still judged (against the injected fault)
            if stages.printer_panics && !case.faults.iter().any(|f| f.stage != "generate") {
                self.rep.count("skipped:printer-panicked(C08)");
                let _ = std::fs::remove_dir_all(&dir);
                return;
            }
            let ans = self.drv.one(&request(case, &stages));
            if ans.head() != Some("outcome") {
                self.rep.fail("K", "model-no-outcome", &format!("model answered {}", ans.to_line().chars().take(200).collect::<String>()), cj.clone());
                let _ = std::fs::remove_dir_all(&dir);
                return;
            }
            let before = nvh::cli::snapshot(&dir);
            let mut argv: Vec<&str> = vec!["--output-format", fmt];
            for c in &case.cmds {
                argv.push(c.as_str());
            }
            let run = nvh::cli::run_cli(&self.cli, &dir, &argv, &[], std::time::Duration::from_secs(30));
            let after = nvh::cli::snapshot(&dir);
            self.rep.evaluations += 1;
            self.check_run(case, &cj, fmt, &dir, &stages, &ans, &run, &before, &after, &mut json_diag_summary);
            self.classes.learn(&stages.kinds);
            if fmt == "json" {
                // the composed model on the same project: only the parsers are real
                let req = composed::build_request(&dir, case, stages.printer_fails);
                let cans = self.drv.one(&req.sexp);
                composed::compare(&mut *self.rep, case, &cj, &dir, &req, &cans, &run, &before, &after, &self.classes);
            }
            exits.push(run.code);
            model_ans = Some(ans);
            let _ = std::fs::remove_dir_all(&dir);
        }
        let _ = model_ans;
        self.rep.o_cases += 1;
        if exits.iter().any(|e| *e != exits[0]) {
            self.rep.fail("O", "formats-disagree-on-exit", &format!("exit codes json/rdjson/human = {exits:?}"), cj.clone());
        }
        if !case.faults.is_empty() || case.has_generate() {
            self.rep.nontrivial(&cj.to_string());
        }
        self.rep.count(&format!("cmds:{}", case.cmds.join("+")));
        self.rep.count(&format!("faults:{}", case.faults.len()));
        for f in &case.faults {
            self.rep.count(&format!("fault:{}:{}", f.kind, f.stage));
        }
        self.rep.count(&format!("files:schema={},operations={}", case.schema_files.len(), case.op_files.len()));
        self.rep.count(&format!("mode:{}", case.mode));
        if !case.faults.is_empty() && case.schema_files.iter().chain(case.op_files.iter()).any(|(_, t)| !t.is_ascii()) {
            self.rep.count("feature:non-ascii-text-before-a-faulty-token");
        }
        if case.faults.iter().any(|f| f.kind.starts_with("copy-paste")) {
            self.rep.count("feature:copy-pasted-fault-in-several-files");
        }
        self.rep.count(&format!(
            "outputs:schema={},server={},resolvers={}",
            case.schema_output.is_some(),
            case.server_output.is_some(),
            case.resolvers_output.is_some()
        ));
    }

    #[allow(clippy::too_many_arguments)]
    fn check_run(
        &mut self,
        case: &Case,
        cj: &Value,
        fmt: &str,
        dir: &Path,
        stages: &Stages,
        ans: &Sexp,
        run: &nvh::cli::CliRun,
        before: &BTreeMap<String, Vec<u8>>,
        after: &BTreeMap<String, Vec<u8>>,
        json_diags: &mut Option<Vec<(Option<String>, usize, usize, String)>>,
    ) {
        let rep = &mut *self.rep;
        let abs = |rel: &str| dir.join(rel).to_string_lossy().to_string();
        let all_inputs: Vec<(String, &'static str, String)> = case
            .schema_files
            .iter()
            .map(|(p, t)| (abs(p), "schema", t.clone()))
            .chain(case.op_files.iter().map(|(p, t)| (abs(p), "operation", t.clone())))
            .collect();
        let path_of_index = |i: usize| all_inputs.get(i).map(|x| x.0.clone()).unwrap_or_else(|| format!("<no file {i}>"));
        let ext = field(ans, "declExt").first().and_then(|s| s.as_str()).unwrap_or("").to_string();
        let model_exit = nat(&field(ans, "exit")[0]) as i32;
        let changed: BTreeSet<String> = after.iter().filter(|(k, v)| before.get(*k) != Some(*v)).map(|(k, _)| k.clone()).chain(before.keys().filter(|k| !after.contains_key(*k)).cloned()).collect();

        // ---------------- O: exit code is 0 or 1, never a crash -------------------------------------------
        rep.k_cases += 1;
        if run.timed_out || !(run.code == Some(0) || run.code == Some(1)) {
            rep.fail("O", &format!("exit-code:{:?}:{}", run.code, fault_sig(case, None)), &format!("[{fmt}] exit status {:?} (timed out: {}); stderr: {}", run.code, run.timed_out, run.stderr.chars().take(300).collect::<String>()), cj.clone());
            return;
        }
        if run.stderr.contains("panicked at") {
            rep.fail("O", &format!("panic-message:{fmt}"), &format!("[{fmt}] stderr shows a panic: {}", run.stderr.chars().take(300).collect::<String>()), cj.clone());
        }
        let code = run.code.unwrap();
        // ---------------- K: exit code -------------------------------------------------------------------
        if code != model_exit {
            rep.fail("K", "exit", &format!("[{fmt}] binary exits {code}, model predicts {model_exit}; cmds {:?}; stderr {}", case.cmds, run.stderr.chars().take(200).collect::<String>()), cj.clone());
        }
        // ---------------- O: exit = 0 iff no fault ----------------------------------------------------------
        if case.standard_cmds() {
            let relevant: Vec<&Fault> = case.faults.iter().filter(|f| f.stage != "generate" || case.has_generate()).collect();
            let expect = if relevant.is_empty() { 0 } else { 1 };
            if code != expect {
                let mut ks: Vec<String> = relevant.iter().map(|f| format!("{}:{}", f.kind, f.stage)).collect();
                ks.sort();
                ks.dedup();
                rep.fail("O", &format!("exit-iff:expected-{expect}:{}", if ks.is_empty() { "valid-project".into() } else { ks.join("+") }), &format!("[{fmt}] `{}` exits {code} but {} fault(s) were injected; stderr: {}", case.cmds.join(" "), relevant.len(), run.stderr.chars().take(300).collect::<String>()), cj.clone());
            }
        }
        // ---------------- K + O: written files -------------------------------------------------------------
        let model_written: BTreeSet<String> = field(ans, "written").iter().map(|f| out_path(case, f, &ext).0).collect();
        if changed != model_written {
            rep.fail("K", "written", &format!("[{fmt}] files created/changed by the binary {changed:?}, model predicts {model_written:?}"), cj.clone());
        }
        if !case.has_generate() && !changed.is_empty() {
            rep.fail("O", "check-writes-files", &format!("[{fmt}] `{}` changed {changed:?}", case.cmds.join(" ")), cj.clone());
        }
        // judged against the INJECTED faults: a project with a fault before the generate stage gets nothing written,
        // whatever the exit code says
        let early_fault = case.faults.iter().any(|f| f.stage != "generate");
        if early_fault && !changed.is_empty() {
            rep.fail("O", &format!("generate-not-gated:{}", fault_sig(case, None)), &format!("[{fmt}] exit {code}: the project has a fault that check must report, but {changed:?} were written"), cj.clone());
        }
        for (k, v) in before {
            if all_inputs.iter().any(|(p, _, _)| *p == abs(k)) && after.get(k) != Some(v) {
                rep.fail("O", "input-modified", &format!("[{fmt}] input file {k} was modified or removed"), cj.clone());
            }
        }

        // located diagnostics of this run: (path, 0-based line, 0-based column, fileType if known)
        let mut located: Vec<(String, usize, usize, Option<String>)> = vec![];
        let mut structured_named: BTreeSet<String> = BTreeSet::new();
        let mut text_named: BTreeSet<String> = BTreeSet::new();

        match fmt {
            "json" | "rdjson" => {
                // ---------------- O: stdout is ONE well-formed JSON document ------------------------------
                let v: Value = match serde_json::from_str(run.stdout.trim_end_matches('\n')) {
                    Ok(v) => v,
                    Err(e) => {
                        rep.fail("O", &format!("json-wellformed:{fmt}:{}", fault_sig(case, None)), &format!("[{fmt}] stdout is not one JSON document: {e}; stdout: {}", run.stdout.chars().take(300).collect::<String>()), cj.clone());
                        return;
                    }
                };
                if fmt == "json" {
                    // ---------------- K: error --------------------------------------------------------------
                    let m_err = &field(ans, "json")[0].args()[0];
                    match (v.get("error"), m_err.head()) {
                        (None, None) => {}
                        (Some(e), Some("e")) => {
                            let cmd = e["command"].as_str().map(|s| s.to_string());
                            let mcmd = match &m_err.args()[0] {
                                Sexp::Atom(a) if a == "none" => None,
                                Sexp::Atom(a) => Some(a.clone()),
                                _ => Some("bogus".to_string()),
                            };
                            let kind = classify_error(e["message"].as_str().unwrap_or(""));
                            let mkind = m_err.args()[1].as_atom().unwrap_or("");
                            if cmd != mcmd || kind != mkind {
                                rep.fail("K", "json-error", &format!("binary reports error (command {cmd:?}, class {kind}): {:?}; model predicts (command {mcmd:?}, class {mkind})", e["message"].as_str().unwrap_or("").chars().take(200).collect::<String>()), cj.clone());
                            }
                        }
                        (a, b) => rep.fail("K", "json-error", &format!("binary error member {a:?}, model {b:?}"), cj.clone()),
                    }
                    // ---------------- K: check.errors ---------------------------------------------------------
                    let m_check = &field(ans, "json")[1].args()[0];
                    let real_check: Option<Vec<(String, Option<(String, usize, usize)>, String)>> = v.get("check").map(|c| {
                        c["errors"]
                            .as_array()
                            .cloned()
                            .unwrap_or_default()
                            .iter()
                            .map(|d| {
                                let f = if d["file"].is_null() { None } else { Some((d["file"]["path"].as_str().unwrap_or("").to_string(), d["file"]["line"].as_u64().unwrap_or(u64::MAX) as usize, d["file"]["column"].as_u64().unwrap_or(u64::MAX) as usize)) };
                                (d["fileType"].as_str().unwrap_or("").to_string(), f, d["message"].as_str().unwrap_or("").to_string())
                            })
                            .collect()
                    });
                    let model_check: Option<Vec<(String, Option<(String, usize, usize)>, String)>> = if m_check.head() == Some("some") {
                        Some(
                            m_check
                                .args()
                                .iter()
                                .map(|jd| {
                                    let a = jd.args();
                                    let f = if a[1].head() == Some("f") { Some((path_of_index(nat(&a[1].args()[0])), nat(&a[1].args()[1]), nat(&a[1].args()[2]))) } else { None };
                                    (a[0].as_atom().unwrap_or("").to_string(), f, stages.messages.get(nat(&a[2])).cloned().unwrap_or_default())
                                })
                                .collect(),
                        )
                    } else {
                        None
                    };
                    if real_check != model_check {
                        rep.fail("K", "json-check", &format!("check member of the binary {real_check:?}, model predicts {model_check:?}"), cj.clone());
                    }
                    for (ft, f, m) in real_check.clone().unwrap_or_default() {
                        if let Some((p, l, c)) = f {
                            structured_named.insert(p.clone());
                            located.push((p, l, c, Some(ft)));
                        } else {
                            rep.count("diagnostic-without-file");
                            let _ = m;
                        }
                    }
                    *json_diags = Some(real_check.unwrap_or_default().into_iter().map(|(_, f, m)| match f {
                        Some((p, l, c)) => (Some(p), l, c, m),
                        None => (None, 0, 0, m),
                    }).collect());
                    // ---------------- K + O: generate.files -----------------------------------------------------
                    let m_gen = &field(ans, "json")[2].args()[0];
                    let real_gen: Option<Vec<(String, String)>> = v.get("generate").map(|g| g["files"].as_array().cloned().unwrap_or_default().iter().map(|f| (f["fileType"].as_str().unwrap_or("").to_string(), f["path"].as_str().unwrap_or("").to_string())).collect());
                    let model_gen: Option<Vec<(String, String)>> = if m_gen.head() == Some("some") {
                        Some(m_gen.args().iter().map(|of| { let (p, k) = out_path(case, of, &ext); (k, abs(&p)) }).collect())
                    } else {
                        None
                    };
                    if real_gen != model_gen {
                        rep.fail("K", "json-generate", &format!("generate member of the binary {real_gen:?}, model predicts {model_gen:?}"), cj.clone());
                    }
                    let listed: BTreeSet<String> = real_gen.clone().unwrap_or_default().iter().map(|(_, p)| p.clone()).collect();
                    let changed_abs: BTreeSet<String> = changed.iter().map(|c| abs(c)).collect();
                    if listed != changed_abs {
                        rep.fail("O", &format!("written-neq-listed:{}", fault_sig(case, None)), &format!("files listed {listed:?} but files created/changed {changed_abs:?}"), cj.clone());
                    }
                    for p in &listed {
                        if !Path::new(p).is_file() {
                            rep.fail("O", "listed-file-missing", &format!("listed file {p} does not exist"), cj.clone());
                        }
                    }
                    let rg = real_gen.unwrap_or_default();
                    for (k, p) in &rg {
                        if let Some(base_kind) = k.strip_suffix("SourceMap") {
                            let main = p.strip_suffix(".map").unwrap_or("");
                            if !rg.iter().any(|(k2, p2)| k2 == base_kind && p2 == main) {
                                rep.fail("O", "map-not-next-to-file", &format!("source map {p} ({k}) has no listed file {main} of kind {base_kind}"), cj.clone());
                            }
                        }
                    }
                    // the project is valid and generate ran: every configured output must be there
                    if code == 0 && case.has_generate() {
                        let mut want = vec![];
                        for o in [&case.schema_output, &case.resolvers_output].into_iter().flatten() {
                            want.push(abs(o));
                            want.push(abs(&format!("{o}.map")));
                        }
                        if let Some(o) = &case.server_output {
                            want.push(abs(o));
                        }
                        for (rel, _) in &case.op_files {
                            let d = decl_path(rel, mode_ext(&case.mode));
                            want.push(abs(&d));
                            want.push(abs(&format!("{d}.map")));
                        }
                        for w in want {
                            if !listed.contains(&w) {
                                rep.fail("O", "configured-output-missing", &format!("generate succeeded but {w} was not written/listed"), cj.clone());
                            }
                        }
                    }
                } else {
                    // ---------------- K: rdjson diagnostics ------------------------------------------------------
                    let real: Vec<(Option<(String, usize, usize)>, String)> = v["diagnostics"]
                        .as_array()
                        .cloned()
                        .unwrap_or_default()
                        .iter()
                        .map(|d| {
                            let loc = &d["location"];
                            let f = loc.get("path").map(|p| (p.as_str().unwrap_or("").to_string(), loc["range"]["start"]["line"].as_u64().unwrap_or(0) as usize, loc["range"]["start"]["column"].as_u64().unwrap_or(0) as usize));
                            (f, d["message"].as_str().unwrap_or("").to_string())
                        })
                        .collect();
                    let model: Vec<(Option<(String, usize, usize)>, String)> = field(ans, "rdjson")
                        .iter()
                        .map(|rd| {
                            let a = rd.args();
                            let f = if a[0].head() == Some("f") { Some((path_of_index(nat(&a[0].args()[0])), nat(&a[0].args()[1]), nat(&a[0].args()[2]))) } else { None };
                            (f, stages.messages.get(nat(&a[1])).cloned().unwrap_or_default())
                        })
                        .collect();
                    if real != model {
                        rep.fail("K", "rdjson", &format!("rdjson diagnostics of the binary {real:?}, model predicts {model:?}"), cj.clone());
                    }
                    if v["source"]["name"] != "nitrogql" || v["severity"] != "ERROR" {
                        rep.fail("O", "rdjson-shape", "rdjson document lacks source.name / severity", cj.clone());
                    }
                    for (f, _) in real {
                        if let Some((p, l, c)) = f {
                            structured_named.insert(p.clone());
                            if l == 0 || c == 0 {
                                rep.fail("O", "rdjson-zero-based", &format!("rdjson position {l}:{c} of {p} is not 1-based"), cj.clone());
                            } else {
                                located.push((p, l - 1, c - 1, None));
                            }
                        }
                    }
                    // same diagnostics as the json run (path, position, message)
                    if let Some(jd) = json_diags {
                        let mine: Vec<(Option<String>, usize, usize, String)> = v["diagnostics"].as_array().cloned().unwrap_or_default().iter().map(|d| {
                            let loc = &d["location"];
                            match loc.get("path") {
                                Some(p) => (Some(p.as_str().unwrap_or("").to_string()), (loc["range"]["start"]["line"].as_u64().unwrap_or(0) as usize).wrapping_sub(1), (loc["range"]["start"]["column"].as_u64().unwrap_or(0) as usize).wrapping_sub(1), d["message"].as_str().unwrap_or("").to_string()),
                                None => (None, 0, 0, d["message"].as_str().unwrap_or("").to_string()),
                            }
                        }).collect();
                        // the json run happened in another directory: compare modulo the directory prefix
                        let strip = |x: &Option<String>| x.as_ref().map(|p| p.rsplit('/').take(2).collect::<Vec<_>>().join("/"));
                        let a: Vec<_> = jd.iter().map(|(p, l, c, m)| (strip(p), *l, *c, m.clone())).collect();
                        let b: Vec<_> = mine.iter().map(|(p, l, c, m)| (strip(p), *l, *c, m.clone())).collect();
                        if a != b {
                            rep.fail("O", "formats-disagree-on-diagnostics", &format!("json lists {a:?}, rdjson lists {b:?}"), cj.clone());
                        }
                    }
                }
            }
            _ => {
                // ---------------- human: K on the group counts; O: renders every diagnostic, no crash ---------------
                let count = |what: &str| -> usize {
                    run.stderr.lines().find_map(|l| l.strip_prefix("Found ").and_then(|r| r.strip_suffix(&format!(" in {what}:"))).and_then(|r| r.split(' ').next()).and_then(|n| n.parse().ok())).unwrap_or(0)
                };
                let got = (count("schema"), count("operations"));
                let h = &field(ans, "human")[0];
                if h.head() == Some("some") {
                    let want = (nat(&h.args()[0]), nat(&h.args()[1]));
                    if got != want {
                        rep.fail("K", "human-counts", &format!("human format announces {got:?} (schema, operations) errors, model predicts {want:?}"), cj.clone());
                    }
                } else {
                    rep.fail("K", "human-panic-predicted", "model predicts that rendering panics (file index outside the store)", cj.clone());
                }
                if !run.stdout.trim().is_empty() {
                    rep.fail("O", "human-stdout", &format!("human format writes to stdout: {:?}", run.stdout.chars().take(100).collect::<String>()), cj.clone());
                }
                for (p, l, c) in headers(&run.stderr) {
                    text_named.insert(p.clone());
                    located.push((p, l - 1, c - 1, None));
                }
                if let Some(jd) = json_diags {
                    for (p, l, c, m) in jd.iter() {
                        if !run.stderr.contains(m.as_str()) {
                            rep.fail("O", "human-omits-diagnostic", &format!("human output lacks the message {m:?}"), cj.clone());
                        }
                        if let Some(p) = p {
                            let tail = p.rsplit('/').take(2).collect::<Vec<_>>().into_iter().rev().collect::<Vec<_>>().join("/");
                            let needle = format!("{tail}:{}:{}", l + 1, c + 1);
                            if !run.stderr.contains(&needle) {
                                rep.fail("O", "human-omits-location", &format!("human output lacks the location {needle}"), cj.clone());
                            }
                        }
                    }
                }
                if code == 1 && !run.stderr.contains("Error") && !run.stderr.contains("error") {
                    rep.fail("O", "human-silent-failure", "exit 1 but nothing on stderr says why", cj.clone());
                }
            }
        }

        // ---------------- O: every located diagnostic names an input of the right kind at a token start ----------
        for (p, l, c, ft) in &located {
            match all_inputs.iter().find(|(ip, _, _)| ip == p) {
                None => rep.fail("O", &format!("located:not-an-input:{fmt}"), &format!("[{fmt}] diagnostic names {p}, which is not an input file"), cj.clone()),
                Some((ip, kind, text)) => {
                    let rel = ip.strip_prefix(&format!("{}/", dir.to_string_lossy())).unwrap_or(ip).to_string();
                    if let Some(ft) = ft {
                        if ft != kind {
                            rep.fail("O", &format!("located:wrong-kind:{}", fault_sig(case, Some(&rel))), &format!("[{fmt}] {p} is a {kind} file but the diagnostic says fileType {ft}"), cj.clone());
                        }
                    }
                    let (starts, eof) = token_starts(text);
                    if !(starts.contains(&(*l, *c)) || (*l, *c) == eof) {
                        rep.fail("O", &format!("located:not-token-start:{}", fault_sig(case, Some(&rel))), &format!("[{fmt}] {rel}:{}:{} (1-based) is not the start of a token (nor the end of input)", l + 1, c + 1), cj.clone());
                    }
                }
            }
        }

        // ---------------- O: offending files are named -----------------------------------------------------------
        if case.cmds.first().map_or(false, |c| c == "check" || c == "generate") {
            let parse_faults: Vec<&Fault> = case.faults.iter().filter(|f| f.stage.starts_with("parse-")).collect();
            if !parse_faults.is_empty() {
                // schema files are parsed first; their errors end the run before the operation files are read
                let first = if parse_faults.iter().any(|f| f.stage == "parse-schema") { "parse-schema" } else { "parse-operation" };
                for f in parse_faults.iter().filter(|f| f.stage == first) {
                    let p = abs(&f.file);
                    let named = if fmt == "human" { text_named.contains(&p) } else { structured_named.contains(&p) };
                    if !named {
                        rep.fail("O", &format!("parse-unlocated:{fmt}:{}", f.kind), &format!("[{fmt}] exit {code}, but the syntax error of {} is not reported with file, line and column", f.file), cj.clone());
                    }
                }
            } else {
                let schema_faults: Vec<&Fault> = case.faults.iter().filter(|f| f.stage.starts_with("schema-")).collect();
                let op_faults: Vec<&Fault> = case.faults.iter().filter(|f| f.stage.starts_with("op-")).collect();
                // a schema that is not accepted ends the check before operations are looked at (by design)
                let group = if !schema_faults.is_empty() { schema_faults } else { op_faults };
                let first = group.iter().map(|f| stage_rank(&f.stage)).min();
                for f in &group {
                    let first_stage = STAGE_ORDER[first.unwrap()];
                    // a context-dependent fault (`ctx-…`) is named by a diagnostic located in the file holding the
                    // construct or in an importing file in whose context it is a fault
                    let is_ctx = f.kind.starts_with("ctx-");
                    if fmt == "human" && !(is_ctx && f.stage == first_stage) {
                        continue;
                    }
                    let names = if fmt == "human" { &text_named } else { &structured_named };
                    let named = names.contains(&abs(&f.file)) || f.alt.iter().any(|a| names.contains(&abs(a)));
                    if !named {
                        // other faults of the same stage whose diagnostic is (or may be: `alt`) located in another file
                        // (for import faults: only those in a file that `f.file` imports, directly or transitively — files that
                        // do not import one another are resolved independently and each one's fault must be named)
                        let others_same_stage = group.iter().filter(|g| g.stage == f.stage && !std::ptr::eq::<Fault>(**g, *f)
                            && ((g.file != f.file && (f.stage != "op-import" || imports_transitively(&case.op_files, &f.file, &g.file))) || !g.alt.is_empty())).count();
                        let sig = if f.stage != first_stage {
                            format!("unnamed:{}:masked-by:{}", f.stage, first_stage)
                        } else if (f.stage == "schema-ext" || f.stage == "op-import") && others_same_stage > 0 {
                            // resolvers that return a single error: of the schema (first extension fault only), of one
                            // operation file (the first import fault met, possibly inside a file it imports)
                            format!("unnamed:{}:masked-by:{}", f.stage, f.stage)
                        } else {
                            format!("unnamed:{}:{}:not-masked", f.stage, f.kind)
                        };
                        rep.fail("O", &sig, &format!("[{fmt}] {} has an injected fault ({}, stage {}) but no diagnostic names it (first failing stage: {first_stage})", f.file, f.kind, f.stage), cj.clone());
                    }
                }
            }
        }
    }
}

/// does operation file `from` reach `to` through `#import … from "<relative path>"` lines?
fn imports_transitively(op_files: &[(String, String)], from: &str, to: &str) -> bool {
    fn norm(p: &str) -> String {
        let mut out: Vec<&str> = vec![];
        for c in p.split('/') {
            match c {
                "" | "." => {}
                ".." => {
                    out.pop();
                }
                c => out.push(c),
            }
        }
        out.join("/")
    }
    let targets = |file: &str| -> Vec<String> {
        let dir = file.rsplit_once('/').map_or("", |(d, _)| d);
        let text = op_files.iter().find(|(p, _)| norm(p) == norm(file)).map_or("", |(_, t)| t.as_str());
        text.lines()
            .filter_map(|l| l.find("#import").map(|i| &l[i..]))
            .filter_map(|l| {
                let q = l.find(|c| c == '"' || c == '\'')?;
                let quote = l[q..].chars().next()?;
                let rest = &l[q + 1..];
                let e = rest.find(quote)?;
                Some(norm(&format!("{dir}/{}", &rest[..e])))
            })
            .collect()
    };
    let mut seen: Vec<String> = vec![norm(from)];
    let mut todo = vec![norm(from)];
    while let Some(f) = todo.pop() {
        for t in targets(&f) {
            if t == norm(to) {
                return true;
            }
            if !seen.contains(&t) {
                seen.push(t.clone());
                todo.push(t);
            }
        }
    }
    false
}

// ---------------------------------------------------------------------------------------------
// generation

/// non-ASCII text (CJK, astral, accented) that is put on the SAME line before the offending token: columns are
/// code points (as pest reports them), so the reported position must still be the token's start
fn schema_pad(n: usize) -> String {
    format!("\"日本語 😀 Größe\" enum Pad{n} {{ A }} ")
}
fn op_pad(n: usize) -> String {
    format!("query Pad{n}($s: String = \"日本語 😀 Größe\") {{ __typename }} ")
}
/// put `pad` in front of the fault text and join the fault's lines into one, so that the offending token follows it
fn pad_fault(text: &str, pad: &str) -> String {
    let lead: String = text.chars().take_while(|c| *c == '\n').collect();
    let body = text[lead.len()..].trim_end_matches('\n');
    let trail = &text[lead.len() + body.len()..];
    format!("{lead}{pad}{}{trail}", body.replace('\n', " "))
}

/// `own_types` = the types defined in the file the fault goes into, `other_types` = (file index, name, kind) of the
/// types defined in the OTHER schema files.  Returns (kind, stage, text appended to the file, index of another file a
/// diagnostic of this fault may be located in).
fn schema_fault(rng: &mut Rng, n: usize, own_types: &[(String, nvh::gm::TypeKind)], other_types: &[(usize, String, nvh::gm::TypeKind)]) -> (String, String, String, Option<usize>) {
    use nvh::gm::TypeKind as K;
    let def_of = |t: &str, k: &K| match k {
        K::Scalar => format!("scalar {t}"),
        K::Object => format!("type {t} {{ again: Int }}"),
        K::Interface => format!("interface {t} {{ again: Int }}"),
        K::Union => format!("union {t} = Query"),
        K::Enum => format!("enum {t} {{ AGAIN }}"),
        K::Input => format!("input {t} {{ again: Int }}"),
    };
    match rng.below(11) {
        // faults that exist only once the extensions are merged into their originals (possibly of another file)
        8 | 9 => {
            let objs: Vec<(String, K)> = own_types.iter().cloned().chain(other_types.iter().map(|(_, t, k)| (t.clone(), *k))).filter(|(_, k)| matches!(k, K::Object | K::Interface)).collect();
            if objs.is_empty() {
                return ("orphan-extension".into(), "schema-ext".into(), format!("\nextend union Nope{n} = Query\n"), None);
            }
            let (t, k) = &objs[rng.below(objs.len())];
            let kw = if *k == K::Interface { "interface" } else { "type" };
            if rng.coin() {
                ("ext-unknown-type".into(), "schema-check".into(), format!("\nextend {kw} {t} {{ extra{n}: NopeType{n} }}\n"), None)
            } else {
                ("ext-unknown-directive".into(), "schema-check".into(), format!("\nextend {kw} {t} {{\n  extra{n}: Int @nope{n}\n}}\n"), None)
            }
        }
        // a second definition of a type that another schema file defines: the diagnostic is located at the FIRST
        // definition in file order, the other one is a note
        10 if !other_types.is_empty() => {
            let (i, t, k) = &other_types[rng.below(other_types.len())];
            ("duplicate-type-across-files".into(), "schema-ext".into(), format!("\n{}\n", def_of(t, k)), Some(*i))
        }
        x => schema_fault_single(rng, n, own_types, x),
    }
}

fn schema_fault_single(rng: &mut Rng, n: usize, own_types: &[(String, nvh::gm::TypeKind)], choice: usize) -> (String, String, String, Option<usize>) {
    let (a, b, c) = schema_fault_basic(rng, n, own_types, choice);
    (a, b, c, None)
}

fn schema_fault_basic(_rng: &mut Rng, n: usize, own_types: &[(String, nvh::gm::TypeKind)], choice: usize) -> (String, String, String) {
    // (kind, stage, text appended to the file)
    match choice {
        0 => ("syntax".into(), "parse-schema".into(), format!("\ntype Broken{n} {{ f: }}\n")),
        1 => ("syntax-eof".into(), "parse-schema".into(), format!("\ntype Broken{n} {{ f: Int\n")),
        2 => ("unknown-type".into(), "schema-check".into(), format!("\ntype Extra{n} {{ f: NopeType{n} }}\n")),
        3 => ("duplicate-type".into(), "schema-ext".into(), format!("\ntype Dup{n} {{ x: Int }}\n\n  type Dup{n} {{ y: Int }}\n")),
        4 => ("orphan-extension".into(), "schema-ext".into(), format!("\nextend type Nope{n} {{ x: Int }}\n")),
        5 => ("wrong-directive-location".into(), "schema-check".into(), format!("\ntype Extra{n} @skip(if: true) {{ f: Int }}\n")),
        6 => ("unknown-directive".into(), "schema-check".into(), format!("\n    enum Extra{n} {{ A @nope{n} }}\n")),
        _ => {
            if let Some((t, k)) = own_types.first() {
                // a second definition of the same kind (definitions of different kinds with one name are not detected
                // by the extension resolver — a C05 matter, not injected here)
                let def = match k {
                    nvh::gm::TypeKind::Scalar => format!("scalar {t}"),
                    nvh::gm::TypeKind::Object => format!("type {t} {{ again: Int }}"),
                    nvh::gm::TypeKind::Interface => format!("interface {t} {{ again: Int }}"),
                    nvh::gm::TypeKind::Union => format!("union {t} = Query"),
                    nvh::gm::TypeKind::Enum => format!("enum {t} {{ AGAIN }}"),
                    nvh::gm::TypeKind::Input => format!("input {t} {{ again: Int }}"),
                };
                ("duplicate-existing-type".into(), "schema-ext".into(), format!("\n\"\"\"again\"\"\" {def}\n"))
            } else {
                ("orphan-extension".into(), "schema-ext".into(), format!("\nextend interface Nope{n} {{ x: Int }}\n"))
            }
        }
    }
}

fn op_fault(rng: &mut Rng, n: usize, other_file: Option<&str>) -> (String, String, String, bool) {
    // (kind, stage, text, prepend?)
    match rng.below(11) {
        0 => ("syntax".into(), "parse-operation".into(), format!("\nquery Broken{n} {{ a( }}\n"), false),
        1 => ("syntax-eof".into(), "parse-operation".into(), format!("\nquery Broken{n} {{ a {{ b\n"), false),
        2 => ("unknown-field".into(), "op-check".into(), format!("\nquery Fault{n} {{\n    nopeField{n}\n}}\n"), false),
        3 => ("unknown-type".into(), "op-check".into(), format!("\nquery Fault{n}($v: NopeType{n}) {{ __typename }}\n"), false),
        4 => ("unknown-fragment".into(), "op-check".into(), format!("\nquery Fault{n} {{ ...NopeFrag{n} }}\n"), false),
        5 => ("wrong-directive-location".into(), "op-check".into(), format!("\nquery Fault{n} @skip(if: true) {{ __typename }}\n"), false),
        6 => ("unknown-directive".into(), "op-check".into(), format!("\nquery Fault{n} {{ __typename @nope{n} }}\n"), false),
        7 => ("dangling-import".into(), "op-import".into(), format!("#import NopeF{n} from \"./missing{n}.graphql\"\n"), true),
        8 => match other_file {
            Some(o) => ("missing-fragment".into(), "op-import".into(), format!("#import NopeF{n} from \"./{o}\"\n"), true),
            None => ("dangling-import".into(), "op-import".into(), format!("  #import NopeF{n} from \"./missing{n}.graphql\"\n"), true),
        },
        9 => ("wildcard-twice".into(), "op-ext".into(), format!("#import * * from \"./missing{n}.graphql\"\n"), true),
        _ => ("wildcard-combined".into(), "op-ext".into(), format!("#import *, F{n} from \"./missing{n}.graphql\"\n"), true),
    }
}

/// `ctx_mode`: `Some(faulty)` = the project gets a cluster of operation files linked by `#import` (c18/ctx.rs) with /
/// without a context-dependent fault and is run with a standard command list; `None` = it gets one now and then.
/// Returns the case and the features of the cluster (for the input distribution of the report).
fn gen_case(rng: &mut Rng, want_faults: usize, ctx_mode: Option<bool>) -> (Case, Vec<String>) {
    let gcfg = nvh::gen::GenCfg { hostile_text: false, max_depth: 2, ..Default::default() };
    let schema = nvh::gen::gen_schema(rng, &gcfg);
    // half of the schemas have some of their definitions split into `extend …` items (same merged meaning); the items
    // are then spread over the schema files, so an extension may live in another file than its original, before or after it
    let with_extensions = rng.coin();
    let items = if with_extensions { nvh::gen::split_into_extensions(rng, &schema).items } else { schema.doc.items.clone() };
    let ns = (1 + rng.below(3)).min(items.len().max(1));
    let mut chunks: Vec<Vec<nvh::gm::TsItem>> = vec![vec![]; ns];
    for (i, it) in items.into_iter().enumerate() {
        let k = if i < ns { i } else { rng.below(ns) };
        chunks[k].push(it);
    }
    let mut schema_files: Vec<(String, String)> = chunks.iter().enumerate().map(|(i, c)| (format!("schema/s{i}.graphql"), nvh::render::tsdoc_text(&nvh::gm::TsDoc { items: c.clone() }))).collect();
    let own_types: Vec<Vec<(String, nvh::gm::TypeKind)>> = chunks.iter().map(|c| c.iter().filter_map(|it| if let nvh::gm::TsItem::TypeDef(t) = it { Some((t.name.clone(), t.kind)) } else { None }).collect()).collect();
    let no = 1 + rng.below(4);
    let mut op_files: Vec<(String, String)> = (0..no).map(|j| (format!("ops/o{j}.graphql"), nvh::render::doc_text(&nvh::gen::gen_doc(rng, &schema, &gcfg).0))).collect();
    let mut pc = nvh::gen::gen_project_cfg(rng, &schema, false);
    let mut faults = vec![];
    let mut blocked = vec![];
    let schema_output = match rng.below(5) {
        0 => None,
        1 => Some("src/generated/schema.ts".to_string()),
        _ => Some("generated/schema.d.ts".to_string()),
    };
    let mut module_specifier = schema_output.is_none();
    let server_output = if rng.coin() { Some("generated/server-graphql.ts".to_string()) } else { None };
    let resolvers_output = if rng.coin() { Some("generated/resolvers.d.ts".to_string()) } else { None };
    let cmds: Vec<String> = match rng.below(12) {
        0..=2 => vec!["check"],
        3..=6 => vec!["generate"],
        7..=9 => vec!["check", "generate"],
        10 => match rng.below(5) {
            0 => vec!["generate", "check"],
            1 => vec!["check", "check"],
            2 => vec!["generate", "generate"],
            3 => vec!["bogus"],
            _ => vec!["check", "bogus", "generate"],
        },
        _ => vec![],
    }
    .into_iter()
    .map(|s| s.to_string())
    .collect();
    let mut non_ascii = false;
    for n in 0..want_faults {
        let choice = rng.below(10);
        if choice < 4 {
            let i = rng.below(schema_files.len());
            let other_types: Vec<(usize, String, nvh::gm::TypeKind)> = own_types.iter().enumerate().filter(|(k, _)| *k != i).flat_map(|(k, ts)| ts.iter().map(move |(t, kind)| (k, t.clone(), *kind))).collect();
            let (kind, stage, mut text, other) = schema_fault(rng, n, &own_types[i], &other_types);
            if rng.coin() {
                text = pad_fault(&text, &schema_pad(n));
                non_ascii = true;
            }
            schema_files[i].1.push_str(&text);
            faults.push(Fault { kind, file: schema_files[i].0.clone(), stage, alt: other.map(|k| vec![schema_files[k].0.clone()]).unwrap_or_default() });
        } else if choice < 8 {
            let j = rng.below(op_files.len());
            let other = if op_files.len() > 1 { Some(format!("o{}.graphql", (j + 1) % op_files.len())) } else { None };
            let (kind, stage, mut text, prepend) = op_fault(rng, n, other.as_deref());
            if rng.coin() {
                text = pad_fault(&text, &op_pad(n));
                non_ascii = true;
            }
            if prepend {
                op_files[j].1 = format!("{text}{}", op_files[j].1);
            } else {
                op_files[j].1.push_str(&text);
            }
            faults.push(Fault { kind, file: op_files[j].0.clone(), stage, alt: vec![] });
        } else {
            // faults of the generate stage: options, unmapped scalar, blocked output path
            match rng.below(4) {
                0 if !faults.iter().any(|f: &Fault| f.kind == "no-schema-output") => {
                    module_specifier = false;
                    faults.push(Fault { kind: "no-schema-output".into(), file: String::new(), stage: "generate".into(), alt: vec![] });
                }
                1 if schema_output.as_deref() == Some("generated/schema.d.ts") && !pc.emit_schema_runtime => {
                    pc.emit_schema_runtime = true;
                    faults.push(Fault { kind: "runtime-to-dts".into(), file: String::new(), stage: "generate".into(), alt: vec![] });
                }
                2 if schema_output.is_some() => {
                    let i = rng.below(schema_files.len());
                    schema_files[i].1.push_str(&format!("\nscalar Unmapped{n}\n"));
                    faults.push(Fault { kind: "unmapped-scalar".into(), file: schema_files[i].0.clone(), stage: "generate".into(), alt: vec![] });
                }
                _ => {
                    let mut outs: Vec<String> = vec![];
                    for o in [&schema_output, &server_output, &resolvers_output].into_iter().flatten() {
                        outs.push(o.clone());
                    }
                    outs.push(decl_path(&op_files[rng.below(op_files.len())].0, mode_ext(pc.mode)));
                    let o = outs[rng.below(outs.len())].clone();
                    let b = if rng.coin() && Some(&o) != server_output.as_ref() { format!("{o}.map") } else { o };
                    if !blocked.contains(&b) {
                        blocked.push(b);
                        faults.push(Fault { kind: "blocked-output".into(), file: String::new(), stage: "generate".into(), alt: vec![] });
                    }
                }
            }
        }
    }
    // copy-paste: the SAME fault text at the SAME (line, column) in two or three operation files / two schema files
    if want_faults > 0 && op_files.len() >= 2 && rng.chance(1, 3) {
        let (kind, body) = match rng.below(5) {
            0 => ("unknown-field", "query FaultCP { nopeFieldCP }".to_string()),
            1 => ("unknown-directive", "query FaultCP { __typename @nopeCP }".to_string()),
            2 => ("unknown-type", "query FaultCP($v: NopeTypeCP) { __typename }".to_string()),
            3 => ("unknown-fragment", "query FaultCP { ...NopeFragCP }".to_string()),
            _ => ("wrong-directive-location", "query FaultCP @skip(if: true) { __typename }".to_string()),
        };
        let pad = if rng.coin() {
            non_ascii = true;
            op_pad(90)
        } else {
            String::new()
        };
        let mut idx: Vec<usize> = (0..op_files.len()).collect();
        rng.shuffle(&mut idx);
        let k = 2 + rng.below(2).min(op_files.len() - 2);
        for &j in idx.iter().take(k) {
            op_files[j].1 = format!("{pad}{body}\n{}", op_files[j].1);
            faults.push(Fault { kind: format!("copy-paste-{kind}"), file: op_files[j].0.clone(), stage: "op-check".into(), alt: vec![] });
        }
    }
    if want_faults > 0 && schema_files.len() >= 2 && rng.chance(1, 5) {
        let pad = if rng.coin() {
            non_ascii = true;
            "\"日本語 😀 Größe\" ".to_string()
        } else {
            String::new()
        };
        for (k, i) in [0usize, 1].iter().enumerate() {
            let name = ["CpA", "CpB"][k];
            schema_files[*i].1 = format!("type {name} {{ {pad}f: NopeTypeCP }}\n{}", schema_files[*i].1);
            faults.push(Fault { kind: "copy-paste-unknown-type".into(), file: schema_files[*i].0.clone(), stage: "schema-check".into(), alt: vec![] });
        }
    }
    let _ = non_ascii;
    let mut ctx_features = vec![];
    if with_extensions {
        ctx_features.push("schema-definitions-split-into-extensions".to_string());
    }
    // context-dependent faults across #import: every file of the cluster is valid on its own
    let ctx_kind = match ctx_mode {
        Some(faulty) => Some(ctx::CtxKind::pick(rng, faulty)),
        None if rng.chance(1, 4) => {
            let faulty = want_faults > 0 && rng.coin();
            Some(ctx::CtxKind::pick(rng, faulty))
        }
        None => None,
    };
    let mut cmds = cmds;
    if let Some(kind) = ctx_kind {
        let n = 40 + rng.below(50);
        let sc = ctx::gen_ctx(rng, n, &schema.query, kind);
        let i = rng.below(schema_files.len());
        schema_files[i].1.push_str(&sc.schema_add);
        op_files.extend(sc.files);
        // the CLI reads the files of a glob in sorted order; file indices follow it
        op_files.sort_by(|a, b| a.0.cmp(&b.0));
        for f in sc.faults {
            faults.push(Fault { kind: f.kind, file: f.file, stage: "op-check".into(), alt: f.alt });
        }
        ctx_features.extend(sc.features);
        if op_files.iter().any(|(_, t)| t.contains("from \"../ops/") || t.contains("from \"./sub/../") || t.contains("from \"./././") || t.lines().any(|l| l.trim_start().starts_with("#import") && !l.contains("from \"."))) {
            ctx_features.push("ctx-import-path-spelled-differently".to_string());
        }
        if op_files.iter().any(|(_, t)| t.lines().filter(|l| l.trim_start().starts_with("#import")).count() >= 2) {
            ctx_features.push("ctx-two-import-lines-in-one-file".to_string());
        }
        if ctx_mode.is_some() {
            cmds = match rng.below(4) {
                0 => vec!["check"],
                1 => vec!["generate"],
                _ => vec!["check", "generate"],
            }
            .into_iter()
            .map(|s| s.to_string())
            .collect();
        }
    }
    let schema_output = if faults.iter().any(|f| f.kind == "no-schema-output") { None } else { schema_output };
    let mut outputs: Vec<(&str, &str)> = vec![];
    if let Some(o) = &schema_output {
        outputs.push(("schemaOutput", o));
    }
    if module_specifier {
        outputs.push(("schemaModuleSpecifier", "@/generated/schema"));
    }
    if let Some(o) = &server_output {
        outputs.push(("serverGraphqlOutput", o));
    }
    if let Some(o) = &resolvers_output {
        outputs.push(("resolversOutput", o));
    }
    let yaml = pc.yaml("schema/*.graphql", "ops/*.graphql", &outputs);
    let case = Case {
        schema_files,
        op_files,
        yaml,
        cmds,
        blocked,
        faults,
        schema_output,
        module_specifier,
        server_output,
        resolvers_output,
        emit_runtime: pc.emit_schema_runtime,
        mode: pc.mode.to_string(),
    };
    (case, ctx_features)
}

/// hand-written projects: minimised past failures and the situations the model distinguishes
fn corpus() -> Vec<Case> {
    let base = |schema: Vec<(&str, &str)>, ops: Vec<(&str, &str)>, cmds: Vec<&str>, faults: Vec<(&str, &str, &str)>| -> Case {
        let schema_output = Some("generated/schema.d.ts".to_string());
        Case {
            schema_files: schema.iter().map(|(p, t)| (p.to_string(), t.to_string())).collect(),
            op_files: ops.iter().map(|(p, t)| (p.to_string(), t.to_string())).collect(),
            yaml: "schema: \"schema/*.graphql\"\ndocuments: \"ops/*.graphql\"\nextensions:\n  nitrogql:\n    generate:\n      mode: with-loader-ts-5.0\n      schemaOutput: \"generated/schema.d.ts\"\n".to_string(),
            cmds: cmds.iter().map(|s| s.to_string()).collect(),
            blocked: vec![],
            faults: faults.iter().map(|(k, f, s)| Fault { kind: k.to_string(), file: f.to_string(), stage: s.to_string(), alt: vec![] }).collect(),
            schema_output,
            module_specifier: false,
            server_output: None,
            resolvers_output: None,
            emit_runtime: false,
            mode: "with-loader-ts-5.0".to_string(),
        }
    };
    let s0 = ("schema/s0.graphql", "type Query { me: User! }\n");
    let s1 = ("schema/s1.graphql", "type User { id: ID! name: String }\n");
    let o0 = ("ops/o0.graphql", "query Q0 { me { id } }\n");
    let o1 = ("ops/o1.graphql", "query Q1 { me { name } }\n");
    vec![
        base(vec![s0, s1], vec![o0, o1], vec!["check"], vec![]),
        base(vec![s0, s1], vec![o0, o1], vec!["generate"], vec![]),
        base(vec![s0, s1], vec![o0, o1], vec!["check", "generate"], vec![]),
        // (fixed 2c17dc5) two schema files with syntax errors: both must be reported
        base(vec![("schema/s0.graphql", "type Query { me: User! \n"), ("schema/s1.graphql", "type User { id: ID! name: }\n")], vec![o0], vec!["check"],
            vec![("syntax-eof", "schema/s0.graphql", "parse-schema"), ("syntax", "schema/s1.graphql", "parse-schema")]),
        // (fixed 85f7af2) syntax error at the end of input after a trailing newline: must be located
        base(vec![s0, s1], vec![("ops/o0.graphql", "query Q0 { me { id } \n"), ("ops/o1.graphql", "query Q1 { me {\n   name( } }\n")], vec!["generate"],
            vec![("syntax-eof", "ops/o0.graphql", "parse-operation"), ("syntax", "ops/o1.graphql", "parse-operation")]),
        // two operation files with check-stage faults: both named
        base(vec![s0, s1], vec![("ops/o0.graphql", "query Q0 { me { id nope } }\n"), ("ops/o1.graphql", "query Q1 { me { id\n   zzz } }\n")], vec!["check", "generate"],
            vec![("unknown-field", "ops/o0.graphql", "op-check"), ("unknown-field", "ops/o1.graphql", "op-check")]),
        // an import fault in one file hides the unknown field of another (open finding)
        base(vec![s0, s1], vec![("ops/o0.graphql", "#import F from \"./missing.graphql\"\nquery Q0 { me { id } }\n"), ("ops/o1.graphql", "query Q1 { me { zzz } }\n")], vec!["check"],
            vec![("dangling-import", "ops/o0.graphql", "op-import"), ("unknown-field", "ops/o1.graphql", "op-check")]),
        // extension-stage fault hides import and check faults (open findings)
        base(vec![s0, s1], vec![("ops/o0.graphql", "#import * * from \"./o1.graphql\"\nquery Q0 { me { id } }\n"), ("ops/o1.graphql", "#import F from \"./missing.graphql\"\nquery Q1 { me { id } }\n"), ("ops/o2.graphql", "query Q2 { me { zzz } }\n")], vec!["check"],
            vec![("wildcard-twice", "ops/o0.graphql", "op-ext"), ("dangling-import", "ops/o1.graphql", "op-import"), ("unknown-field", "ops/o2.graphql", "op-check")]),
        // copy-pasted query with the same misspelt field at the same line/column in two files: both files are named
        base(vec![s0, s1], vec![("ops/o0.graphql", "query Q { me { id nam } }\n"), ("ops/o1.graphql", "query Q { me { id nam } }\n"), ("ops/o2.graphql", "query Q2 { me { id } }\n")], vec!["check"],
            vec![("copy-paste-unknown-field", "ops/o0.graphql", "op-check"), ("copy-paste-unknown-field", "ops/o1.graphql", "op-check")]),
        // the same unknown type at the same line/column of two schema files
        base(vec![("schema/s0.graphql", "type Query { me: User! a: Intt }\n"), ("schema/s1.graphql", "type User { id: ID!   a: Intt }\n")], vec![o0], vec!["check"],
            vec![("copy-paste-unknown-type", "schema/s0.graphql", "schema-check"), ("copy-paste-unknown-type", "schema/s1.graphql", "schema-check")]),
        // non-ASCII text (CJK, accented, astral) before the offending token on its line: columns count code points
        base(vec![s0, s1], vec![("ops/o0.graphql", "query Q0($n: String = \"日本語\") { me { id nam } }\n"), ("ops/o1.graphql", "query Q1($n: String = \"😀 Größe\") {\n  me { id } }   query Q2($m: String = \"é😀\") { me { ...Nope } }\n")], vec!["check"],
            vec![("unknown-field", "ops/o0.graphql", "op-check"), ("unknown-fragment", "ops/o1.graphql", "op-check")]),
        base(vec![s0, ("schema/s1.graphql", "type User { id: ID! name: String \"Größe 日本語 😀\" size: Intt }\n")], vec![o0], vec!["check", "generate"],
            vec![("unknown-type", "schema/s1.graphql", "schema-check")]),
        base(vec![s0, s1], vec![("ops/o0.graphql", "query Pad($s: String = \"日本語 😀\") { __typename } #import F from \"./missing.graphql\"\nquery Q0 { me { id } }\n")], vec!["check"],
            vec![("dangling-import", "ops/o0.graphql", "op-import")]),
        // a file importing from a file whose own import fails is not named (open finding)
        base(vec![s0, s1], vec![("ops/o0.graphql", "#import A from \"./o1.graphql\"\nquery Q0 { me { id } }\n"), ("ops/o1.graphql", "#import B from \"./o2.graphql\"\nquery Q1 { me { id } }\n"), ("ops/o2.graphql", "query Q2 { me { id } }\n")], vec!["check"],
            vec![("missing-fragment", "ops/o0.graphql", "op-import"), ("missing-fragment", "ops/o1.graphql", "op-import")]),
        // two files that do not import one another, each with its own failing #import: both are named
        base(vec![s0, s1], vec![("ops/o0.graphql", "#import A from \"./missing0.graphql\"\nquery Q0 { me { id } }\n"), ("ops/o1.graphql", "query Q1 { me { id } }\n"), ("ops/o2.graphql", "#import B from \"./o1.graphql\"\nquery Q2 { me { id } }\n")], vec!["check"],
            vec![("dangling-import", "ops/o0.graphql", "op-import"), ("missing-fragment", "ops/o2.graphql", "op-import")]),
        base(vec![s0, s1], vec![("ops/o0.graphql", "query Q0 { me { id } }\n"), ("ops/o1.graphql", "#import B from \"./o0.graphql\"\nquery Q1 { me { id } }\n"), ("ops/o2.graphql", "#import C from \"./o0.graphql\"\nquery Q2 { me { id } }\n"), ("ops/o3.graphql", "#import D from \"./nowhere.graphql\"\nquery Q3 { me { id } }\n")], vec!["check", "generate"],
            vec![("missing-fragment", "ops/o1.graphql", "op-import"), ("missing-fragment", "ops/o2.graphql", "op-import"), ("dangling-import", "ops/o3.graphql", "op-import")]),
        // schema extension stage reports one error only (open findings)
        base(vec![("schema/s0.graphql", "type Query { me: User! }\nextend type NopeA { x: Int }\n"), ("schema/s1.graphql", "type User { id: ID! name: String }\nextend type NopeB { x: Int }\n"), ("schema/s2.graphql", "type Extra { f: NopeType }\n")], vec![o0], vec!["check"],
            vec![("orphan-extension", "schema/s0.graphql", "schema-ext"), ("orphan-extension", "schema/s1.graphql", "schema-ext"), ("unknown-type", "schema/s2.graphql", "schema-check")]),
        // invalid command sequences (K only)
        base(vec![s0, s1], vec![o0], vec!["generate", "check"], vec![]),
        base(vec![s0, s1], vec![o0], vec!["check", "check"], vec![]),
        base(vec![s0, s1], vec![o0], vec!["generate", "generate"], vec![]),
        base(vec![s0, s1], vec![o0], vec!["bogus"], vec![]),
        base(vec![s0, s1], vec![o0], vec![], vec![]),
        // unmapped scalar: check passes, generate fails before writing anything
        base(vec![s0, ("schema/s1.graphql", "type User { id: ID! name: String }\nscalar Date\n")], vec![o0], vec!["check", "generate"], vec![("unmapped-scalar", "schema/s1.graphql", "generate")]),
        // duplicate of a built-in scalar
        base(vec![s0, ("schema/s1.graphql", "type User { id: ID! name: String }\nscalar String\n")], vec![o0], vec!["check"], vec![("duplicate-builtin", "schema/s1.graphql", "schema-ext")]),
    ]
    .into_iter()
    .chain(ctx_corpus(&base))
    .collect()
}

/// projects whose operation files are linked by `#import`: every file is valid on its own, the fault exists only in the
/// context of an importing document (the diagnostic may be located in the imported file or in the importer)
fn ctx_corpus(base: &dyn Fn(Vec<(&str, &str)>, Vec<(&str, &str)>, Vec<&str>, Vec<(&str, &str, &str)>) -> Case) -> Vec<Case> {
    let sq = ("schema/s0.graphql", "type Query { me: User! user(id: ID!): User }\n");
    let su = ("schema/s1.graphql", "type User { id: ID! name: String friends(first: Int, all: Boolean!): [User!]! pet: Pet }\ntype Pet { id: ID! }\n");
    let with_alt = |mut c: Case, alts: Vec<Vec<&str>>| -> Case {
        for (f, a) in c.faults.iter_mut().zip(alts) {
            f.alt = a.iter().map(|s| s.to_string()).collect();
        }
        c
    };
    let frag_first = ("ops/f.graphql", "fragment Friends on User {\n  id\n  friends(first: $n, all: true) { id }\n}\n");
    let frag_all = ("ops/f.graphql", "fragment Friends on User { id friends(all: $all) { id } }\n");
    vec![
        // valid: two importers (by name, wildcard) declare the variable of the imported fragment
        base(vec![sq, su], vec![frag_first, ("ops/o0.graphql", "#import Friends from \"./f.graphql\"\nquery Q0($n: Int) { me { ...Friends } }\n"), ("ops/o1.graphql", "#import * from \"./f.graphql\"\nquery Q1($n: Int!) { me { ...Friends } }\n")], vec!["check", "generate"], vec![]),
        // the importing operation does not declare the variable the imported fragment uses
        with_alt(base(vec![sq, su], vec![frag_first, ("ops/o0.graphql", "#import Friends from \"./f.graphql\"\nquery Q0 { me { ...Friends } }\n")], vec!["check", "generate"],
            vec![("ctx-undeclared-variable", "ops/f.graphql", "op-check")]), vec![vec!["ops/o0.graphql"]]),
        // one of two importers declares it, the other does not (wildcard import)
        with_alt(base(vec![sq, su], vec![frag_first, ("ops/o0.graphql", "#import * from \"./f.graphql\"\nquery Q0($n: Int) { me { ...Friends } }\n"), ("ops/o1.graphql", "#import * from \"./f.graphql\"\nquery Q1($id: ID!) { user(id: $id) { ...Friends } }\n")], vec!["generate"],
            vec![("ctx-undeclared-variable", "ops/f.graphql", "op-check")]), vec![vec!["ops/o1.graphql"]]),
        // declared with another type; three-file chain (o0 -> m -> f), the fragment file sorts after its importers
        with_alt(base(vec![sq, su], vec![("ops/m.graphql", "#import * from \"./z.graphql\"\nfragment Me on User { name ...Friends }\n"), ("ops/o0.graphql", "#import Me from \"./m.graphql\"\nquery Q0($n: String) { me { ...Me } }\n"), ("ops/z.graphql", frag_first.1)], vec!["check"],
            vec![("ctx-variable-type", "ops/z.graphql", "op-check")]), vec![vec!["ops/o0.graphql"]]),
        // declared nullable where a non-null value is required
        with_alt(base(vec![sq, su], vec![frag_all, ("ops/o0.graphql", "#import Friends from \"./f.graphql\"\nquery Q0($all: Boolean) { me { ...Friends } }\n")], vec!["check", "generate"],
            vec![("ctx-variable-nullability", "ops/f.graphql", "op-check")]), vec![vec!["ops/o0.graphql"]]),
        // a fragment imported by name spreads a sibling that was not imported
        with_alt(base(vec![sq, su], vec![("ops/f.graphql", "fragment A on User { id ...B }\nfragment B on User { name }\n"), ("ops/o0.graphql", "#import A from \"./f.graphql\"\nquery Q0 { me { ...A } }\n")], vec!["check"],
            vec![("ctx-sibling-not-imported", "ops/f.graphql", "op-check")]), vec![vec!["ops/o0.graphql"]]),
        // the same through a middle file: only the middle file imports by name
        with_alt(base(vec![sq, su], vec![("ops/f.graphql", "fragment A on User { id ...B }\nfragment B on User { name }\n"), ("ops/m.graphql", "#import A from \"./f.graphql\"\nfragment M on User { ...A }\n"), ("ops/o0.graphql", "#import * from \"./m.graphql\"\nquery Q0 { me { ...M } }\n")], vec!["check", "generate"],
            vec![("ctx-sibling-not-imported", "ops/f.graphql", "op-check")]), vec![vec!["ops/m.graphql", "ops/o0.graphql"]]),
        // the imported fragment's type condition cannot apply where the importer spreads it
        with_alt(base(vec![sq, su], vec![("ops/f.graphql", "fragment P on Pet { id }\n"), ("ops/o0.graphql", "#import P from \"./f.graphql\"\nquery Q0 { me { ...P } }\n")], vec!["check"],
            vec![("ctx-type-condition", "ops/o0.graphql", "op-check")]), vec![vec!["ops/f.graphql"]]),
        // a local fragment with the name of an imported one
        with_alt(base(vec![sq, su], vec![("ops/f.graphql", "fragment A on User { id }\n"), ("ops/o0.graphql", "#import A from \"./f.graphql\"\nfragment A on User { name }\nquery Q0 { me { ...A } }\n")], vec!["check", "generate"],
            vec![("ctx-duplicate-fragment-name", "ops/f.graphql", "op-check")]), vec![vec!["ops/o0.graphql"]]),
    ]
}

// ---------------------------------------------------------------------------------------------
// K for print_positioned_error / message_for_line (in-process, text for text)

fn anyhow_of(msg: &str) -> PositionedError {
    let inner = PositionedError::from(std::io::Error::new(std::io::ErrorKind::Other, msg.to_string())).into_inner();
    PositionedError::new(inner, None, vec![])
}

fn render_stream(rep: &mut Report, drv: &mut Driver, rng: &mut Rng, n: usize) {
    let pieces = ["query", "Q", "{", "}", "  ", "    ", "\t", "\n", "\n", "\n\n", "\r\n", "é", "😀", "\u{3000}", "\u{a0}", "name", "(", ")", "# c", "\"s\"", ",", " ", "x"];
    let mut reqs = vec![];
    let mut reals = vec![];
    let mut cases = vec![];
    for i in 0..n {
        let nfiles = 1 + rng.below(3);
        let mut files: Vec<(PathBuf, String, ())> = vec![];
        for f in 0..nfiles {
            let mut s = String::new();
            for _ in 0..rng.below(30) {
                s.push_str(pieces[rng.below(pieces.len())]);
            }
            if rng.coin() {
                s.push('\n');
            }
            files.push((PathBuf::from(format!("/proj/f{f}.graphql")), s, ()));
        }
        let mk_pos = |rng: &mut Rng, files: &Vec<(PathBuf, String, ())>| -> Pos {
            let file = rng.below(files.len() + if i % 17 == 0 { 1 } else { 0 });
            let nlines = files.get(file).map_or(1, |f| f.1.lines().count());
            Pos { line: rng.below(nlines + 3), column: rng.below(14), file, builtin: rng.chance(1, 12) }
        };
        let pos = if rng.chance(1, 15) { None } else { Some(mk_pos(rng, &files)) };
        let extras: Vec<(Pos, String)> = (0..rng.below(3)).map(|k| (mk_pos(rng, &files), format!("note {k}"))).collect();
        let msg = format!("Message {i}");
        let inner = anyhow_of(&msg).into_inner();
        let err = PositionedError::new(inner, pos, extras.clone());
        let files2 = files.clone();
        let real = catch(AssertUnwindSafe(move || print_positioned_error(&err, &files2)));
        reals.push(match real {
            Ok(t) => Sexp::call("ok", vec![Sexp::str(t)]),
            Err(_) => Sexp::call("panic", vec![]),
        });
        reqs.push(Sexp::call(
            "print",
            vec![
                Sexp::call("files", files.iter().map(|(p, s, _)| Sexp::list(vec![Sexp::str(p.to_string_lossy()), Sexp::str(s.as_str())])).collect()),
                Sexp::str(msg.as_str()),
                pos.as_ref().map_or(Sexp::atom("none"), s_pos),
                Sexp::list(extras.iter().map(|(p, m)| Sexp::list(vec![s_pos(p), Sexp::str(m.as_str())])).collect()),
            ],
        ));
        cases.push(json!({"render": {"files": files.iter().map(|(p, s, _)| json!([p.to_string_lossy(), s])).collect::<Vec<_>>(),
            "pos": pos.map(|p| json!([p.line, p.column, p.file, p.builtin])), "extras": extras.iter().map(|(p, m)| json!([[p.line, p.column, p.file, p.builtin], m])).collect::<Vec<_>>(), "msg": msg}}));
    }
    let ans = drv.batch(&reqs);
    for i in 0..reqs.len() {
        rep.k_cases += 1;
        rep.evaluations += 1;
        if ans[i] != reals[i] {
            rep.fail("K", "render", &format!("print_positioned_error: code {} model {}", reals[i].to_line().chars().take(300).collect::<String>(), ans[i].to_line().chars().take(300).collect::<String>()), cases[i].clone());
        }
        rep.count(if reals[i].head() == Some("panic") { "render:panics(file index outside the store)" } else { "render:ok" });
    }
}

fn replay_render(rep: &mut Report, drv: &mut Driver, c: &Value) {
    let files: Vec<(PathBuf, String, ())> = c["files"].as_array().unwrap().iter().map(|f| (PathBuf::from(f[0].as_str().unwrap()), f[1].as_str().unwrap().to_string(), ())).collect();
    let pp = |v: &Value| Pos { line: v[0].as_u64().unwrap() as usize, column: v[1].as_u64().unwrap() as usize, file: v[2].as_u64().unwrap() as usize, builtin: v[3].as_bool().unwrap() };
    let pos = if c["pos"].is_null() { None } else { Some(pp(&c["pos"])) };
    let extras: Vec<(Pos, String)> = c["extras"].as_array().unwrap().iter().map(|e| (pp(&e[0]), e[1].as_str().unwrap().to_string())).collect();
    let msg = c["msg"].as_str().unwrap().to_string();
    let err = PositionedError::new(anyhow_of(&msg).into_inner(), pos, extras.clone());
    let files2 = files.clone();
    let real = match catch(AssertUnwindSafe(move || print_positioned_error(&err, &files2))) {
        Ok(t) => Sexp::call("ok", vec![Sexp::str(t)]),
        Err(_) => Sexp::call("panic", vec![]),
    };
    let req = Sexp::call(
        "print",
        vec![
            Sexp::call("files", files.iter().map(|(p, s, _)| Sexp::list(vec![Sexp::str(p.to_string_lossy()), Sexp::str(s.as_str())])).collect()),
            Sexp::str(msg.as_str()),
            pos.as_ref().map_or(Sexp::atom("none"), s_pos),
            Sexp::list(extras.iter().map(|(p, m)| Sexp::list(vec![s_pos(p), Sexp::str(m.as_str())])).collect()),
        ],
    );
    let ans = drv.one(&req);
    rep.k_cases += 1;
    if ans != real {
        rep.fail("K", "render", &format!("print_positioned_error: code {} model {}", real.to_line(), ans.to_line()), json!({"render": c}));
    }
}

fn main() {
    let args = Args::parse();
    if std::env::var("NV_LOUD").is_err() {
        quiet_panics();
    }
    std::env::set_var("NO_COLOR", "1");
    let mut rep = Report::new(
        "C18",
        "generated projects (1-3 schema files, 1-4 operation files, 0-3 injected faults of 25 kinds over parse / schema / operation / generate stages + 6 kinds of context-dependent faults across 2- and 3-file #import chains (judged by the generator's knowledge of the injected fault), generate options, command lists) × three output formats, each run through the real binary; non-trivial = project with at least one injected fault or a generate command (distinct by project text and command list)",
    );
    let cli = args.extra.get("cli").cloned().unwrap_or_default();
    if cli.is_empty() || !Path::new(&cli).exists() {
        rep.fail("K", "no-cli", "the nitrogql-cli binary is not available (--cli)", json!({}));
        rep.write(&args);
        return;
    }
    let mut drv = Driver::spawn(&args.driver);
    let scratch = if args.scratch.is_empty() { std::env::temp_dir().join("nv-c18-scratch").to_string_lossy().to_string() } else { args.scratch.clone() };

    if let Some(path) = &args.replay {
        let v: Value = serde_json::from_str(&std::fs::read_to_string(path).expect("replay file")).expect("replay json");
        let c = &v["case"];
        if c.get("render").is_some() {
            replay_render(&mut rep, &mut drv, &c["render"]);
        } else {
            let mut ctx = Ctx { rep: &mut rep, drv: &mut drv, cli, scratch, counter: 0, classes: Default::default() };
            ctx.run_case(&Case::from_json(c));
        }
        rep.write(&args);
        return;
    }

    let mut rng = Rng::new(args.seed);
    {
        let mut ctx = Ctx { rep: &mut rep, drv: &mut drv, cli, scratch, counter: 0, classes: Default::default() };
        let corpus = corpus();
        for (i, c) in corpus.iter().enumerate() {
            if i < 2 {
                ctx.rep.sample(json!({"cmds": c.cmds, "faults": c.faults.iter().map(|f| format!("{}@{}", f.kind, f.file)).collect::<Vec<_>>(), "schemaFiles": c.schema_files.len(), "opFiles": c.op_files.len()}));
            }
            ctx.run_case(c);
        }
        let n = args.budget(60, 700);
        for i in 0..n {
            let k = match rng.below(20) {
                0..=4 => 0,
                5..=11 => 1,
                12..=16 => 2,
                _ => 3,
            };
            let (case, feats) = gen_case(&mut rng, k, None);
            for f in &feats {
                ctx.rep.count(&format!("feature:{f}"));
            }
            if i < 4 {
                ctx.rep.sample(json!({"cmds": case.cmds, "faults": case.faults.iter().map(|f| format!("{}:{}@{}", f.kind, f.stage, f.file)).collect::<Vec<_>>(),
                    "schemaFiles": case.schema_files.len(), "opFiles": case.op_files.len(), "mode": case.mode, "blocked": case.blocked}));
            }
            ctx.run_case(&case);
        }
        // projects whose only fault (if any) is context-dependent across #import, so that no other stage masks it
        let n_ctx = args.budget(28, 400);
        for i in 0..n_ctx {
            let (case, feats) = gen_case(&mut rng, 0, Some(i % 4 != 3));
            for f in &feats {
                ctx.rep.count(&format!("feature:{f}"));
            }
            if i < 2 {
                ctx.rep.sample(json!({"cmds": case.cmds, "faults": case.faults.iter().map(|f| format!("{}:{}@{} (or {:?})", f.kind, f.stage, f.file, f.alt)).collect::<Vec<_>>(),
                    "opFiles": case.op_files}));
            }
            ctx.run_case(&case);
        }
    }
    let n_render = args.budget(3000, 40000);
    render_stream(&mut rep, &mut drv, &mut rng, n_render);
    rep.write(&args);
}
