//! C09 — Variables types admit only coercible inputs and every explicit one.
//!
//! The schema reaches the real code by one of the CLI's two routes: SDL text (`nvh::real::with_schema`) or an
//! INTROSPECTION RESULT (`schema: x.json`; `nvh::real::with_schema_json` = reader + built-in scalars +
//! `type_system_to_ast`, every position default), rendered from the same abstract model by the C15 harness' renderer.
//! Per case (schema SDL | JSON × configuration × operation document): the REAL operation declaration text and the REAL
//! schema declaration text are parsed (`nvh::tsparse`); the operation file is linked with the schema file through
//! its `import type * as Schema from …`.
//! K: the parsed `<Op>Variables` alias = the Lean model `VarTypes.varsTs` (tree for tree); and
//!    `Schema.__OperationInput.<Scalar>` of the real schema file = the operation-input text of the model's scalar
//!    table `DeclCfg.scalarTypes` (configuration entry / built-in first, `@nitrogql_ts_type` directive second).
//!    `namespace __OperationInput` of the real schema file = that namespace of the model `SchemaDecls.schemaFile`.
//! O: on the finite abstract value domain (records of variables: exact, one variable dropped / extra / wrong, the
//!    same inside input-object values, bare items for lists, omitted nullable keys) membership in the REAL
//!    `<Op>Variables` type read with the real `__OperationInput` namespace (`ts.table`) is compared with the
//!    specification (`coerce`): admitted ⇒ `Coercible` (soundness), `Explicit_c` ⇒ admitted (completeness).
//! Signatures = (direction, clause).
#[path = "c10/common.rs"]
mod common;
/// the C15 harness' own rendering of the introspection result of a schema model (written against spec §4)
#[allow(dead_code)]
#[path = "c15/json.rs"]
mod ijson;
use common::*;
use nvh::gen::*;
use nvh::gm::*;
use nvh::real::*;
use nvh::render::doc_text;
use nvh::*;
use serde_json::{json, Value};
use std::collections::{BTreeMap, BTreeSet};

#[derive(Clone, Debug)]
struct Case {
    sdl: String,
    cfg: CfgCase,
    doc: String,
    origin: String,
    /// the generator's ABSTRACT schema model (merged, with the built-in scalars): the reference side of the O stream
    /// (Coercible, Explicit_c, value domain) is computed from it, not from the real pipeline's resolved document
    model: Option<TsDoc>,
    model_sdl: Option<String>,
    /// `Some(text)`: the schema is given to the real code as an INTROSPECTION RESULT (`schema: x.json`), loaded the
    /// way the CLI does (`nvh::real::with_schema_json`); `sdl` is then only the readable form of the same schema
    json: Option<String>,
}

fn with_builtin_scalars(doc: &TsDoc) -> TsDoc {
    let mut d = doc.clone();
    for b in BUILTIN_SCALARS {
        if d.type_def(b).is_none() {
            d.items.push(TsItem::TypeDef(TypeDef::new(TypeKind::Scalar, b)));
        }
    }
    d
}

impl Case {
    fn to_json(&self) -> Value {
        json!({"sdl": self.sdl, "cfg": self.cfg.to_json(), "doc": self.doc, "origin": self.origin, "model_sdl": self.model_sdl, "schema_json": self.json})
    }
    fn from_json(v: &Value) -> Case {
        let model_sdl = v["model_sdl"].as_str().map(|s| s.to_string());
        let model = model_sdl.as_ref().and_then(|m| with_schema(&[m.clone()], |resolved, _| from_real_tsdoc(resolved)).ok());
        Case {
            sdl: v["sdl"].as_str().unwrap_or("").to_string(),
            cfg: CfgCase::from_json(&v["cfg"]),
            doc: v["doc"].as_str().unwrap_or("").to_string(),
            origin: v["origin"].as_str().unwrap_or("replay").to_string(),
            model,
            model_sdl,
            json: v["schema_json"].as_str().map(|s| s.to_string()),
        }
    }
}

const CORPUS_SDL: &str = "scalar Date\nenum Color { RED GREEN }\ninput Range { from: Date! to: Date step: [Int!] }\ninput Filter { and: [Filter!] not: Filter color: Color! = RED range: Range tags: [[String]!] }\ntype Query { q(f: Filter, c: Color, ids: [ID!]!, d: Date, n: Int!, m: [[Float!]]): Int }\n";

fn corpus() -> Vec<Case> {
    let doc = "query Q($f: Filter, $g: Filter!, $c: Color, $c2: Color! = GREEN, $ids: [ID!]!, $d: Date, $n: Int!, $n2: Int = 3, $m: [[Float!]], $r: [Range]!) { q(f: $f, c: $c, ids: $ids, d: $d, n: $n, m: $m) }\n";
    let mut out = vec![];
    // minimal: option off, one nullable variable — `{}` must not be admitted
    out.push(Case {
        sdl: "type Query { q(a: Int): Int }\n".into(),
        cfg: CfgCase { scalars: vec![], optional: Some(false), runtime: false },
        doc: "query Q($a: Int) { q(a: $a) }\n".into(),
        origin: "corpus:option-off-nullable-variable".into(),
        model: None,
        model_sdl: None,
        json: None,
    });
    for (i, optional) in [None, Some(true), Some(false)].into_iter().enumerate() {
        for (j, sc) in [
            ScalarCfg::Single("string".into()),
            ScalarCfg::SendReceive { send: "Date | string".into(), receive: "string".into() },
            ScalarCfg::Separate { resolver_output: "Date".into(), resolver_input: "Date".into(), operation_output: "string".into(), operation_input: "number | Date".into() },
        ]
        .into_iter()
        .enumerate()
        {
            out.push(Case { sdl: CORPUS_SDL.into(), cfg: CfgCase { scalars: vec![("Date".into(), sc)], optional, runtime: false }, doc: doc.into(), origin: format!("corpus:matrix:{i}:{j}"), model: None, model_sdl: None, json: None });
        }
    }
    out.push(Case {
        sdl: "scalar D @nitrogql_ts_type(resolverInput: \"Date\", resolverOutput: \"Date\", operationInput: \"Date | string\", operationOutput: \"string\")\ninput In { d: D! ds: [D] }\ntype Query { q(i: In, d: D): Int }\n".into(),
        cfg: CfgCase { scalars: vec![], optional: Some(true), runtime: false },
        doc: "query Q($i: In!, $d: D, $ds: [[D!]!]!) { q(i: $i, d: $d) }\n".to_string(),
        origin: "corpus:directive-scalar".into(),
        model: None,
        model_sdl: None,
        json: None,
    });
    // the two sources of a scalar's TypeScript type (schema directive × configuration entry): where the directive is
    // written × what the configuration says about the same scalar
    let directive = "@nitrogql_ts_type(resolverInput: \"Date\", resolverOutput: \"Date\", operationInput: \"Date | number\", operationOutput: \"number\")";
    let rest = "input Span { from: Stamp! to: Stamp all: [Stamp!] }\ntype Query { q(s: Span, t: Stamp): Int }\n";
    let placements = [
        ("definition", format!("scalar Stamp {directive}\n{rest}")),
        ("extend-after", format!("scalar Stamp\n{rest}extend scalar Stamp {directive}\n")),
        ("extend-before", format!("extend scalar Stamp {directive}\n{rest}scalar Stamp\n")),
    ];
    let entries: [(&str, Option<ScalarCfg>); 5] = [
        ("none", None),
        ("single-differs", Some(ScalarCfg::Single("string".into()))),
        ("send-receive-differs", Some(ScalarCfg::SendReceive { send: "bigint".into(), receive: "Date | number".into() })),
        ("separate-agrees", Some(ScalarCfg::Separate { resolver_output: "Date".into(), resolver_input: "Date".into(), operation_output: "number".into(), operation_input: "Date | number".into() })),
        ("send-receive-agrees-on-operations", Some(ScalarCfg::SendReceive { send: "Date | number".into(), receive: "number".into() })),
    ];
    for (k, (pl, sdl)) in placements.iter().enumerate() {
        for (j, (en, entry)) in entries.iter().enumerate() {
            out.push(Case {
                sdl: sdl.clone(),
                cfg: CfgCase { scalars: entry.iter().map(|c| ("Stamp".to_string(), c.clone())).collect(), optional: [None, Some(true), Some(false)][(k + j) % 3], runtime: false },
                doc: "query Q($t: Stamp!, $ts: [Stamp!], $s: Span, $n: Int) { q(s: $s, t: $t) }\n".into(),
                origin: format!("corpus:scalar-sources:directive-on-{pl}:config-{en}"),
                model: None,
                model_sdl: None,
                json: None,
            });
        }
    }
    // scalar text that clashes with an input type name
    out.push(Case {
        sdl: "scalar S\ninput Range { a: Int }\ntype Query { q(s: S, r: Range): Int }\n".into(),
        cfg: CfgCase { scalars: vec![("S".into(), ScalarCfg::Single("Range".into()))], optional: None, runtime: false },
        doc: "query Q($s: S!, $r: Range!, $rs: [Range!]) { q(s: $s, r: $r) }\n".into(),
        origin: "corpus:clash-input-name".into(),
        model: None,
        model_sdl: None,
        json: None,
    });
    // several input objects / enums / object types that share member names with different types, nullability and
    // list-ness (the same name must keep its own meaning in each type), in both definition orders
    let shared = [
        "enum Status { DRAFT LIVE NONE }",
        "enum Audience { NONE EVERYONE STAFF }",
        "input NewItem { label: String! note: String! tags: [String!]! status: Status! parent: ID, rank: Int! = 1 }",
        "input ItemPatch { label: String note: [String] tags: [String] status: Status parent: [ID!] audience: Audience rank: [Int!] }",
        "input ItemQuery { label: [String!] status: [Status!]! tags: String parent: ItemQuery audience: Audience! note: Boolean! }",
        "type Item { id: ID! label: String! tags: [String!]! status: Status! }",
        "type Sketch { id: ID label: [String] tags: String status: Audience }",
        "type Query { items(q: ItemQuery): [Item!]! sketch: Sketch }",
        "type Mutation { create(input: NewItem!): Item update(id: ID!, input: ItemPatch!): Item }",
    ];
    let doc = "mutation Make($a: NewItem!, $s: Status) { create(input: $a) { id } }\nmutation Change($b: ItemPatch!, $bs: [ItemPatch!], $v: Audience!) { update(id: \"1\", input: $b) { id } }\nquery Find($c: ItemQuery, $cs: [[ItemQuery]!]!) { items(q: $c) { id } }\n";
    for (k, order) in ["forward", "reverse"].iter().enumerate() {
        let mut lines: Vec<&str> = shared.to_vec();
        if k == 1 {
            lines.reverse();
        }
        out.push(Case {
            sdl: lines.join("\n") + "\n",
            cfg: CfgCase { scalars: vec![], optional: [Some(true), Some(false)][k], runtime: false },
            doc: doc.into(),
            origin: format!("corpus:shared-member-names:{order}"),
            model: None,
            model_sdl: None,
            json: None,
        });
    }
    // every corpus schema that an introspection result can express is ALSO given as introspection JSON
    let twins: Vec<Case> = out.iter().filter_map(json_twin).collect();
    out.extend(twins);
    out
}

const BUILTIN_DIRECTIVES: [&str; 5] = ["skip", "include", "deprecated", "specifiedBy", "nitrogql_ts_type"];

/// the abstract model of an SDL text: the real front end's resolved document without the built-in items
fn model_of_sdl(sdl: &str) -> Option<SchemaModel> {
    let doc = with_schema(&[sdl.to_string()], |resolved, _| from_real_tsdoc(resolved)).ok()?;
    let items: Vec<TsItem> = doc
        .items
        .into_iter()
        .filter(|i| match i {
            TsItem::TypeDef(t) => !(BUILTIN_SCALARS.contains(&t.name.as_str()) || t.name.starts_with("__")),
            TsItem::DirectiveDef(d) => !BUILTIN_DIRECTIVES.contains(&d.name.as_str()),
            _ => true,
        })
        .collect();
    Some(SchemaModel { doc: TsDoc { items }, query: "Query".into(), mutation: None, subscription: None })
}

/// the same case with the schema given as an introspection result. An introspection result carries no applied
/// directives, so `@nitrogql_ts_type` is unknown on that route: the twin exists only when every custom scalar has a
/// configuration entry.
fn json_twin(case: &Case) -> Option<Case> {
    let m = model_of_sdl(&case.sdl)?;
    if m.types().any(|t| t.kind == TypeKind::Scalar && !case.cfg.scalars.iter().any(|(n, _)| *n == t.name)) {
        return None;
    }
    let text = serde_json::to_string(&ijson::introspection_json(&m)).ok()?;
    Some(Case { json: Some(text), origin: format!("{}:introspection-json", case.origin), model_sdl: Some(case.sdl.clone()), model: Some(with_builtin_scalars(&m.doc)), ..case.clone() })
}

fn wrap_random(rng: &mut Rng, base: &str) -> String {
    let mut t = base.to_string();
    if rng.chance(2, 5) {
        t.push('!');
    }
    let depth = [0, 0, 1, 1, 2, 3][rng.below(6)];
    for _ in 0..depth {
        t = format!("[{t}]");
        if rng.chance(2, 5) {
            t.push('!');
        }
    }
    t
}

/// The TypeScript type of a scalar has TWO sources: the `generate.type.scalarTypes` entry of the configuration and
/// the `@nitrogql_ts_type` directive of the schema (what the graphql-scalars plugin emits). `gen_schema` (flag
/// `ts_type_directive`) gives some custom scalars a directive and `gen_project_cfg` gives every custom scalar a config
/// entry; this mixes the two sources per scalar: directive only / both with independent texts (mostly disagreeing) /
/// both agreeing (same four texts; or agreeing on the operation side through the send/receive split) / both with the
/// directive's operation texts swapped / both with a single text that differs from the directive's operationInput.
/// Scalars without a directive keep their config entry (config only).
fn mix_scalar_sources(rng: &mut Rng, schema: &SchemaModel, pc: &mut ProjectCfg) {
    let pool = ["string", "number", "Date", "bigint", "string | number", "{ readonly raw: string }"];
    for (n, d) in directive_scalars(&schema.doc) {
        let Some(pos) = pc.scalars.iter().position(|(m, _)| *m == n) else {
            continue;
        };
        let (d_oi, d_oo) = (CfgCase::text_for(&d, "oi"), CfgCase::text_for(&d, "oo"));
        match rng.below(10) {
            0 | 1 | 2 => {
                pc.scalars.remove(pos);
            }
            3 => pc.scalars[pos].1 = d.clone(),
            4 => pc.scalars[pos].1 = ScalarCfg::SendReceive { send: d_oi, receive: d_oo },
            5 => pc.scalars[pos].1 = ScalarCfg::SendReceive { send: d_oo, receive: d_oi },
            6 => {
                let others: Vec<&str> = pool.iter().copied().filter(|t| *t != d_oi).collect();
                pc.scalars[pos].1 = ScalarCfg::Single(others[rng.below(others.len())].to_string());
            }
            _ => {}
        }
    }
}

/// move the `@nitrogql_ts_type` directive of some scalar definitions to an `extend scalar N @nitrogql_ts_type(…)`
/// item at a random place of the document (before or after the definition) — the form the graphql-scalars plugin
/// writes; the merged meaning is the same
fn ts_type_to_extension(rng: &mut Rng, doc: &TsDoc) -> (TsDoc, bool) {
    let mut items = vec![];
    let mut exts = vec![];
    for it in &doc.items {
        match it {
            TsItem::TypeDef(t) if t.kind == TypeKind::Scalar && t.dirs.iter().any(|d| d.name == "nitrogql_ts_type") && rng.coin() => {
                let mut base = t.clone();
                let mut ext = TypeDef::new(TypeKind::Scalar, &t.name);
                let (moved, kept): (Vec<Dir>, Vec<Dir>) = base.dirs.drain(..).partition(|d| d.name == "nitrogql_ts_type");
                base.dirs = kept;
                ext.dirs = moved;
                items.push(TsItem::TypeDef(base));
                exts.push(TsItem::TypeExt(ext));
            }
            other => items.push(other.clone()),
        }
    }
    let moved = !exts.is_empty();
    for e in exts {
        let at = rng.below(items.len() + 1);
        items.insert(at, e);
    }
    (TsDoc { items }, moved)
}

/// more `@nitrogql_ts_type` directives than `gen_schema` writes (there: one custom scalar in two): some of the remaining
/// custom scalars get one too, with texts of further shapes (object type, union of primitives)
fn more_ts_type_directives(rng: &mut Rng, schema: &mut SchemaModel) {
    let pool = ["string", "number", "Date", "bigint", "string | number", "{ readonly raw: string }", "Date | string"];
    for it in schema.doc.items.iter_mut() {
        if let TsItem::TypeDef(t) = it {
            if t.kind == TypeKind::Scalar && !t.dirs.iter().any(|d| d.name == "nitrogql_ts_type") && rng.chance(2, 5) {
                let args = ["resolverInput", "resolverOutput", "operationInput", "operationOutput"].iter().map(|k| Arg::new(k, Val::Str(pool[rng.below(pool.len())].to_string(), P::default()))).collect();
                t.dirs.push(Dir::new("nitrogql_ts_type", args));
            }
        }
    }
}

/// Members of DIFFERENT types that share a name but not a meaning: an enum value name common to two enums; (only for
/// crafted operations, which select no fields) a field name common to two object types with different types. Input
/// objects already share field names with independently drawn types (`gen_schema` names input fields by index).
fn share_member_names(rng: &mut Rng, schema: &mut SchemaModel, objects_too: bool) {
    let value = ["NONE", "OTHER", "UNKNOWN"][rng.below(3)];
    let mut obj_k = 0;
    for it in schema.doc.items.iter_mut() {
        let TsItem::TypeDef(t) = it else {
            continue;
        };
        match t.kind {
            TypeKind::Enum if rng.chance(2, 3) => {
                let at = rng.below(t.values.len() + 1);
                t.values.insert(at, EnumValueDef { desc: None, name: value.to_string(), pos: P::default(), dirs: vec![] });
            }
            TypeKind::Object if objects_too && rng.coin() => {
                let ty = [Ty::non_null(Ty::named("String")), Ty::list(Ty::named("Int")), Ty::named("Boolean"), Ty::non_null(Ty::list(Ty::non_null(Ty::named("ID"))))][obj_k % 4].clone();
                obj_k += 1 + rng.below(2);
                t.fields.push(FieldDef { desc: None, name: "label".into(), pos: P::default(), args: vec![], ty, dirs: vec![] });
            }
            _ => {}
        }
    }
}

fn generated(rng: &mut Rng, i: usize) -> Case {
    // two cases in five give the schema as an introspection result (`schema: x.json`). Documented differences of that
    // route respected here: applied directives do not exist in an introspection result, so `@nitrogql_ts_type` is not
    // written and every custom scalar keeps its configuration entry
    let json_route = i % 5 == 1 || i % 5 == 3;
    let crafted = i % 2 == 1;
    let cfg = GenCfg { hostile_text: false, coercions: false, ts_type_directive: !json_route, ..GenCfg::default() };
    let mut schema = gen_schema(rng, &cfg);
    share_member_names(rng, &mut schema, crafted);
    if !json_route {
        more_ts_type_directives(rng, &mut schema);
    }
    let mut pc = gen_project_cfg(rng, &schema, i % 4 == 0);
    if !json_route {
        mix_scalar_sources(rng, &schema, &mut pc);
    }
    let (doc, origin) = if !crafted {
        let (d, _) = gen_doc(rng, &schema, &cfg);
        (doc_text(&d), format!("generated:{i}:gen_doc"))
    } else {
        // crafted: variables of every wrapper shape over the input types of the schema
        let mut inputs: Vec<String> = BUILTIN_SCALARS.iter().map(|s| s.to_string()).collect();
        inputs.extend(schema.types().filter(|t| matches!(t.kind, TypeKind::Scalar | TypeKind::Enum | TypeKind::Input)).map(|t| t.name.clone()));
        let n = 1 + rng.below(5);
        let mut vars = vec![];
        let with_directive: Vec<String> = directive_scalars(&schema.doc).into_keys().collect();
        let input_objects: Vec<String> = schema.names_of_kind(TypeKind::Input);
        for k in 0..n {
            // the first variable is often of a scalar whose type also comes from the schema (directive), the second
            // often of an input-object type
            let base = if k == 0 && !with_directive.is_empty() && rng.coin() {
                with_directive[rng.below(with_directive.len())].clone()
            } else if k <= 1 && !input_objects.is_empty() && rng.coin() {
                input_objects[rng.below(input_objects.len())].clone()
            } else {
                inputs[rng.below(inputs.len())].clone()
            };
            let ty = wrap_random(rng, &base);
            let default = if !ty.ends_with('!') && rng.chance(1, 5) { " = null" } else { "" };
            vars.push(format!("$v{k}: {ty}{default}"));
        }
        (format!("query Crafted{i}({}) {{ __typename }}\n", vars.join(", ")), format!("generated:{i}:crafted"))
    };
    let mut origin = origin;
    if json_route {
        origin.push_str(":introspection-json");
        let text = serde_json::to_string(&ijson::introspection_json(&schema)).expect("json text");
        return Case { sdl: schema.sdl(), cfg: CfgCase::from_project(&pc), doc, origin, model: Some(with_builtin_scalars(&schema.doc)), model_sdl: Some(schema.sdl()), json: Some(text) };
    }
    let written = if i % 3 == 1 {
        origin.push_str(":extensions");
        split_into_extensions(rng, &schema)
    } else {
        schema.doc.clone()
    };
    let (written, moved) = ts_type_to_extension(rng, &written);
    if moved {
        origin.push_str(":ts_type-on-extend-scalar");
    }
    let sdl = nvh::render::tsdoc_text(&written);
    Case { sdl, cfg: CfgCase::from_project(&pc), doc, origin, model: Some(with_builtin_scalars(&schema.doc)), model_sdl: Some(schema.sdl()), json: None }
}

fn capitalize(s: &str) -> String {
    let mut c = s.chars();
    match c.next() {
        Some(f) => f.to_uppercase().collect::<String>() + c.as_str(),
        None => String::new(),
    }
}

/// the right-hand side of the alias a namespace of the schema declaration file exports under `name` (directly, or
/// under a local name through `export type { local as name }`)
fn namespace_alias<'a>(file: &'a Sexp, ns: &str, name: &str) -> Option<&'a Sexp> {
    let body = file.args().iter().find(|s| s.head() == Some("namespace") && s.args().get(1).and_then(|n| n.as_str()) == Some(ns))?.args().get(2)?;
    let stmts = body.as_list()?;
    let mut local = name.to_string();
    for s in stmts {
        if s.head() == Some("exportlist") {
            for pair in s.args().get(1).and_then(|p| p.as_list()).map(|p| p.to_vec()).unwrap_or_default() {
                if let Some([l, e]) = pair.as_list().map(|p| [p.first().and_then(|x| x.as_str()), p.get(1).and_then(|x| x.as_str())]) {
                    if e == Some(name) {
                        local = l.unwrap_or(name).to_string();
                    }
                }
            }
        }
    }
    stmts.iter().find(|s| s.head() == Some("type") && s.args().get(1).and_then(|n| n.as_str()) == Some(local.as_str())).and_then(|s| s.args().get(3))
}

fn run_case(rep: &mut Report, drv: &mut Driver, case: &Case) {
    rep.evaluations += 1;
    let yaml = case.cfg.yaml();
    let config = match parse_config_text(&yaml) {
        Ok(Some(c)) => c,
        other => {
            rep.notes.push(format!("config rejected ({other:?}) for {}", case.origin));
            return;
        }
    };
    let doc_text_ = case.doc.clone();
    let stages = |resolved: &nitrogql_ast::TypeSystemDocument, s: &graphql_type_system::Schema<std::borrow::Cow<str>, nitrogql_ast::base::Pos>| {
        let op = with_operation(s, &doc_text_, 1, |d, diags| (from_real_doc(d), diags, print_operation_types(s, d, &config)));
        (from_real_tsdoc(resolved), print_schema_types(resolved, &config), op)
    };
    let r = match &case.json {
        Some(text) => {
            rep.count("route:introspection-json");
            with_schema_json(text, stages)
        }
        None => {
            rep.count("route:sdl");
            with_schema(&[case.sdl.clone()], stages)
        }
    };
    let (tsdoc, schema_text, op) = match r {
        Ok(x) => x,
        Err(e) => {
            rep.count("schema-not-accepted");
            if case.origin.starts_with("corpus") {
                rep.notes.push(format!("{}: schema not accepted: {e:?}", case.origin));
            }
            return;
        }
    };
    let (doc, diags, op_text) = match op {
        Ok(x) => x,
        Err(e) => {
            rep.count("operation-not-parsed");
            if case.origin.starts_with("corpus") {
                rep.notes.push(format!("{}: operation stage failed: {e:?}", case.origin));
            }
            return;
        }
    };
    if !diags.is_empty() {
        rep.count("operation-not-accepted");
        if case.origin.starts_with("corpus") {
            rep.notes.push(format!("{}: operation not accepted: {diags:?}", case.origin));
        }
        return;
    }
    let (Ok(schema_text), Ok(op_text)) = (schema_text, op_text) else {
        rep.count("printer-failed");
        return;
    };
    let (schema_tree, op_tree) = match (tsparse::parse_file(&schema_text), tsparse::parse_file(&op_text)) {
        (Ok(a), Ok(b)) => (a, b),
        (a, b) => {
            rep.o_cases += 1;
            rep.fail("O", "wellformed:emitted-file", &format!("an emitted file is not well-formed TypeScript: schema {:?} operation {:?}", a.err().map(|e| e.msg), b.err().map(|e| e.msg)), case.to_json());
            return;
        }
    };
    let dir_texts: Vec<String> = directive_scalars(&tsdoc).values().flat_map(CfgCase::texts_of).collect();
    let cfg_sexp = match case.cfg.to_sexp(&dir_texts) {
        Ok(s) => s,
        Err(e) => {
            rep.notes.push(e);
            return;
        }
    };
    // ---- K: the scalar table. `Schema.__OperationInput.<Scalar>` of the REAL schema declaration file = the text the
    // model's `get_scalar_types` (config entry / built-in first, `@nitrogql_ts_type` directive second) selects for the
    // operation-input target, for every scalar definition of the real resolved document
    let mut two_sources_differ: BTreeSet<String> = BTreeSet::new();
    {
        let directives = directive_scalars(&tsdoc);
        let table = drv.one(&Sexp::call("scalar.table", vec![cfg_sexp.clone(), strip_pos(&tsdoc.to_sexp())]));
        rep.k_cases += 1;
        if table.head() != Some("ok") {
            rep.fail("K", "driver", &format!("driver answers: {}", table.to_line().chars().take(200).collect::<String>()), case.to_json());
        } else {
            let model_oi: BTreeMap<String, String> = table.args().iter().filter_map(|r| Some((r.as_list()?.first()?.as_str()?.to_string(), r.as_list()?.get(4)?.as_str()?.to_string()))).collect();
            for it in &tsdoc.items {
                let TsItem::TypeDef(t) = it else {
                    continue;
                };
                if t.kind != TypeKind::Scalar {
                    continue;
                }
                let configured = case.cfg.scalars.iter().find(|(n, _)| *n == t.name).map(|(_, c)| c);
                let source = match (configured, directives.get(&t.name)) {
                    (Some(c), Some(d)) => {
                        if CfgCase::text_for(c, "oi") == CfgCase::text_for(d, "oi") {
                            "config-entry+directive:same-operationInput"
                        } else {
                            two_sources_differ.insert(t.name.clone());
                            "config-entry+directive:different-operationInput"
                        }
                    }
                    (Some(_), None) => "config-entry-only",
                    (None, Some(_)) if BUILTIN_SCALARS.contains(&t.name.as_str()) => "built-in+directive",
                    (None, Some(_)) => "directive-only",
                    (None, None) => "built-in",
                };
                rep.count(&format!("feature:scalar-type-source:{source}"));
                let real = namespace_alias(&schema_tree, "__OperationInput", &t.name);
                match (model_oi.get(&t.name), real) {
                    (Some(text), Some(real)) => {
                        if tsparse::parse_type(text).ok().as_ref() != Some(real) {
                            rep.fail("K", "scalar-table:operation-input", &format!("Schema.__OperationInput.{} is {} in the real schema file, the model's scalar table says {text:?} [{source}]", t.name, real.to_line()), case.to_json());
                        }
                    }
                    (None, None) => {}
                    (m, r) => rep.fail("K", "scalar-table:presence", &format!("scalar {}: model has a type: {}, real schema file declares it: {} [{source}]", t.name, m.is_some(), r.is_some()), case.to_json()),
                }
            }
        }
    }
    // ---- K: `namespace __OperationInput` of the REAL schema declaration file = the same namespace of the model
    // `SchemaDecls.schemaFile` on the document the printer was given (tree for tree). The model knows no source
    // positions: it must agree whether the document was parsed from SDL or synthesised from an introspection result.
    {
        let model = drv.one(&Sexp::call("decls.schema", vec![cfg_sexp.clone(), strip_pos(&tsdoc.to_sexp())]));
        rep.k_cases += 1;
        let ns = |file: &Sexp| file.args().iter().find(|s| s.head() == Some("namespace") && s.args().get(1).and_then(|n| n.as_str()) == Some("__OperationInput")).and_then(|s| s.args().get(2).cloned());
        if model.head() != Some("ok") {
            rep.fail("K", "schema-file:error-outcome", &format!("code printed a schema declaration file; model: {}", model.to_line().chars().take(200).collect::<String>()), case.to_json());
        } else {
            match (ns(&model.args()[0]), ns(&normalise_docs(&schema_tree))) {
                (Some(m), Some(r)) => {
                    if m != r {
                        let d = first_diff(&m, &r, &mut vec![]).unwrap_or_default();
                        rep.fail("K", &format!("schema-file:operation-input-namespace:{}", diff_kind(&m, &r)), &format!("namespace __OperationInput differs (model vs code) at {d}"), case.to_json());
                    }
                }
                (m, r) => rep.fail("K", "schema-file:operation-input-namespace:missing", &format!("namespace __OperationInput present: model {}, code {}", m.is_some(), r.is_some()), case.to_json()),
            }
        }
    }
    // reference side: the generator's abstract model when the case has one
    let ref_doc: TsDoc = case.model.clone().unwrap_or_else(|| tsdoc.clone());
    let doc_sexp = strip_pos(&ref_doc.to_sexp());
    rep.count(if case.model.is_some() { "reference:abstract-model" } else { "reference:real-resolved-document(corpus text)" });
    if case.origin.contains(":extensions") {
        rep.count("feature:schema-written-with-extensions");
    }
    if case.origin.contains("ts_type-on-extend-scalar") || case.origin.contains("directive-on-extend") {
        rep.count("feature:nitrogql_ts_type-on-extend-scalar");
    }
    let tsdoc = ref_doc;
    // input objects that have a field whose NAME another input object also has with a different type
    let mut name_clash_inputs: BTreeSet<String> = BTreeSet::new();
    {
        let inputs: Vec<&TypeDef> = tsdoc.items.iter().filter_map(|i| if let TsItem::TypeDef(t) = i { Some(t) } else { None }).filter(|t| t.kind == TypeKind::Input).collect();
        for a in &inputs {
            for b in &inputs {
                if a.name != b.name && a.inputs.iter().any(|f| b.inputs.iter().any(|g| g.name == f.name && g.ty.text() != f.ty.text())) {
                    name_clash_inputs.insert(a.name.clone());
                }
            }
        }
        if !name_clash_inputs.is_empty() {
            rep.count("feature:input-objects-share-a-field-name-with-different-types");
        }
        let enums: Vec<&TypeDef> = tsdoc.items.iter().filter_map(|i| if let TsItem::TypeDef(t) = i { Some(t) } else { None }).filter(|t| t.kind == TypeKind::Enum && !t.name.starts_with("__")).collect();
        if enums.iter().any(|a| enums.iter().any(|b| a.name != b.name && a.values.iter().any(|v| b.values.iter().any(|w| w.name == v.name)))) {
            rep.count("feature:enums-share-a-value-name");
        }
    }
    // module specifier of the schema import
    let schema_module = op_tree
        .args()
        .iter()
        .find_map(|s| if s.head() == Some("import") && s.args()[2] == Sexp::call("star", vec![Sexp::str("Schema")]) { s.args()[0].as_str().map(|x| x.to_string()) } else { None })
        .unwrap_or_default();
    let mods = Sexp::call("mods", vec![Sexp::list(vec![Sexp::str(schema_module.as_str()), schema_tree.clone()])]);
    // sample values of scalars
    let eff = effective_scalars(&case.cfg, &tsdoc);
    let mut texts: BTreeSet<String> = BTreeSet::new();
    for c in eff.values() {
        texts.extend(CfgCase::texts_of(c));
    }
    // the texts of the `@nitrogql_ts_type` directives also when a configuration entry overrides them: their opaque
    // atoms (`Date`, `bigint`, …) join the value domain, so that a Variables type built from the WRONG source of a
    // scalar's type admits a value the configured coercion rejects
    texts.extend(dir_texts.iter().cloned());
    let texts: Vec<String> = texts.into_iter().collect();
    let empty_file = Sexp::call("tsfile", vec![]);
    let no_mods = Sexp::call("mods", vec![]);
    let mut parsed: BTreeMap<String, Sexp> = BTreeMap::new();
    let mut reqs = vec![];
    for t in &texts {
        let p = tsparse::parse_type(t).expect("parsed above");
        reqs.push(Sexp::call("ts.atoms", vec![empty_file.clone(), no_mods.clone(), Sexp::list(vec![]), p.clone()]));
        parsed.insert(t.clone(), p);
    }
    let tag_ans = drv.batch(&reqs);
    let mut tags_of: BTreeMap<String, Vec<String>> = BTreeMap::new();
    let mut all_tags: BTreeSet<String> = BTreeSet::new();
    for (t, a) in texts.iter().zip(tag_ans.iter()) {
        let tags: Vec<String> = a.args().iter().filter_map(|s| s.as_str().map(|x| x.to_string())).collect();
        all_tags.extend(tags.iter().cloned());
        tags_of.insert(t.clone(), tags);
    }
    let mut scalar_sample = BTreeMap::new();
    for (n, c) in &eff {
        for (tg, _) in TARGETS {
            let text = CfgCase::text_for(c, tg);
            scalar_sample.insert((n.clone(), tg.to_string()), sample_of_ts(&parsed[&text], &tags_of[&text]));
        }
    }
    // scalar INPUT texts that admit null or undefined (e.g. `unknown`): a degenerate mapping — the statement's
    // "non-null variables are never null / required" cannot hold for them by the user's own configuration (and the
    // semantics identifies a missing key with `undefined`); operations that reach such a scalar are outside the
    // O domain (the theorems carry the same side condition: hnull / habs)
    let mut degenerate_scalars: BTreeSet<String> = BTreeSet::new();
    {
        let probe = Sexp::list(vec![J::Null.to_sexp(), J::Absent.to_sexp()]);
        let names: Vec<&String> = eff.keys().collect();
        let qs: Vec<Sexp> = names.iter().map(|n| Sexp::list(vec![Sexp::list(vec![]), parsed[&CfgCase::text_for(&eff[*n], "oi")].clone()])).collect();
        let a = drv.one(&Sexp::call("ts.table", vec![empty_file.clone(), no_mods.clone(), probe, Sexp::list(qs)]));
        for (n, row) in names.iter().zip(a.args().iter()) {
            if row.as_list().map_or(false, |r| r.iter().any(|b| b.as_atom() == Some("true"))) {
                degenerate_scalars.insert((*n).clone());
            }
        }
    }
    let view = SchemaView { doc: &tsdoc, scalar_sample, optional: case.cfg.optional.unwrap_or(true) };
    let tags: Vec<String> = all_tags.into_iter().collect();
    let base = base_values(&view, &tags);

    for def in &doc.defs {
        let ExecDef::Op(o) = def else {
            continue;
        };
        let alias = format!("{}Variables", o.name.as_ref().map(|n| capitalize(&n.0)).unwrap_or_default());
        let real_ty = op_tree.args().iter().find(|s| s.head() == Some("type") && s.args()[1].as_str() == Some(alias.as_str())).map(|s| s.args()[3].clone());
        rep.k_cases += 1;
        let vardefs = Sexp::list(o.vars.iter().map(|v| strip_pos(&v.to_sexp())).collect());
        // ---- features
        rep.count(&format!("feature:variables:{}", o.vars.len().min(6)));
        for v in &o.vars {
            let kind = tsdoc.type_def(v.ty.unwrapped()).map(|t| t.kind.as_str()).unwrap_or("?");
            let depth = v.ty.text().matches('[').count();
            rep.count(&format!("feature:var-kind:{kind}"));
            rep.count(&format!("feature:var-list-depth:{depth}"));
            rep.count(&format!("feature:var-{}{}", if v.ty.is_non_null() { "non-null" } else { "nullable" }, if v.default.is_some() { "+default" } else { "" }));
        }
        // ---- K
        let model = drv.one(&Sexp::call("vars.ts", vec![cfg_sexp.clone(), vardefs.clone()]));
        let Some(real_ty) = real_ty else {
            rep.fail("K", "variables:alias-missing", &format!("no alias {alias} in the operation declaration file"), case.to_json());
            continue;
        };
        if model.head() != Some("ok") || model.args()[0] != real_ty {
            let d = if model.head() == Some("ok") { first_diff(&model.args()[0], &real_ty, &mut vec![]).unwrap_or_default() } else { model.to_line() };
            rep.fail("K", "variables:tree", &format!("{alias} differs (model vs code) at {d}"), case.to_json());
        }
        if o.vars.is_empty() {
            continue;
        }
        // scalars reachable from the variable types (through input objects)
        let mut reach: BTreeSet<String> = BTreeSet::new();
        let mut todo: Vec<String> = o.vars.iter().map(|v| v.ty.unwrapped().to_string()).collect();
        while let Some(n) = todo.pop() {
            if !reach.insert(n.clone()) {
                continue;
            }
            if let Some(t) = tsdoc.type_def(&n) {
                for f in &t.inputs {
                    todo.push(f.ty.unwrapped().to_string());
                }
            }
        }
        if reach.iter().any(|n| degenerate_scalars.contains(n)) {
            rep.count("outside-O-domain:scalar-input-text-admits-null-or-undefined");
            continue;
        }
        if reach.iter().any(|n| name_clash_inputs.contains(n)) {
            rep.count(if case.json.is_some() { "feature:variables-reach-input-object-sharing-a-field-name:introspection-json" } else { "feature:variables-reach-input-object-sharing-a-field-name:sdl" });
        }
        if reach.iter().any(|n| two_sources_differ.contains(n)) {
            rep.count("feature:variables-reach-scalar-with-config-entry-and-different-directive");
        }
        // ---- O: value domain
        let mut values: Vec<(String, J)> = base.clone();
        values.push(("empty-record".into(), J::Obj(vec![])));
        let full: Option<Vec<(String, J)>> = o.vars.iter().map(|v| view.sample_ty("oi", &v.ty, 0, true).map(|x| (v.name.clone(), x))).collect();
        let minimal: Option<Vec<(String, J)>> = o.vars.iter().map(|v| view.sample_ty("oi", &v.ty, 0, false).map(|x| (v.name.clone(), x))).collect();
        if let Some(full) = &full {
            let rec = J::Obj(full.clone());
            record_mutations("variables", &rec, &mut values);
            // every nullable variable omitted at once / only non-null ones
            let nullable: BTreeSet<String> = o.vars.iter().filter(|v| !v.ty.is_non_null()).map(|v| v.name.clone()).collect();
            values.push(("variables:all-nullable-omitted".into(), J::Obj(full.iter().filter(|(k, _)| !nullable.contains(k)).cloned().collect())));
            let with_default: BTreeSet<String> = o.vars.iter().filter(|v| v.default.is_some()).map(|v| v.name.clone()).collect();
            values.push(("variables:all-defaulted-omitted".into(), J::Obj(full.iter().filter(|(k, _)| !with_default.contains(k)).cloned().collect())));
            // per variable: each base value, bare item for a list, mutations inside input objects / lists of them
            for (i, v) in o.vars.iter().enumerate() {
                for (l, b) in &base {
                    let mut m = full.clone();
                    m[i].1 = b.clone();
                    values.push((format!("variable-value:{l}"), J::Obj(m)));
                    let mut m = full.clone();
                    m[i].1 = J::Arr(vec![b.clone()]);
                    values.push((format!("variable-value:list-of-{l}"), J::Obj(m)));
                }
                // bare item offered for a list type (coercible, not explicit)
                if let Some(item) = view.sample_named("oi", v.ty.unwrapped(), 0, true) {
                    let mut m = full.clone();
                    m[i].1 = item.clone();
                    values.push(("variable-value:bare-item".into(), J::Obj(m)));
                    let mut inner = vec![];
                    record_mutations("input-field", &item, &mut inner);
                    for (l, x) in inner {
                        // re-wrap to the variable's list depth
                        let depth = v.ty.text().matches('[').count();
                        let mut w = x;
                        for _ in 0..depth {
                            w = J::Arr(vec![w]);
                        }
                        let mut m = full.clone();
                        m[i].1 = w;
                        values.push((l, J::Obj(m)));
                    }
                }
            }
        }
        if let Some(min) = &minimal {
            values.push(("variables:minimal".into(), J::Obj(min.clone())));
        }
        let values = dedup(values);
        let vals_sexp = Sexp::list(values.iter().map(|(_, v)| v.to_sexp()).collect());
        let ans = drv.batch(&[
            Sexp::call("ts.table", vec![op_tree.clone(), mods.clone(), vals_sexp.clone(), Sexp::list(vec![Sexp::list(vec![Sexp::list(vec![]), Sexp::call("ref", vec![Sexp::str(alias.as_str())])])])]),
            Sexp::call("coerce", vec![cfg_sexp.clone(), doc_sexp.clone(), vardefs.clone(), vals_sexp]),
        ]);
        if ans[0].head() != Some("ok") || ans[1].head() != Some("ok") {
            rep.fail("K", "driver", &format!("driver answers: {} / {}", ans[0].to_line().chars().take(200).collect::<String>(), ans[1].to_line().chars().take(200).collect::<String>()), case.to_json());
            continue;
        }
        rep.o_cases += 1;
        let tsr = ans[0].args()[0].as_list().unwrap();
        let coer = ans[1].args()[0].as_list().unwrap();
        let expl = ans[1].args()[1].as_list().unwrap();
        let expl_on = ans[1].args()[2].as_list().unwrap();
        let expl_off = ans[1].args()[3].as_list().unwrap();
        let (mut n_ts, mut n_expl, mut n_coer) = (0u64, 0u64, 0u64);
        for (vi, (label, v)) in values.iter().enumerate() {
            rep.evaluations += 1;
            let in_ts = tsr[vi].as_atom() == Some("true");
            let in_coer = coer[vi].as_atom() == Some("true");
            let in_expl = expl[vi].as_atom() == Some("true");
            n_ts += in_ts as u64;
            n_expl += in_expl as u64;
            n_coer += in_coer as u64;
            let clause = label.split(':').next().unwrap_or("").to_string();
            if in_ts && !in_coer {
                rep.fail("O", &format!("sound:{clause}"), &format!("[{label}] {alias} admits {} but variable coercion rejects it", v.text()), case.to_json());
            }
            if in_expl && !in_ts {
                rep.fail("O", &format!("complete:{clause}"), &format!("[{label}] {alias} rejects the explicit coercible assignment {}", v.text()), case.to_json());
            }
            // "nullable ones may be omitted exactly when the option is on": an assignment that is explicit only
            // thanks to omissions (explicit with the option on, not with it off) is admitted iff the option is on
            let with_omission = expl_on[vi].as_atom() == Some("true") && expl_off[vi].as_atom() != Some("true");
            if with_omission && in_ts != view.optional {
                rep.fail(
                    "O",
                    &format!("optional-iff:{clause}"),
                    &format!("[{label}] allowUndefinedAsOptionalInput is {}: {alias} {} {} (an explicit assignment that omits nullable keys)", if view.optional { "on" } else { "off" }, if in_ts { "admits" } else { "rejects" }, v.text()),
                    case.to_json(),
                );
            }
            if in_expl && !in_coer {
                rep.fail("K", "spec:explicit-not-coercible", &format!("[{label}] the specification is inconsistent on {}", v.text()), case.to_json());
            }
        }
        rep.count_n("domain:values", values.len() as u64);
        rep.count_n("domain:admitted-by-ts", n_ts);
        rep.count_n("domain:explicit", n_expl);
        rep.count_n("domain:coercible", n_coer);
        if full.is_none() {
            rep.count("operation-without-finite-sample");
        }
        let nontrivial = o.vars.iter().any(|v| v.ty.text().contains('[')) && o.vars.iter().any(|v| tsdoc.type_def(v.ty.unwrapped()).map_or(false, |t| matches!(t.kind, TypeKind::Input | TypeKind::Enum)));
        if nontrivial {
            rep.nontrivial(&format!("{}|{}|{}|{}", if case.json.is_some() { "json" } else { "sdl" }, case.sdl, case.cfg.to_json(), o.vars.iter().map(|v| format!("{}:{}", v.name, v.ty.text())).collect::<Vec<_>>().join(",")));
        }
        rep.sample(json!({"origin": case.origin, "alias": alias, "variables": o.vars.iter().map(|v| format!("${}: {}", v.name, v.ty.text())).collect::<Vec<_>>(), "values": values.len(), "admitted": n_ts, "explicit": n_expl, "coercible": n_coer}));
    }
    rep.count(&format!("feature:allowUndefinedAsOptionalInput:{:?}", case.cfg.optional));
}

fn main() {
    quiet_panics();
    let args = Args::parse();
    let mut rep = Report::new("C09", "operation has a list-typed variable and a variable of enum or input-object type; distinct by (SDL, configuration, variable definitions)");
    let mut drv = Driver::spawn(&args.driver);
    if let Some(path) = &args.replay {
        let text = std::fs::read_to_string(path).expect("replay file");
        let v: Value = serde_json::from_str(&text).expect("replay json");
        let case = Case::from_json(&v["case"]);
        run_case(&mut rep, &mut drv, &case);
        rep.write(&args);
        return;
    }
    for c in corpus() {
        rep.count("origin:corpus");
        run_case(&mut rep, &mut drv, &c);
    }
    let mut rng = Rng::new(args.seed ^ 0xC09);
    let boost = if args.extra.get("search").map_or(false, |s| s == "1") { 3 } else { 1 };
    let n = args.budget(60, 800) * boost;
    for i in 0..n {
        let c = generated(&mut rng, i);
        rep.count("origin:generated");
        run_case(&mut rep, &mut drv, &c);
    }
    rep.write(&args);
}
