//! C10 — schema and resolver declaration files describe exactly the schema.
//!
//! Per case (schema SDL × configuration): the REAL `SchemaTypePrinter` / `ResolverTypePrinter` texts are parsed
//! with `nvh::tsparse` (a text that does not parse is an O failure: "emitted file is not well-formed").
//! K: parsed declaration trees (and every JSDoc comment, type-level and field-level) = the Lean model's trees.
//! O: for every exported alias of every namespace (and every top-level alias) membership of every value of the
//!    finite abstract value domain in the REAL parsed declarations (`ts.table`, TS-subset semantics) is compared
//!    with the reference `Ref_t(T)` (`ref.table`); the Resolvers type is checked structurally against the schema AND, for
//!    every object field, [[Args]] = Ref_ResolverInput(args f) and [[Result]] = the resolver result reference of type f,
//!    evaluated in the REAL resolvers file linked with the REAL schema file (`ref.fields`). The reference side is
//!    computed from the generator's ABSTRACT schema model (not from the real pipeline's resolved document).
//! Signatures = (kind, clause, direction).
#[path = "c10/common.rs"]
mod common;
#[path = "c10/delims.rs"]
mod delims;
use common::*;
use nvh::gen::*;
use nvh::gm::*;
use nvh::real::*;
use nvh::*;
use serde_json::{json, Value};
use std::collections::{BTreeMap, BTreeSet};

#[derive(Clone, Debug)]
struct Case {
    sdl: String,
    cfg: CfgCase,
    origin: String,
    /// the generator's ABSTRACT model of the schema (merged, with the built-in scalars): the reference side of the O
    /// streams (Ref_t, value domain) is computed from it, never from the real pipeline's resolved document, so that a
    /// defect upstream of the printers (parsing, extension merging) cannot change both sides equally
    model: Option<TsDoc>,
    /// canonical SDL of the abstract model (for replay files)
    model_sdl: Option<String>,
    /// only the text-level comparisons (well-formedness, K on trees and comments, comments-only oracle, structural
    /// check of `Resolvers`) — the membership tables are skipped (delimiter-text stream: many cheap cases)
    light: bool,
}

fn with_builtin_scalars(doc: &TsDoc) -> TsDoc {
    let mut d = doc.clone();
    for b in BUILTIN_SCALARS {
        if d.type_def(b).is_none() {
            d.items.push(TsItem::TypeDef(TypeDef::new(TypeKind::Scalar, b)));
        }
    }
    d
}

impl Case {
    fn text(sdl: String, cfg: CfgCase, origin: &str) -> Case {
        Case { sdl, cfg, origin: origin.to_string(), model: None, model_sdl: None, light: false }
    }
    fn to_json(&self) -> Value {
        json!({"sdl": self.sdl, "cfg": self.cfg.to_json(), "origin": self.origin, "model_sdl": self.model_sdl, "light": self.light})
    }
    fn from_json(v: &Value) -> Case {
        let model_sdl = v["model_sdl"].as_str().map(|s| s.to_string());
        // replay: the abstract model is re-read from its canonical SDL (no extensions in it)
        let model = model_sdl.as_ref().and_then(|m| with_schema(&[m.clone()], |resolved, _| from_real_tsdoc(resolved)).ok());
        Case {
            sdl: v["sdl"].as_str().unwrap_or("").to_string(),
            cfg: CfgCase::from_json(&v["cfg"]),
            origin: v["origin"].as_str().unwrap_or("replay").to_string(),
            model,
            model_sdl,
            light: v["light"].as_bool().unwrap_or(false),
        }
    }
}

fn corpus() -> Vec<Case> {
    let base = "type Query { u: U s: S i: I f(a: [In!], b: E! = A): [[Foo!]]! }\n";
    let mut out = vec![];
    // §9-aa: a scalar mapping mentions an identifier that is also the name of an object type that is a union member
    out.push(Case::text(format!("scalar S\ntype Foo {{ id: ID! }}\ntype Bar {{ id: ID! }}\nunion U = Foo | Bar\ninterface I {{ id: ID! }}\ntype Baz implements I {{ id: ID! }}\nenum E {{ A B }}\ninput In {{ x: Int y: [E!]! }}\n{base}"), CfgCase { scalars: vec![("S".into(), ScalarCfg::Single("Foo".into()))], optional: None, runtime: false }, "corpus:clash-union-member"));
    out.push(Case::text(format!("scalar S\ntype Foo {{ id: ID! }}\ntype Bar {{ id: ID! }}\nunion U = Foo | Bar\ninterface I {{ id: ID! }}\ntype Baz implements I {{ id: ID! }}\nenum E {{ A B }}\ninput In {{ x: Int y: [E!]! }}\n{base}"), CfgCase { scalars: vec![("S".into(), ScalarCfg::SendReceive { send: "Baz | string".into(), receive: "Baz".into() })], optional: Some(false), runtime: false }, "corpus:clash-interface-implementer"));
    // §9-ab: `*/` in descriptions (type level, field level, enum, input field)
    out.push(Case::text("\"\"\"ends */ the comment\"\"\"\ntype Query { \"field */ doc\" a: Int @deprecated(reason: \"*/ gone\") }\n\"*/\"\nenum E { A }\ninput In { \"x */\" x: Int }\n".into(), CfgCase { scalars: vec![], optional: None, runtime: false }, "corpus:jsdoc-close"));
    // the same sites with a delimiter-like token SEVERAL times on one line / on several lines / glued / escaped already
    out.push(Case::text(
        concat!(
            "\"a */ b */ c\"\nschema { query: Query }\n",
            "\"\"\"\nsrc/**/*.ts and test/**/*.ts\n*/*/\n/**/ /* */ */\n\"\"\"\ntype Query {\n",
            "  \"*/*/\" a(\"x */ y */\" x: Int, \"*\\\\/ */ \\\\*/ */\" y: In): Int @deprecated(reason: \"*/ gone */ twice */\")\n",
            "  \"\"\"\n  */ at line start */\n  and end */\n  \"\"\"\n  b: E @deprecated(reason: \"\"\"*/*/*/\"\"\")\n}\n",
            "\"/* */ */\"\nenum E { \"*/ */\" A @deprecated(reason: \"*/ */\") B }\n",
            "\"*/ */ */ */\"\ninput In { \"x */*/\" x: Int @deprecated(reason: \"**/ **/\") \"\"\"*/\n*/ */\"\"\" y: [In!] }\n",
            "\"// */ // */\"\ninterface I { \"*/ */\" id: ID }\n\"*/*/\"\nunion U = Query\n\"*/ */\"\nscalar D\n"
        )
        .into(),
        CfgCase { scalars: vec![("D".into(), ScalarCfg::Single("string".into()))], optional: None, runtime: false },
        "corpus:jsdoc-close-repeated",
    ));
    // the fresh name `__tmp_Foo` is itself an identifier of a scalar text (known open finding)
    out.push(Case::text("scalar S\ntype Foo { id: ID! }\ntype Query { s: S f: Foo }\n".into(), CfgCase { scalars: vec![("S".into(), ScalarCfg::Single("Foo | __tmp_Foo".into()))], optional: None, runtime: false }, "corpus:fresh-name-captured"));
    // directive-supplied scalar types, and a scalar without any type
    out.push(Case::text("scalar D @nitrogql_ts_type(resolverInput: \"Date\", resolverOutput: \"Date | string\", operationInput: \"string\", operationOutput: \"string\")\ntype Query { d: D, l: [[D]!] }\ninput In { d: D! ds: [D] }\n".into(), CfgCase { scalars: vec![], optional: Some(true), runtime: false }, "corpus:directive-scalar"));
    out.push(Case::text("scalar D\ntype Query { d: D }\n".into(), CfgCase { scalars: vec![], optional: None, runtime: false }, "corpus:scalar-without-type"));
    // wrapper depth, recursive inputs, interface implemented through another interface, runtime enums
    out.push(Case::text("interface Node { id: ID! }\ninterface Named implements Node { id: ID! name: String }\ntype A implements Node & Named { id: ID! name: String l3: [[[Int!]]!] self: A }\ntype B implements Node { id: ID! }\nunion AB = A | B\nenum Color { RED GREEN }\ninput Filter { and: [Filter!] not: Filter c: Color! cs: [[Color]] }\ntype Query { node(f: Filter, ids: [ID!]! = []): Node ab: [AB]! }\ntype Mutation { m(c: Color): Color! }\n".into(), CfgCase { scalars: vec![("ID".into(), ScalarCfg::Single("string".into()))], optional: Some(false), runtime: true }, "corpus:wrappers"));
    // a schema type whose name clashes with the scalar text of ANOTHER scalar and is itself a scalar / enum / input
    out.push(Case::text("scalar Date\nscalar Stamp\nenum Kind { K }\ninput Range { from: Date to: Stamp k: Kind }\ntype Query { r(x: Range): Date k: Kind s: Stamp }\n".into(), CfgCase {
            scalars: vec![("Date".into(), ScalarCfg::Single("Date".into())), ("Stamp".into(), ScalarCfg::Separate { resolver_output: "Date | Kind".into(), resolver_input: "Range".into(), operation_output: "string".into(), operation_input: "Record<string, Date>".into() })],
            optional: None,
            runtime: false,
        }, "corpus:clash-leaf-kinds"));
    // arguments WITH default values of nullable, list and input-object types (the resolver may still receive null)
    out.push(Case::text(
        "input Filter { q: String tags: [String!] = [] n: Int! = 1 }\nenum Order { ASC DESC }\ntype Item { id: ID! tags: [String!] }\ninterface Node { id: ID! }\ntype Other implements Node { id: ID! }\nunion Any = Item | Other\ntype Query { items(first: Int = 10, filter: Filter = { q: \"x\", n: 2 }, tags: [String!] = [], order: Order = ASC, ids: [ID!]! = [], deep: [[Filter]] = null): [Item!]! node(id: ID!): Node any: [Any] }\n".into(),
        CfgCase { scalars: vec![], optional: Some(false), runtime: false },
        "corpus:argument-defaults",
    ));
    out
}

fn generated(rng: &mut Rng, i: usize) -> Case {
    let cfg = GenCfg { hostile_text: i % 2 == 1, ..GenCfg::default() };
    let mut schema = gen_schema(rng, &cfg);
    let mut pc = gen_project_cfg(rng, &schema, i % 3 == 0);
    pc.emit_schema_runtime = i % 4 == 2;
    let mut origin = format!("generated:{i}");
    // move one custom scalar's types from the config into a @nitrogql_ts_type directive, or drop them altogether
    let customs: Vec<String> = schema.types().filter(|t| t.kind == TypeKind::Scalar).map(|t| t.name.clone()).collect();
    if !customs.is_empty() && i % 5 == 1 {
        let n = customs[rng.below(customs.len())].clone();
        if let Some(pos) = pc.scalars.iter().position(|(m, _)| *m == n) {
            let (_, c) = pc.scalars.remove(pos);
            let arg = |k: &str, t: &str| Arg::new(k, Val::Str(t.to_string(), P::default()));
            let d = Dir::new(
                "nitrogql_ts_type",
                vec![
                    arg("resolverInput", &CfgCase::text_for(&c, "ri")),
                    arg("resolverOutput", &CfgCase::text_for(&c, "ro")),
                    arg("operationInput", &CfgCase::text_for(&c, "oi")),
                    arg("operationOutput", &CfgCase::text_for(&c, "oo")),
                ],
            );
            for it in schema.doc.items.iter_mut() {
                if let TsItem::TypeDef(t) = it {
                    if t.name == n {
                        t.dirs.push(d.clone());
                    }
                }
            }
            origin.push_str(":directive-scalar");
        }
    } else if !customs.is_empty() && i % 17 == 7 {
        let n = customs[rng.below(customs.len())].clone();
        pc.scalars.retain(|(m, _)| *m != n);
        origin.push_str(":scalar-without-type");
    }
    // a share of the cases is written with `extend …` items (fields, members, values, `implements`); the abstract
    // model stays the merged schema
    let sdl = if i % 3 == 1 {
        origin.push_str(":extensions");
        nvh::render::tsdoc_text(&split_into_extensions(rng, &schema))
    } else {
        schema.sdl()
    };
    Case { sdl, cfg: CfgCase::from_project(&pc), origin, model: Some(with_builtin_scalars(&schema.doc)), model_sdl: Some(schema.sdl()), light: false }
}

/// Stream "delimiter texts": a generated schema whose descriptions (schema, every kind of type, fields, arguments, enum
/// values, input fields) and `@deprecated` reasons REPEAT comment-delimiter-like tokens on a line and across lines
/// (`nvh::gen::delimiter_text`), written as quoted strings or as (multi-line) block strings, optionally with `extend …`
/// items. One case in eight runs the full comparison, the others the text-level ones (`light`).
fn delimiter_case(rng: &mut Rng, i: usize) -> Case {
    let cfg = GenCfg { hostile_text: i % 4 == 3, delimiter_text: true, ..GenCfg::default() };
    let mut schema = gen_schema(rng, &cfg);
    let pc = gen_project_cfg(rng, &schema, false);
    let density = [2, 4, 8][i % 3];
    let _ = delims::decorate(rng, &mut schema, density);
    let block = i % 2 == 1;
    let mut origin = format!("delimiter-text:{i}{}", if block { ":block-strings" } else { "" });
    let doc = if i % 5 == 2 {
        origin.push_str(":extensions");
        split_into_extensions(rng, &schema)
    } else {
        schema.doc.clone()
    };
    let sdl = delims::render(&doc, block, rng.next_u64());
    Case { sdl, cfg: CfgCase::from_project(&pc), origin, model: Some(with_builtin_scalars(&schema.doc)), model_sdl: Some(schema.sdl()), light: i % 8 != 0 }
}

/// Stream "interface hierarchies": schemas with `GenCfg::iface_hierarchies` (interfaces implementing interfaces to depth
/// ≥ 1, diamonds, several unrelated hierarchies, interfaces nobody implements; objects listing the transitive closure in
/// RANDOM order — sub-interface before / after its parents, unrelated interfaces in between and after), a third of them
/// written with `extend …` items (so `implements` lists are partly appended by extensions). The possible types of EVERY
/// interface are compared in both files (K on the trees; O: `__resolveType` unions against the abstract model in every
/// case, the possible types of every interface and union in both output namespaces of the schema file in every case, the
/// membership tables of all four namespaces in one case of twelve).
fn hierarchy_case(rng: &mut Rng, i: usize) -> (Case, BTreeSet<String>) {
    let cfg = GenCfg { hostile_text: false, descriptions: i % 4 == 1, iface_hierarchies: true, ..GenCfg::default() };
    let schema = gen_schema(rng, &cfg);
    let mut pc = gen_project_cfg(rng, &schema, false);
    pc.emit_schema_runtime = i % 5 == 3;
    let mut origin = format!("interface-hierarchy:{i}");
    let sdl = if i % 3 == 1 {
        origin.push_str(":extensions");
        nvh::render::tsdoc_text(&split_into_extensions(rng, &schema))
    } else {
        schema.sdl()
    };
    let feats = iface_shape_features(&schema);
    (Case { sdl, cfg: CfgCase::from_project(&pc), origin, model: Some(with_builtin_scalars(&schema.doc)), model_sdl: Some(schema.sdl()), light: i % 12 != 0 }, feats)
}

fn doc_tokens(text: &str) -> Option<Vec<String>> {
    let toks = tsparse::lex(text).ok()?;
    Some(toks.into_iter().filter_map(|(t, _)| if let tsparse::Tok::Doc(d) = t { Some(normalise_doc(&d).unwrap_or_else(|| format!("<malformed>{d}"))) } else { None }).collect())
}

fn any_desc_contains(doc: &TsDoc, needle: &str) -> bool {
    let has = |d: &Option<String>| d.as_deref().map_or(false, |s| s.contains(needle));
    doc.items.iter().any(|i| match i {
        TsItem::TypeDef(t) => {
            has(&t.desc)
                || t.fields.iter().any(|f| has(&f.desc) || f.args.iter().any(|a| has(&a.desc)) || f.dirs.iter().any(|d| d.args.iter().any(|a| matches!(&a.value, Val::Str(s, _) if s.contains(needle)))))
                || t.inputs.iter().any(|f| has(&f.desc) || f.dirs.iter().any(|d| d.args.iter().any(|a| matches!(&a.value, Val::Str(s, _) if s.contains(needle)))))
                || t.values.iter().any(|v| has(&v.desc))
        }
        TsItem::SchemaDef(s) => has(&s.desc),
        _ => false,
    })
}

fn find_type<'a>(file: &'a Sexp, name: &str) -> Option<&'a Sexp> {
    file.args().iter().find(|s| s.head() == Some("type") && s.args().get(1).and_then(|n| n.as_str()) == Some(name))
}

fn obj_fields(t: &Sexp) -> Option<Vec<(String, bool, &Sexp)>> {
    if t.head() != Some("obj") {
        return None;
    }
    t.args().iter().map(|f| if f.head() == Some("field") { Some((f.args()[0].as_str()?.to_string(), f.args()[2].as_atom() == Some("true"), &f.args()[3])) } else { None }).collect()
}

fn literal_set(t: &Sexp) -> BTreeSet<String> {
    match t.head() {
        Some("strlit") => t.args().first().and_then(|s| s.as_str()).map(|s| BTreeSet::from([s.to_string()])).unwrap_or_default(),
        Some("union") => t.args().iter().flat_map(literal_set).collect(),
        _ => BTreeSet::new(),
    }
}

/// O (structural): the parsed REAL `Resolvers` type against the schema
fn check_resolvers(rep: &mut Report, view: &SchemaView, file: &Sexp, case: &Case) {
    rep.o_cases += 1;
    let Some(res) = find_type(file, "Resolvers") else {
        rep.fail("O", "resolvers:missing-root-type", "the resolvers file declares no `Resolvers` type", case.to_json());
        return;
    };
    let Some(fields) = obj_fields(&res.args()[3]) else {
        rep.fail("O", "resolvers:root-not-a-record", "`Resolvers` is not an object type", case.to_json());
        return;
    };
    let fmap: BTreeMap<String, (bool, &Sexp)> = fields.iter().map(|(k, o, t)| (k.clone(), (*o, *t))).collect();
    for t in view.type_defs() {
        let entry = fmap.get(&t.name);
        match t.kind {
            TypeKind::Object => {
                let Some((opt, ty)) = entry else {
                    rep.fail("O", "resolvers:object:missing", &format!("no resolver entry for object type {}", t.name), case.to_json());
                    continue;
                };
                let Some(fs) = obj_fields(ty) else {
                    rep.fail("O", "resolvers:object:not-a-record", &format!("Resolvers[{}] is not an object type", t.name), case.to_json());
                    continue;
                };
                if *opt && !t.fields.is_empty() {
                    rep.fail("O", "resolvers:object:optional", &format!("Resolvers[{}] is optional although the type has fields", t.name), case.to_json());
                }
                let got: Vec<String> = fs.iter().map(|f| f.0.clone()).collect();
                let want: Vec<String> = t.fields.iter().map(|f| f.name.clone()).collect();
                if got != want {
                    rep.fail("O", "resolvers:object:fields", &format!("Resolvers[{}] has fields {got:?}, the schema {want:?}", t.name), case.to_json());
                    continue;
                }
                for ((k, fopt, fty), f) in fs.iter().zip(t.fields.iter()) {
                    let ok = fty.head() == Some("app")
                        && fty.args()[0] == Sexp::call("ref", vec![Sexp::str("__Resolver")])
                        && fty.args()[1].as_list().map_or(false, |a| {
                            a.len() == 4
                                && a[0] == Sexp::call("ref", vec![Sexp::str(t.name.as_str())])
                                && a[2] == Sexp::call("ref", vec![Sexp::str("Context")])
                                && obj_fields(&a[1]).map_or(false, |af| af.iter().map(|x| x.0.clone()).collect::<Vec<_>>() == f.args.iter().map(|x| x.name.clone()).collect::<Vec<_>>() && af.iter().all(|x| !x.1))
                        });
                    if !ok || *fopt {
                        rep.fail("O", "resolvers:object:resolver-shape", &format!("Resolvers[{}][{k}] is not a required __Resolver<{}, {{args…}}, Context, …>: {}", t.name, t.name, fty.to_line()), case.to_json());
                    }
                }
            }
            TypeKind::Interface | TypeKind::Union => {
                let kind = t.kind.as_str();
                let Some((_, ty)) = entry else {
                    rep.fail("O", &format!("resolvers:{kind}:missing"), &format!("no type resolver entry for {}", t.name), case.to_json());
                    continue;
                };
                let want: BTreeSet<String> = view.possible(&t.name).into_iter().collect();
                let got = obj_fields(ty).and_then(|fs| {
                    if fs.len() == 1 && fs[0].0 == "__resolveType" && fs[0].2.head() == Some("app") && fs[0].2.args()[0] == Sexp::call("ref", vec![Sexp::str("__TypeResolver")]) {
                        let a = fs[0].2.args()[1].as_list()?;
                        if a.len() == 3 {
                            return Some((literal_set(&a[2]), a[0].clone()));
                        }
                    }
                    None
                });
                match got {
                    Some((lits, parents)) => {
                        let pset: BTreeSet<String> = match parents.head() {
                            Some("ref") => BTreeSet::from([parents.args()[0].as_str().unwrap_or("").to_string()]),
                            Some("union") => parents.args().iter().filter_map(|p| p.args().first().and_then(|s| s.as_str()).map(|s| s.to_string())).collect(),
                            _ => BTreeSet::new(),
                        };
                        if lits != want || pset != want {
                            rep.fail("O", &format!("resolvers:{kind}:possible-types"), &format!("__resolveType of {} ranges over {lits:?} / parents {pset:?}, possible types are {want:?}", t.name), case.to_json());
                        }
                    }
                    None => rep.fail("O", &format!("resolvers:{kind}:shape"), &format!("Resolvers[{}] is not {{ __resolveType: __TypeResolver<…> }}", t.name), case.to_json()),
                }
            }
            _ => {
                if entry.is_some() {
                    rep.fail("O", "resolvers:leaf:entry", &format!("Resolvers has an entry for the {} type {}", t.kind.as_str(), t.name), case.to_json());
                }
            }
        }
    }
    let known: BTreeSet<String> = view.type_defs().iter().map(|t| t.name.clone()).collect();
    for (k, _, _) in &fields {
        if !known.contains(k) {
            rep.fail("O", "resolvers:unknown-entry", &format!("Resolvers has an entry {k} that is not a schema type"), case.to_json());
        }
    }
}

/// O (structural, cheap — runs in every case, text-level ones included): in both output namespaces of the REAL schema
/// declaration file the alias of EVERY interface and union is the union of references to exactly its possible object types
/// per the abstract model (`never` when there is none). What the referenced names denote is the membership tables' subject;
/// an alias of another shape is left to them (counted).
fn check_schema_possible_types(rep: &mut Report, view: &SchemaView, file: &Sexp, case: &Case) {
    for ns in file.args().iter().filter(|s| s.head() == Some("namespace")) {
        let ns_name = ns.args().get(1).and_then(|n| n.as_str()).unwrap_or("").to_string();
        let Some((tg, _)) = TARGETS.iter().find(|t| t.1 == ns_name) else { continue };
        let Some(stmts) = ns.args().get(2).and_then(|x| x.as_list()) else { continue };
        for t in view.type_defs() {
            if !matches!(t.kind, TypeKind::Interface | TypeKind::Union) || !kind_fits(t.kind, tg) {
                continue;
            }
            let kind = t.kind.as_str();
            rep.o_cases += 1;
            // (a type whose name clashes with an identifier of a scalar text is declared as `__tmp_<Name>` and re-exported)
            let tmp_name = format!("__tmp_{}", t.name);
            let decl = stmts.iter().find(|s| s.head() == Some("type") && matches!(s.args().get(1).and_then(|n| n.as_str()), Some(n) if n == t.name || n == tmp_name));
            let Some(decl) = decl else {
                rep.fail("O", &format!("schema-file:{kind}:missing"), &format!("namespace {ns_name} declares no type {}", t.name), case.to_json());
                continue;
            };
            let body = &decl.args()[3];
            let name_of = |r: &Sexp| -> Option<String> {
                if r.head() == Some("ref") {
                    r.args().first().and_then(|s| s.as_str()).map(|s| s.strip_prefix("__tmp_").unwrap_or(s).to_string())
                } else {
                    None
                }
            };
            let got: Option<BTreeSet<String>> = match body.head() {
                Some("ref") => name_of(body).map(|n| BTreeSet::from([n])),
                Some("union") => body.args().iter().map(name_of).collect(),
                Some("prim") if body.args().first().and_then(|s| s.as_str()) == Some("never") => Some(BTreeSet::new()),
                _ => None,
            };
            let want: BTreeSet<String> = view.possible(&t.name).into_iter().collect();
            match got {
                None => rep.count("schema-file:abstract-alias-of-another-shape(left to the membership tables)"),
                Some(got) => {
                    if got != want {
                        rep.fail(
                            "O",
                            &format!("schema-file:{kind}:possible-types"),
                            &format!("namespace {ns_name}: `export type {}` is the union of {got:?}, the possible object types of the {kind} are {want:?}", t.name),
                            case.to_json(),
                        );
                    }
                }
            }
        }
    }
}

#[allow(clippy::too_many_arguments)]
fn resolver_members(rep: &mut Report, drv: &mut Driver, view: &SchemaView, resolvers: &Sexp, schema_tree: &Sexp, cfg_sexp: &Sexp, ref_doc_sexp: &Sexp, domain: &[(String, J)], sig_suffix: &str, case: &Case) {
    let Some(res) = find_type(resolvers, "Resolvers") else {
        return;
    };
    let Some(root) = obj_fields(&res.args()[3]) else {
        return;
    };
    let schema_module = resolvers
        .args()
        .iter()
        .find_map(|s| if s.head() == Some("import") && s.args()[2] == Sexp::call("star", vec![Sexp::str("Schema")]) { s.args()[0].as_str().map(|x| x.to_string()) } else { None })
        .unwrap_or_default();
    let mods = Sexp::call("mods", vec![Sexp::list(vec![Sexp::str(schema_module.as_str()), schema_tree.clone()])]);
    // extra values: argument records and what resolvers return for objects (records without `__typename`)
    let mut values: Vec<(String, J)> = domain.to_vec();
    let mut queries: Vec<(String, String, &'static str, String)> = vec![]; // (type, field, args|result, kind)
    let mut ts_q = vec![];
    let mut ref_q = vec![];
    for t in view.type_defs() {
        if t.kind != TypeKind::Object {
            continue;
        }
        if let Some(J::Obj(kvs)) = view.sample_named("ro", &t.name, 0, true) {
            let stripped = J::Obj(kvs[1..].to_vec());
            record_mutations("resolver-object-record", &stripped, &mut values);
            values.push(("resolver-object-record:in-list".into(), J::Arr(vec![stripped.clone()])));
            values.push(("resolver-object-record:in-list-with-null".into(), J::Arr(vec![stripped.clone(), J::Null])));
            values.push(("resolver-object-record:in-nested-list".into(), J::Arr(vec![J::Arr(vec![stripped.clone()])])));
            values.push(("resolver-object-record:with-typename".into(), J::Obj(kvs.clone())));
        }
        let Some((_, _, entry)) = root.iter().find(|f| f.0 == t.name) else {
            continue; // reported by check_resolvers
        };
        let Some(fs) = obj_fields(entry) else {
            continue;
        };
        for f in &t.fields {
            let Some((_, _, fty)) = fs.iter().find(|x| x.0 == f.name) else {
                continue;
            };
            let Some(a) = (if fty.head() == Some("app") { fty.args()[1].as_list() } else { None }) else {
                continue;
            };
            if a.len() != 4 {
                continue;
            }
            // argument records: all present (full / minimal), one dropped / extra / wrong, null for each argument
            if !f.args.is_empty() {
                let full: Option<Vec<(String, J)>> = f.args.iter().map(|x| view.sample_ty("ri", &x.ty, 0, true).map(|v| (x.name.clone(), v))).collect();
                if let Some(full) = full {
                    record_mutations("args-record", &J::Obj(full.clone()), &mut values);
                    for i in 0..full.len() {
                        let mut m = full.clone();
                        m[i].1 = J::Null;
                        values.push((format!("args-record:null-for-{}", if f.args[i].default.is_some() { "defaulted-argument" } else { "argument" }), J::Obj(m)));
                    }
                }
                let min: Option<Vec<(String, J)>> = f.args.iter().map(|x| view.sample_ty("ri", &x.ty, 0, false).map(|v| (x.name.clone(), v))).collect();
                if let Some(min) = min {
                    values.push(("args-record:minimal".into(), J::Obj(min)));
                }
            }
            let kind = view.doc.type_def(f.ty.unwrapped()).map(|k| k.kind.as_str()).unwrap_or("?").to_string();
            queries.push((t.name.clone(), f.name.clone(), "args", "arguments".into()));
            ts_q.push(Sexp::list(vec![Sexp::list(vec![]), a[1].clone()]));
            ref_q.push(Sexp::call("args", vec![Sexp::list(f.args.iter().map(|x| strip_pos(&x.to_sexp())).collect())]));
            queries.push((t.name.clone(), f.name.clone(), "result", kind));
            ts_q.push(Sexp::list(vec![Sexp::list(vec![]), a[3].clone()]));
            ref_q.push(Sexp::call("result", vec![strip_pos(&f.ty.to_sexp())]));
        }
    }
    if queries.is_empty() {
        return;
    }
    let values = dedup(values);
    let vals_sexp = Sexp::list(values.iter().map(|(_, v)| v.to_sexp()).collect());
    let ans = drv.batch(&[
        Sexp::call("ts.table", vec![resolvers.clone(), mods, vals_sexp.clone(), Sexp::list(ts_q)]),
        Sexp::call("ref.fields", vec![cfg_sexp.clone(), ref_doc_sexp.clone(), vals_sexp, Sexp::list(ref_q)]),
    ]);
    if ans[0].head() != Some("ok") || ans[1].head() != Some("ok") {
        rep.fail("K", "driver", &format!("driver answers (resolvers): {} / {}", ans[0].to_line().chars().take(200).collect::<String>(), ans[1].to_line().chars().take(200).collect::<String>()), case.to_json());
        return;
    }
    let mut members = 0u64;
    for (qi, (ty, field, what, kind)) in queries.iter().enumerate() {
        rep.o_cases += 1;
        let tsr = ans[0].args()[qi].as_list().unwrap();
        let rfr = ans[1].args()[qi].as_list().unwrap();
        for (vi, (label, v)) in values.iter().enumerate() {
            rep.evaluations += 1;
            let in_ts = tsr[vi].as_atom() == Some("true");
            let in_ref = rfr[vi].as_atom() == Some("true");
            members += in_ref as u64;
            if in_ts != in_ref {
                let dir = if in_ts { "too-wide" } else { "too-narrow" };
                let clause = label.split(':').next().unwrap_or("");
                let sig = format!("resolvers:{what}:{kind}:{clause}:{dir}{sig_suffix}");
                let refname = if *what == "args" { format!("Ref_ResolverInput(args {ty}.{field})") } else { format!("the resolver result reference of {ty}.{field}") };
                rep.fail(
                    "O",
                    &sig,
                    &format!("[{label}] Resolvers[{ty}][{field}] {}: the emitted TypeScript type {} the value {} but {refname} {}", if *what == "args" { "Args" } else { "Result" }, if in_ts { "admits" } else { "rejects" }, v.text(), if in_ref { "contains it" } else { "does not" }),
                    case.to_json(),
                );
            }
        }
    }
    rep.count_n("domain:resolver-queries", queries.len() as u64);
    rep.count_n("domain:resolver-member-pairs", members);
}

fn run_case(rep: &mut Report, drv: &mut Driver, case: &Case) {
    rep.evaluations += 1;
    let yaml = case.cfg.yaml();
    let config = match parse_config_text(&yaml) {
        Ok(Some(c)) => c,
        other => {
            rep.notes.push(format!("config rejected ({other:?}) for {}", case.origin));
            return;
        }
    };
    let r = with_schema(&[case.sdl.clone()], |resolved, _| (from_real_tsdoc(resolved), print_schema_types(resolved, &config), print_resolver_types(resolved, &config)));
    let (tsdoc, schema_text, resolvers_text) = match r {
        Ok(x) => x,
        Err(e) => {
            rep.count("schema-not-accepted");
            if case.origin.starts_with("corpus") {
                rep.notes.push(format!("{}: schema not accepted: {e:?}", case.origin));
            }
            return;
        }
    };
    let dir_texts: Vec<String> = directive_scalars(&tsdoc).values().flat_map(CfgCase::texts_of).collect();
    let cfg_sexp = match case.cfg.to_sexp(&dir_texts) {
        Ok(s) => s,
        Err(e) => {
            rep.notes.push(e);
            return;
        }
    };
    let doc_sexp = strip_pos(&tsdoc.to_sexp());
    // reference side: the generator's abstract model when the case has one (K keeps the real resolved document)
    let ref_doc: TsDoc = case.model.clone().unwrap_or_else(|| tsdoc.clone());
    let ref_doc_sexp = strip_pos(&ref_doc.to_sexp());
    rep.count(if case.model.is_some() { "reference:abstract-model" } else { "reference:real-resolved-document(corpus text)" });
    if case.origin.contains(":extensions") {
        rep.count("feature:schema-written-with-extensions");
    }
    let ans = drv.batch(&[
        Sexp::call("decls.schema", vec![cfg_sexp.clone(), doc_sexp.clone()]),
        Sexp::call("decls.resolvers", vec![cfg_sexp.clone(), doc_sexp.clone()]),
        Sexp::call("decls.resolverDocs", vec![cfg_sexp.clone(), doc_sexp.clone()]),
    ]);
    let view0_defs: Vec<&TypeDef> = ref_doc.items.iter().filter_map(|i| if let TsItem::TypeDef(t) = i { Some(t) } else { None }).collect();
    // ---- input distribution
    let eff = effective_scalars(&case.cfg, &ref_doc);
    for k in [TypeKind::Scalar, TypeKind::Object, TypeKind::Interface, TypeKind::Union, TypeKind::Enum, TypeKind::Input] {
        if view0_defs.iter().any(|t| t.kind == k && !t.name_pos.builtin) {
            rep.count(&format!("feature:kind:{}", k.as_str()));
        }
    }
    for (n, c) in &eff {
        if BUILTIN_SCALAR_CFG.iter().any(|b| b.0 == n) && !case.cfg.scalars.iter().any(|(m, _)| m == n) {
            continue;
        }
        let from_dir = !case.cfg.scalars.iter().any(|(m, _)| m == n);
        rep.count(&format!(
            "feature:scalar-mapping:{}{}",
            match c {
                ScalarCfg::Single(_) => "single",
                ScalarCfg::SendReceive { .. } => "send-receive",
                ScalarCfg::Separate { .. } => "separate",
            },
            if from_dir { ":directive" } else { "" }
        ));
    }
    rep.count(&format!("feature:allowUndefinedAsOptionalInput:{:?}", case.cfg.optional));
    let type_names: BTreeSet<String> = view0_defs.iter().map(|t| t.name.clone()).collect();
    let clash = eff.values().flat_map(CfgCase::texts_of).any(|t| t.split(|c: char| !(c.is_ascii_alphanumeric() || c == '_')).any(|id| type_names.contains(id)));
    if clash {
        rep.count("feature:scalar-text-clashes-with-type-name");
    }
    // a scalar text that itself mentions an identifier with the renaming prefix (class of the open finding)
    let tmp_in_text = eff.values().flat_map(CfgCase::texts_of).any(|t| t.split(|c: char| !(c.is_ascii_alphanumeric() || c == '_')).any(|id| id.starts_with("__tmp_")));
    if tmp_in_text {
        rep.count("feature:scalar-text-mentions-__tmp_");
    }
    let hostile = any_desc_contains(&tsdoc, "*/") || any_desc_contains(&ref_doc, "*/");
    if hostile {
        rep.count("feature:description-contains-comment-close");
    }
    if view0_defs.iter().any(|t| t.desc.is_some()) {
        rep.count("feature:descriptions");
    }
    // comment sources of the document the printers see: per site, how often one LINE repeats the comment close, and the
    // other delimiter-like shapes
    let sources = delims::comment_sources(&tsdoc);
    {
        let mut seen: BTreeSet<String> = BTreeSet::new();
        for (site, text) in &sources {
            let n = delims::max_close_per_line(text);
            if n >= 2 {
                seen.insert(format!("feature:comment-close-repeated-on-a-line:{site}"));
                seen.insert(format!("feature:comment-close-per-line:{}", if n >= 4 { "4+".to_string() } else { n.to_string() }));
            }
            if text.split('\n').filter(|l| l.contains("*/")).count() >= 2 {
                seen.insert(format!("feature:comment-close-on-several-lines:{site}"));
            }
            for (tok, label) in [("*/*/", "close-close-glued"), ("/**/", "empty-comment"), ("/*", "comment-open"), ("*\\/", "already-escaped-close"), ("\\*/", "backslash-before-close")] {
                if text.contains(tok) {
                    seen.insert(format!("feature:delimiter:{label}"));
                }
            }
            if text.split('\n').any(|l| l.starts_with("*/")) {
                seen.insert("feature:delimiter:close-at-line-start".into());
            }
            if text.split('\n').any(|l| l.ends_with("*/")) {
                seen.insert("feature:delimiter:close-at-line-end".into());
            }
        }
        for f in seen {
            rep.count(&f);
        }
        if case.origin.contains(":block-strings") && case.sdl.contains("\"\"\"") {
            rep.count("feature:descriptions-as-block-strings");
        }
    }
    if view0_defs.iter().any(|t| t.fields.iter().any(|f| f.dirs.iter().any(|d| d.name == "deprecated")) || t.inputs.iter().any(|f| f.dirs.iter().any(|d| d.name == "deprecated"))) {
        rep.count("feature:deprecated-fields");
    }
    if case.cfg.runtime {
        rep.count("feature:emitSchemaRuntime");
    }
    for t in &view0_defs {
        for f in &t.fields {
            for a in &f.args {
                if a.default.is_some() {
                    let shape = if a.ty.is_non_null() { "non-null" } else if a.ty.text().starts_with('[') { "nullable-list" } else { "nullable-named" };
                    let kind = ref_doc.type_def(a.ty.unwrapped()).map(|k| k.kind.as_str()).unwrap_or("?");
                    rep.count(&format!("feature:argument-with-default:{shape}:{kind}"));
                }
            }
        }
    }

    // ---- schema file: well-formedness, K
    rep.k_cases += 1;
    let model = &ans[0];
    let mut real_tree: Option<Sexp> = None;
    match &schema_text {
        Err(msg) => {
            let real_name = msg.split('\'').nth(1).unwrap_or("").to_string();
            let ok = model.head() == Some("err") && model.args().get(1).and_then(|s| s.as_str()) == Some(real_name.as_str()) && msg.contains("is not provided");
            if !ok {
                rep.fail("K", "schema-file:error-outcome", &format!("code: Err({msg}); model: {}", model.to_line()), case.to_json());
            }
            rep.count("outcome:ScalarTypeNotProvided");
        }
        Ok(text) => match tsparse::parse_file(text) {
            Err(e) => {
                let class = if hostile { "jsdoc-close".to_string() } else { e.msg.split(',').next().unwrap_or("").to_string() };
                rep.o_cases += 1;
                rep.fail("O", &format!("wellformed:schema-file:{class}"), &format!("emitted schema declaration file is not well-formed TypeScript (line {}: {})", e.line + 1, e.msg), case.to_json());
            }
            Ok(tree) => {
                rep.o_cases += 1;
                let tree = normalise_docs(&tree);
                if model.head() != Some("ok") {
                    rep.fail("K", "schema-file:error-outcome", &format!("code printed a file; model: {}", model.to_line()), case.to_json());
                } else {
                    if model.args()[0] != tree {
                        let d = first_diff(&model.args()[0], &tree, &mut vec![]).unwrap_or_default();
                        rep.fail("K", &format!("schema-file:{}", diff_kind(&model.args()[0], &tree)), &format!("schema declaration tree differs (model vs code) at {d}"), case.to_json());
                    }
                    let model_docs: Vec<String> = model.args()[1].args().iter().filter_map(|s| s.as_str().map(|x| x.to_string())).collect();
                    rep.k_cases += 1;
                    if doc_tokens(text) != Some(model_docs.clone()) {
                        rep.fail("K", "schema-file:jsdoc-comments", &format!("JSDoc comments differ: model {model_docs:?} code {:?}", doc_tokens(text)), case.to_json());
                    }
                }
                real_tree = Some(tree);
            }
        },
    }
    // ---- resolvers file
    rep.k_cases += 1;
    let mut real_resolvers: Option<Sexp> = None;
    match &resolvers_text {
        Err(msg) => rep.fail("O", "resolvers:print-failed", &format!("resolver printer failed: {msg}"), case.to_json()),
        Ok(text) => match tsparse::parse_file(text) {
            Err(e) => {
                let class = if hostile { "jsdoc-close".to_string() } else { e.msg.split(',').next().unwrap_or("").to_string() };
                rep.fail("O", &format!("wellformed:resolvers-file:{class}"), &format!("emitted resolvers file is not well-formed TypeScript (line {}: {})", e.line + 1, e.msg), case.to_json());
            }
            Ok(tree) => {
                let tree = normalise_docs(&tree);
                if ans[1].head() != Some("ok") || ans[1].args()[0] != tree {
                    let d = if ans[1].head() == Some("ok") { first_diff(&ans[1].args()[0], &tree, &mut vec![]).unwrap_or_default() } else { ans[1].to_line() };
                    rep.fail("K", "resolvers-file:tree", &format!("resolvers declaration tree differs (model vs code) at {d}"), case.to_json());
                }
                // every JSDoc comment of the resolvers file (argument descriptions, inside `Args`) = the model's
                rep.k_cases += 1;
                if ans[2].head() != Some("ok") {
                    rep.fail("K", "driver", &format!("driver answer (resolverDocs): {}", ans[2].to_line().chars().take(200).collect::<String>()), case.to_json());
                } else {
                    let model_docs: Vec<String> = ans[2].args()[0].args().iter().filter_map(|s| s.as_str().map(|x| x.to_string())).collect();
                    if doc_tokens(text) != Some(model_docs.clone()) {
                        rep.fail("K", "resolvers-file:jsdoc-comments", &format!("JSDoc comments of the resolvers file differ: model {model_docs:?} code {:?}", doc_tokens(text)), case.to_json());
                    }
                }
                real_resolvers = Some(tree);
            }
        },
    }

    // ---- O (comments only): "whatever the descriptions contain" — descriptions and deprecation reasons contribute
    // COMMENTS only: without its comments each emitted file is, token for token, the file emitted for the same schema
    // with every description and every @deprecated removed
    if delims::has_comments(&tsdoc) {
        let plain_sdl = delims::plain_sdl(&case.sdl).unwrap_or_else(|e| format!("# not parsed: {e}"));
        match with_schema(&[plain_sdl.clone()], |resolved, _| (print_schema_types(resolved, &config), print_resolver_types(resolved, &config))) {
            Err(e) => rep.fail("K", "comments-only:plain-schema-not-accepted", &format!("the schema without descriptions is not accepted: {e:?}\n{plain_sdl}"), case.to_json()),
            Ok((plain_schema, plain_resolvers)) => {
                for (file, with, plain) in [("schema-file", &schema_text, &plain_schema), ("resolvers-file", &resolvers_text, &plain_resolvers)] {
                    rep.o_cases += 1;
                    match (with, plain) {
                        (Ok(w), Ok(p)) => {
                            let Some(pt) = delims::code_tokens(p) else {
                                rep.fail("O", &format!("wellformed:{file}:without-descriptions"), "the file emitted for the description-free schema cannot be tokenised", case.to_json());
                                continue;
                            };
                            // a file that cannot be tokenised is reported by the well-formedness check
                            if let Some(wt) = delims::code_tokens(w) {
                                if wt != pt {
                                    let class = if hostile { "jsdoc-close" } else { "description-changes-code" };
                                    rep.fail(
                                        "O",
                                        &format!("comments-only:{file}:{class}"),
                                        &format!("descriptions must contribute comments only, but without its comments the emitted {file} differs from the one of the description-free schema ({})", delims::first_token_diff(&wt, &pt)),
                                        case.to_json(),
                                    );
                                }
                            }
                        }
                        (Err(a), Err(b)) if a == b => {}
                        (a, b) => rep.fail("O", &format!("comments-only:{file}:outcome"), &format!("with descriptions: {:?}; without: {:?}", a.as_ref().map(|_| "printed"), b.as_ref().map(|_| "printed")), case.to_json()),
                    }
                }
            }
        }
    }
    if case.light {
        // text-level comparisons only; the structural checks of `Resolvers` and of the abstract aliases of the schema file
        // against the abstract model still run
        let view = SchemaView { doc: &ref_doc, scalar_sample: BTreeMap::new(), optional: case.cfg.optional.unwrap_or(true) };
        if let Some(rt) = &real_resolvers {
            check_resolvers(rep, &view, rt, case);
        }
        if let Some(st) = &real_tree {
            check_schema_possible_types(rep, &view, st, case);
        }
        rep.count("mode:text-level-only");
        return;
    }

    // ---- O: membership on the abstract value domain
    let mut texts: BTreeSet<String> = BTreeSet::new();
    for c in eff.values() {
        texts.extend(CfgCase::texts_of(c));
    }
    let texts: Vec<String> = texts.into_iter().collect();
    let empty_file = Sexp::call("tsfile", vec![]);
    let no_mods = Sexp::call("mods", vec![]);
    let mut parsed: BTreeMap<String, Sexp> = BTreeMap::new();
    let mut reqs = vec![];
    for t in &texts {
        let p = tsparse::parse_type(t).expect("checked above");
        reqs.push(Sexp::call("ts.atoms", vec![empty_file.clone(), no_mods.clone(), Sexp::list(vec![]), p.clone()]));
        parsed.insert(t.clone(), p);
    }
    let tag_ans = drv.batch(&reqs);
    let mut tags_of: BTreeMap<String, Vec<String>> = BTreeMap::new();
    let mut all_tags: BTreeSet<String> = BTreeSet::new();
    for (t, a) in texts.iter().zip(tag_ans.iter()) {
        let tags: Vec<String> = a.args().iter().filter_map(|s| s.as_str().map(|x| x.to_string())).collect();
        all_tags.extend(tags.iter().cloned());
        tags_of.insert(t.clone(), tags);
    }
    let mut scalar_sample = BTreeMap::new();
    for (n, c) in &eff {
        for (tg, _) in TARGETS {
            let text = CfgCase::text_for(c, tg);
            let s = sample_of_ts(&parsed[&text], &tags_of[&text]);
            scalar_sample.insert((n.clone(), tg.to_string()), s);
        }
    }
    let view = SchemaView { doc: &ref_doc, scalar_sample, optional: case.cfg.optional.unwrap_or(true) };
    if let Some(rt) = &real_resolvers {
        check_resolvers(rep, &view, rt, case);
    }
    let Some(real_tree) = real_tree else {
        return;
    };
    check_schema_possible_types(rep, &view, &real_tree, case);
    let tags: Vec<String> = all_tags.into_iter().collect();
    let base = base_values(&view, &tags);
    let mut values = base.clone();
    values.extend(list_values(&base));
    let object_names: Vec<String> = view.type_defs().iter().filter(|t| t.kind == TypeKind::Object).map(|t| t.name.clone()).collect();
    for (tg, _) in TARGETS {
        for t in view.type_defs() {
            if !kind_fits(t.kind, tg) {
                continue;
            }
            match t.kind {
                TypeKind::Scalar => {
                    // record-shaped scalar texts
                    if let Some(s @ J::Obj(_)) = view.sample_named(tg, &t.name, 0, true) {
                        record_mutations("scalar-record", &s, &mut values);
                    }
                }
                TypeKind::Object | TypeKind::Input => {
                    let kind = t.kind.as_str();
                    if let Some(full) = view.sample_named(tg, &t.name, 0, true) {
                        record_mutations(&format!("{kind}-record"), &full, &mut values);
                        if t.kind == TypeKind::Object {
                            if let J::Obj(kvs) = &full {
                                for other in &object_names {
                                    if *other != t.name {
                                        let mut m = kvs.clone();
                                        m[0].1 = J::Str(other.clone());
                                        values.push(("object-record:other-typename".into(), J::Obj(m)));
                                    }
                                }
                            }
                        }
                    }
                    if let Some(min) = view.sample_named(tg, &t.name, 0, false) {
                        values.push((format!("{kind}-record:minimal"), min.clone()));
                        if let J::Obj(kvs) = &min {
                            // every nullable field dropped at once
                            let nullable: BTreeSet<String> = t.fields.iter().filter(|f| !f.ty.is_non_null()).map(|f| f.name.clone()).chain(t.inputs.iter().filter(|f| !f.ty.is_non_null()).map(|f| f.name.clone())).collect();
                            values.push((format!("{kind}-record:all-nullable-dropped"), J::Obj(kvs.iter().filter(|(k, _)| !nullable.contains(k)).cloned().collect())));
                        }
                    }
                }
                _ => {}
            }
        }
    }
    let values = dedup(values);
    let vals_sexp = Sexp::list(values.iter().map(|(_, v)| v.to_sexp()).collect());
    // queries
    let mut queries: Vec<(String, String, TypeKind, bool)> = vec![]; // (target, type, kind, toplevel)
    let mut ts_q = vec![];
    let mut ref_q = vec![];
    for (tg, ns) in TARGETS {
        for t in view.type_defs() {
            if !kind_fits(t.kind, tg) {
                continue;
            }
            queries.push((tg.to_string(), t.name.clone(), t.kind, false));
            ts_q.push(Sexp::list(vec![Sexp::list(vec![]), Sexp::call("qref", vec![Sexp::str("M"), Sexp::str(ns), Sexp::str(t.name.as_str())])]));
            ref_q.push(Sexp::list(vec![Sexp::atom(tg), Sexp::str(t.name.as_str())]));
        }
    }
    for t in view.type_defs() {
        let tg = if t.kind == TypeKind::Input { "ri" } else { "oo" };
        queries.push((tg.to_string(), t.name.clone(), t.kind, true));
        // the top-level export: resolved as an importing module would (exported member of the file)
        ts_q.push(Sexp::list(vec![Sexp::list(vec![]), Sexp::call("qref", vec![Sexp::str("M"), Sexp::str(t.name.as_str())])]));
        ref_q.push(Sexp::list(vec![Sexp::atom(tg), Sexp::str(t.name.as_str())]));
    }
    // the real file is linked as module "M" of a one-line importing file, so that `M.X` denotes its EXPORT `X`
    let importer = Sexp::call("tsfile", vec![Sexp::call("import", vec![Sexp::str("m"), Sexp::bool(true), Sexp::call("star", vec![Sexp::str("M")])])]);
    let mods = Sexp::call("mods", vec![Sexp::list(vec![Sexp::str("m"), real_tree.clone()])]);
    let ans = drv.batch(&[
        Sexp::call("ts.table", vec![importer, mods, vals_sexp.clone(), Sexp::list(ts_q)]),
        Sexp::call("ref.table", vec![cfg_sexp.clone(), ref_doc_sexp.clone(), vals_sexp, Sexp::list(ref_q)]),
    ]);
    if ans[0].head() != Some("ok") || ans[1].head() != Some("ok") {
        rep.fail("K", "driver", &format!("driver answers: {} / {}", ans[0].to_line().chars().take(200).collect::<String>(), ans[1].to_line().chars().take(200).collect::<String>()), case.to_json());
        return;
    }
    let mut members = 0u64;
    for (qi, (tg, name, kind, top)) in queries.iter().enumerate() {
        rep.o_cases += 1;
        let tsr = ans[0].args()[qi].as_list().unwrap();
        let rfr = ans[1].args()[qi].as_list().unwrap();
        for (vi, (label, v)) in values.iter().enumerate() {
            rep.evaluations += 1;
            let in_ts = tsr[vi].as_atom() == Some("true");
            let in_ref = rfr[vi].as_atom() == Some("true");
            if in_ref {
                members += 1;
            }
            if in_ts != in_ref {
                let dir = if in_ts { "too-wide" } else { "too-narrow" };
                let clause = label.split(':').next().unwrap_or("").to_string();
                let sig = format!("alias:{}:{}:{}{}{}", kind.as_str(), clause, dir, if *top { ":toplevel" } else { "" }, if tmp_in_text { ":scalar-text-mentions-__tmp_" } else { "" });
                let ns = TARGETS.iter().find(|t| t.0 == tg).unwrap().1;
                let what = format!(
                    "[{label}] {} alias `{}` of {} type {name}: the emitted TypeScript type {} the value {} but Ref_{ns}({name}) {}",
                    if *top { "top-level".to_string() } else { format!("namespace {ns}") },
                    name,
                    kind.as_str(),
                    if in_ts { "admits" } else { "rejects" },
                    v.text(),
                    if in_ref { "contains it" } else { "does not" }
                );
                rep.fail("O", &sig, &what, case.to_json());
            }
        }
    }
    // ---- O (resolvers file): Args and Result of every field resolver, evaluated in the REAL resolvers file linked with
    // the REAL schema file through its `import type * as Schema`, against Ref_ResolverInput(args f) / the resolver
    // result reference of type f
    if let Some(rt) = &real_resolvers {
        resolver_members(rep, drv, &view, rt, &real_tree, &cfg_sexp, &ref_doc_sexp, &values, if tmp_in_text { ":scalar-text-mentions-__tmp_" } else { "" }, case);
    }
    rep.count_n("domain:values", values.len() as u64);
    rep.count_n("domain:aliases", queries.len() as u64);
    rep.count_n("domain:member-pairs", members);
    let nontrivial = view.type_defs().iter().any(|t| matches!(t.kind, TypeKind::Interface | TypeKind::Union)) && view.type_defs().iter().any(|t| t.kind == TypeKind::Input) && !case.cfg.scalars.is_empty();
    if nontrivial {
        rep.nontrivial(&format!("{}|{}", case.sdl, case.cfg.to_json()));
    }
    rep.sample(json!({"origin": case.origin, "types": view.type_defs().len(), "values": values.len(), "aliases": queries.len()}));
}

fn main() {
    quiet_panics();
    let args = Args::parse();
    let mut rep = Report::new("C10", "schema has an interface or union, an input object and a configured scalar mapping; distinct by (SDL, configuration)");
    let mut drv = Driver::spawn(&args.driver);
    if let Some(path) = &args.replay {
        let text = std::fs::read_to_string(path).expect("replay file");
        let v: Value = serde_json::from_str(&text).expect("replay json");
        let case = Case::from_json(&v["case"]);
        run_case(&mut rep, &mut drv, &case);
        rep.write(&args);
        return;
    }
    for c in corpus() {
        rep.count("origin:corpus");
        run_case(&mut rep, &mut drv, &c);
    }
    let mut rng = Rng::new(args.seed ^ 0xC10);
    let boost = if args.extra.get("search").map_or(false, |s| s == "1") { 3 } else { 1 };
    let n = args.budget(30, 400) * boost;
    for i in 0..n {
        let c = generated(&mut rng, i);
        rep.count("origin:generated");
        run_case(&mut rep, &mut drv, &c);
    }
    // stream "delimiter texts" (own random stream: the generated stream above is unchanged)
    let mut rng = Rng::new(args.seed ^ 0xC10_DE11);
    let n = args.budget(80, 1200) * boost;
    for i in 0..n {
        let c = delimiter_case(&mut rng, i);
        rep.count("origin:delimiter-text");
        run_case(&mut rep, &mut drv, &c);
    }
    // stream "interface hierarchies" (own random stream: the streams above are unchanged)
    let t_hier = std::time::Instant::now();
    let mut rng = Rng::new(args.seed ^ 0xC10_1FACE);
    let n = args.budget(60, 600) * boost;
    for i in 0..n {
        let (c, feats) = hierarchy_case(&mut rng, i);
        rep.count("origin:interface-hierarchy");
        for f in feats {
            rep.count(&format!("feature:hier:{f}"));
        }
        let t_case = std::time::Instant::now();
        run_case(&mut rep, &mut drv, &c);
        if std::env::var("NV_TIMING").map_or(false, |v| v == "2") {
            eprintln!("  {} light={} sdl={}B {:?}", c.origin, c.light, c.sdl.len(), t_case.elapsed());
        }
    }
    if std::env::var("NV_TIMING").is_ok() {
        eprintln!("interface-hierarchy stream: {n} cases in {:?}", t_hier.elapsed());
    }
    rep.write(&args);
}
