//! Shared harness library: PRNG, S-expression codec, Lean driver pipe, result reporting.
pub mod prng;
pub mod sexp;
pub mod driver;
pub mod report;
pub mod gm;
pub mod render;
pub mod gen;
pub mod real;
pub mod tsparse;
pub mod cli;

pub use prng::Rng;
pub use sexp::Sexp;
pub use driver::Driver;
pub use report::{Report, Failure, Args};

/// Run `f` catching panics; returns Err(message) on panic.
pub fn catch<T>(f: impl FnOnce() -> T + std::panic::UnwindSafe) -> Result<T, String> {
    match std::panic::catch_unwind(f) {
        Ok(v) => Ok(v),
        Err(e) => {
            let msg = if let Some(s) = e.downcast_ref::<&str>() {
                s.to_string()
            } else if let Some(s) = e.downcast_ref::<String>() {
                s.clone()
            } else {
                "<non-string panic>".to_string()
            };
            Err(msg)
        }
    }
}

/// Silence the default panic hook (we catch panics on purpose and report them ourselves).
pub fn quiet_panics() {
    std::panic::set_hook(Box::new(|_| {}));
}
