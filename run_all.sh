#!/bin/bash
# usage: run_all.sh [seed] [tier]  — runs every claimed check once, prints one summary line per check
seed=${1:-1}; tier=${2:-quick}
cd /verif
for f in checks/C*.json; do
  id=$(basename $f .json)
  if python3 -c "import json,sys; sys.exit(0 if json.load(open('$f')).get('claimed') else 1)"; then
    out=$(VERIF_SEED=$seed ./check $id --tier $tier 2>&1); rc=$?
    echo "$id rc=$rc $(echo "$out" | grep -E "^$id \[" | head -1)"
    echo "$out" | grep -E "^VIOLATION" | head -3
  fi
done
