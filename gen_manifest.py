#!/usr/bin/env python3
"""Regenerates MANIFEST.json from checks.json (+ manifest_meta.json for level texts / not_applicable)."""
import json, os
ROOT = os.path.dirname(os.path.abspath(__file__))
cfg = {}
for name in sorted(os.listdir(os.path.join(ROOT, "checks"))):
    if name.endswith(".json"):
        c = json.load(open(os.path.join(ROOT, "checks", name)))
        if c.get("claimed"):
            cfg[name[:-5]] = c
meta = {"checks": {k: v["manifest"] for k, v in cfg.items()},
        "notes": "See DESIGN.md. Every check = P (Lean theorems, axiom audit) + K (model-vs-code correspondence) + O (spec-vs-code search for a failing input). known-findings.txt lists recorded defects and fix: commits.",
        "not_applicable": {}}
LEVELS = ["exploration", "fault_enumeration", "model_checking", "proof", "translation_validation", "other"]
checks = []
for pid in sorted(cfg):
    m = meta["checks"][pid]
    checks.append({
        "property_id": pid,
        "quick_cmd": f"./check {pid} --tier quick",
        "thorough_cmd": f"./check {pid} --tier thorough",
        "evidence_file": f"/verif/evidence/{pid}.json",
        "replay_cmd_template": f"./check {pid} --replay {{path}}",
        "engine": "lean-proof+correspondence",
        "level_claimed": {"category": (cfg[pid].get("level", "proof") if cfg[pid].get("level", "proof") in LEVELS else "proof"),
                          "text": (m["text"] if cfg[pid].get("level", "proof") in LEVELS or m["text"].lower().startswith("partial") else "Partial: " + m["text"]),
                          "design_ref": m.get("design_ref", f"DESIGN.md §4 {pid}")},
        "level_note": m["note"],
        "technique": m["technique"],
    })
props = [json.loads(l)["id"] for l in open(os.path.join(ROOT, "properties.jsonl"))]
na = [{"property_id": p, "reason": meta["not_applicable"].get(p, "not yet claimed: model/theorems/correspondence for this property are still being built (see DESIGN.md §8 build order)")}
      for p in props if p not in cfg]
man = {
    "version": 1,
    "setup_cmd": "./setup.sh",
    "hooks": {"guard": "nitrogql_verif", "enable": "none needed: every entry point is reachable through public APIs, the built CLI binary, or harness/loader-native (a lib crate whose root is the repository's loader main.rs)",
              "baseline_off_cmd": "cd /repo && cargo test --workspace --no-fail-fast --offline", "source_commits": [], "add_only": True},
    "engines": [{"name": "lean-proof+correspondence", "path": "/verif/check", "serves_properties": sorted(cfg),
                 "kind_free_text": "Lean 4 theorems about executable models (lean/NitroVerif), tied to /repo by translators and by a Rust differential harness (harness/) that pipes the same requests to the compiled Lean drivers"}],
    "checks": checks,
    "notes": meta.get("notes", ""),
    "not_applicable": na,
}
json.dump(man, open(os.path.join(ROOT, "MANIFEST.json"), "w"), indent=1)
print("MANIFEST.json:", len(checks), "checks,", len(na), "not claimed")
