import NitroVerif.Base.Sexp
import NitroVerif.Model.Paths
open NitroVerif NitroVerif.Paths

def handle : Sexp → Sexp
  | .list [.atom "norm", .str p] => Sexp.ok [.str (render (normalize (components p)))]
  | .list [.atom "rel", .str a, .str b] =>
    match relative (components a) (components b) with
    | some r => Sexp.ok [.str (render r)]
    | none => .list [.atom "panic"]
  | .list [.atom "res", .str a, .str r] => Sexp.ok [.str (render (resolve (components a) (components r)))]
  | .list [.atom "comps", .str p] => Sexp.ok ((components p).map fun c => .str (compText c))
  | .list [.atom "flush"] => .list [.atom "flushed"]
  | _ => .list [.atom "bad-request"]

def main : IO Unit := serveLoop handle
