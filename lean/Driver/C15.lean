import NitroVerif.Base.Sexp
import NitroVerif.Base.JsonSexp
import NitroVerif.Gql.Codec
import NitroVerif.Model.SchemaIR
import NitroVerif.Model.AstSchema
import NitroVerif.Model.Introspect
import NitroVerif.Model.CliSchema
import NitroVerif.Spec.IntrospectSpec
/-!
Driver of C15 (exe `nv_c15`).
  (introspect.spec (tsdoc …))      → (ok <json>)                     reference introspection result of a type-system document
  (introspect.read <json>)         → (ok <schema>) | (err json) | (err intro <msg>)      model of `schema_from_introspection_json`
  (ast.schema (tsdoc …))           → (ok <schema>)                   model of `ast_to_type_system`
  (roundtrip.json <json>)          → (ok (tsdoc …)) | (err …)        `type_system_to_ast(schema_from_introspection_json(j))`
  (roundtrip.ast (tsdoc …))        → (ok (tsdoc …))                  `type_system_to_ast(ast_to_type_system(d))`
  (route.json <json>)              → (ok <schema>) | (err …)         the schema the CLI checks against on the JSON route
  (route.sdl (tsdoc …))            → (ok <schema>)                   the schema the CLI checks against on the SDL route (built-ins appended)
  (equiv A B)                      → (ok true) | (ok false "diff"…) | (err …)
        A, B := (json <json>) | (ast (tsdoc …)) | (route.json <json>) | (route.sdl (tsdoc …))

  json   := (null) | (bool true|false) | (num "raw") | (str "s") | (arr json…) | (obj ("key" json)…)
  schema := (schema desc (roots explicit:bool root root root) (types T…) (directives D…))
  root   := (some "N") | (none)
  T      := (type KIND "name" desc (fields F…) (interfaces "I"…) (possible "P"…) (members M…) (inputs IV…))
  F      := (field "name" desc TY (args IV…) dep)
  IV     := (iv "name" desc TY (default "text")|(nodefault) dep)
  M      := (member "name" desc dep)
  D      := (directive "name" desc (locations "L"…) (args IV…) repeatable:bool)
  dep    := (dep "reason") | (nodep)        desc := (desc "text") | (nodesc)
  TY     := (named "N") | (list TY) | (nonnull TY)
-/
open NitroVerif NitroVerif.Gql NitroVerif.SchemaIR

def encDesc : Option String → Sexp
  | some s => .list [.atom "desc", .str s]
  | none => .list [.atom "nodesc"]

def encDep : Option String → Sexp
  | some s => .list [.atom "dep", .str s]
  | none => .list [.atom "nodep"]

def encTy : IType → Sexp
  | .named n => .list [.atom "named", .str n]
  | .list t => .list [.atom "list", encTy t]
  | .nonNull t => .list [.atom "nonnull", encTy t]

def encIV (v : IInputValue) : Sexp :=
  .list [.atom "iv", .str v.name, encDesc v.desc, encTy v.ty,
    (match v.default with | some d => .list [.atom "default", .str d] | none => .list [.atom "nodefault"]), encDep v.deprecation]

def encField (f : IField) : Sexp :=
  .list [.atom "field", .str f.name, encDesc f.desc, encTy f.ty, .list (.atom "args" :: f.args.map encIV), encDep f.deprecation]

def encMember (m : IEnumMember) : Sexp := .list [.atom "member", .str m.name, encDesc m.desc, encDep m.deprecation]

def kindAtom : IKind → Sexp
  | .scalar => .atom "scalar" | .object => .atom "object" | .interface => .atom "interface"
  | .union => .atom "union" | .enum => .atom "enum" | .input => .atom "input"

def encTypeDef (t : ITypeDef) : Sexp :=
  .list [.atom "type", kindAtom t.kind, .str t.name, encDesc t.desc,
    .list (.atom "fields" :: t.fields.map encField), .list (.atom "interfaces" :: t.interfaces.map .str),
    .list (.atom "possible" :: t.possible.map .str), .list (.atom "members" :: t.members.map encMember),
    .list (.atom "inputs" :: t.inputs.map encIV)]

def encDirective (d : IDirectiveDef) : Sexp :=
  .list [.atom "directive", .str d.name, encDesc d.desc, .list (.atom "locations" :: d.locations.map .str),
    .list (.atom "args" :: d.args.map encIV), Sexp.ofBool d.repeatable]

def encRoot : Option String → Sexp
  | some n => .list [.atom "some", .str n]
  | none => .list [.atom "none"]

def encSchema (s : Schema) : Sexp :=
  .list [.atom "schema", encDesc s.desc,
    .list [.atom "roots", Sexp.ofBool s.explicitRoots, encRoot s.roots.query, encRoot s.roots.mutation, encRoot s.roots.subscription],
    .list (.atom "types" :: s.types.map encTypeDef), .list (.atom "directives" :: s.directives.map encDirective)]

def msgAtom : Introspect.IMsg → String
  | .nameMustBeString => "name-must-be-string" | .ofTypeMustExist => "oftype-must-exist"
  | .invalidKind => "invalid-kind" | .unknownKind => "unknown-kind" | .unionPossibleTypes => "union-possible-types"
  | .enumEnumValues => "enum-enum-values" | .inputInputFields => "input-input-fields"

def encErr : Introspect.IErr → Sexp
  | .json => .list [.atom "err", .atom "json"]
  | .intro m => .list [.atom "err", .atom "intro", .atom (msgAtom m)]

def badReq : Sexp := .list [.atom "bad-request"]

/-- a schema source expression -/
def source : Sexp → Option (Except Introspect.IErr Schema)
  | .list [.atom "json", j] => (Json.ofSexp j).map Introspect.fromIntrospection
  | .list [.atom "ast", d] => (Dec.tsDoc d).map fun d => .ok (AstSchema.astToSchema d)
  | .list [.atom "route.json", j] => (Json.ofSexp j).map CliSchema.routeJson
  | .list [.atom "route.sdl", d] => (Dec.tsDoc d).map fun d => .ok (CliSchema.routeSdl d)
  | _ => none

def withSchema (r : Option (Except Introspect.IErr Schema)) (f : Schema → Sexp) : Sexp :=
  match r with
  | none => badReq
  | some (.error e) => encErr e
  | some (.ok s) => f s

def handle : Sexp → Sexp
  | .list [.atom "introspect.spec", d] =>
    match Dec.tsDoc d with
    | some d => Sexp.ok [(IntrospectSpec.introspectSpec d).toSexp]
    | none => badReq
  | .list [.atom "introspect.read", j] => withSchema (source (.list [.atom "json", j])) fun s => Sexp.ok [encSchema s]
  | .list [.atom "ast.schema", d] => withSchema (source (.list [.atom "ast", d])) fun s => Sexp.ok [encSchema s]
  | .list [.atom "route.json", j] => withSchema (source (.list [.atom "route.json", j])) fun s => Sexp.ok [encSchema s]
  | .list [.atom "route.sdl", d] => withSchema (source (.list [.atom "route.sdl", d])) fun s => Sexp.ok [encSchema s]
  | .list [.atom "roundtrip.json", j] =>
    withSchema (source (.list [.atom "json", j])) fun s => Sexp.ok [Enc.tsDoc (AstSchema.schemaToAst s)]
  | .list [.atom "roundtrip.ast", d] =>
    withSchema (source (.list [.atom "ast", d])) fun s => Sexp.ok [Enc.tsDoc (AstSchema.schemaToAst s)]
  | .list [.atom "equiv", a, b] =>
    match source a, source b with
    | some (.ok x), some (.ok y) =>
      if equivB x y then Sexp.ok [.atom "true"] else Sexp.ok (.atom "false" :: (equivDiff x y).map .str)
    | some (.error e), _ => encErr e
    | _, some (.error e) => encErr e
    | _, _ => badReq
  | .list [.atom "flush"] => .list [.atom "flushed"]
  | _ => badReq

def main : IO Unit := serveLoop handle
