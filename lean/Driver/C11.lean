import NitroVerif.Base.Sexp
import NitroVerif.Gql.Codec
import NitroVerif.Model.ExtResolve
import NitroVerif.Spec.ExtMerge
/-!
Line-protocol driver for C11.

request  (ext.resolve (tsdoc item…))   → model of `resolve_schema_extensions`:
           (ok (tsdoc item…))
         | (err DuplicateOriginal "<name_of_elem>" "<name>" <first pos> <second pos>)
         | (err NoOriginal "<name_of_elem>" <first_extension pos>)
request  (ext.ref (tsdoc item…))       → reference merge (`Spec/ExtMerge.refResolve`):
           (ok (tsdoc item…))            directive definitions, then every definition merged, in document order
         | (fail dup-original? orphan?)  the failure conditions that hold
-/
open NitroVerif NitroVerif.Gql

def errSexp : ExtResolve.ExtError → Sexp
  | .duplicateOriginal elem name first second =>
    .list [.atom "err", .atom "DuplicateOriginal", .str elem, .str name, Enc.pos first, Enc.pos second]
  | .noOriginal elem p => .list [.atom "err", .atom "NoOriginal", .str elem, Enc.pos p]

def handle : Sexp → Sexp
  | .list [.atom "ext.resolve", d] =>
    match Dec.tsDoc d with
    | none => .list [.atom "bad-request", .str "tsdoc"]
    | some doc =>
      match ExtResolve.resolve doc with
      | .ok out => Sexp.ok [Enc.tsDoc out]
      | .error e => errSexp e
  | .list [.atom "ext.ref", d] =>
    match Dec.tsDoc d with
    | none => .list [.atom "bad-request", .str "tsdoc"]
    | some doc =>
      match ExtMerge.refResolve doc with
      | some out => Sexp.ok [Enc.tsDoc out]
      | none =>
        .list (.atom "fail" ::
          ((if ExtMerge.NoDupOriginal doc then [] else [Sexp.atom "dup-original"]) ++
           (if ExtMerge.NoOrphan doc then [] else [Sexp.atom "orphan"])))
  | .list [.atom "flush"] => .list [.atom "flushed"]
  | _ => .list [.atom "bad-request"]

def main : IO Unit := serveLoop handle
