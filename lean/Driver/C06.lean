import NitroVerif.Base.Sexp
import NitroVerif.Model.SourceMap
import NitroVerif.Spec.SourceMap
import NitroVerif.Model.PrintMap
import NitroVerif.Gql.Codec
/-!
Line-protocol driver for C06 (exe `nv_c06`).

Model side (`NitroVerif.SourceMap`):
  (vlq.enc n)                                  → (ok "text")
  (map.run (e gl gc ol oc src name|none) …)    → (ok "mappings") | (panic)          MappingWriter on raw entries
  (writer.run op …)                            → (ok "buffer" "mappings" ("name" …) line col) | (panic)
       op ::= (w "chunk") | (wf "chunk" line col file builtin ["name"]) | (in) | (de) | (map n …)
  (files.op nSchema nOps used …) / (files.schema nSchema nOps) → (ok (fileIndices …) (sourceFiles …))
Printer call sites (`NitroVerif.PrintMap`):
  (sites.schema cfg (tsdoc …))                 → (ok op…) | (err "ScalarTypeNotProvided" "Name")     every call, in order
  (sites.resolvers (tsdoc …))                  → (ok op…)                                           every call, in order
  (sites.optype opts (doc …) (pos…))           → (ok op…)      the write_for calls with a non-builtin position, in order
  (sites.opjs opts (doc …))                    → (ok op…)      the same for the JavaScript module
  (sites.optype.full fopts (tsdoc …) (doc …) (pos…) docFile) → (ok op…) | (err "types"|"runtime")   EVERY call of the type printer
  (sites.opjs.full fopts (doc …) docFile)      → (ok op…) | (err "runtime")                          EVERY call of the JS printer
       op   ::= (w "text") | (wf "text" pos "name"|(noname)) | (in) | (de)
       fopts ::= (fopts opts BOOL(defaultExport) BOOL(namedExport) BOOL(exportInput) BOOL(exportResult) "ns" "schemaSource"
                        "typedDocumentNodeSource" BOOL(optionalInput))
       cfg  ::= (cfg (scalars SC…) (optional BOOL) (runtime BOOL))
       SC   ::= (single "N" "t") | (sendrecv "N" "send" "receive") | (separate "N" "ro" "ri" "oo" "oi")
       opts ::= (opts BOOL(capitalize) "query" "mutation" "subscription" "fragmentVariable" "result" "variables" "fragmentType" BOOL(printValues))
Spec side (`NitroVerif.SourceMapSpec`):
  (vlq.dec "text")                             → (ok n "rest") | (err)
  (sm.decode "mappings")                       → (ok (l (s gc) (s gc src ol oc) (s gc src ol oc name) …) …) | (err)
  (sm.strict "mappings")                       → (ok true|false)
  (sm.check "generated" "mappings" nSources nNames) → (ok) | (bad (problem line idx [value]) …)
-/
open NitroVerif

namespace C06Driver
open NitroVerif.SourceMap

def str (cs : List Char) : Sexp := .str (String.ofList cs)

def parseEntry : Sexp → Option Entry
  | .list [.atom "e", gl, gc, ol, oc, src, nm] => do
    let gl ← gl.nat?; let gc ← gc.nat?; let ol ← ol.nat?; let oc ← oc.nat?; let src ← src.nat?
    let name ← (match nm with
      | .atom "none" => some none
      | x => x.nat?.map some)
    some ⟨gl, gc, ol, oc, src, name⟩
  | _ => none

def parseEntries : List Sexp → Option (List Entry)
  | [] => some []
  | x :: xs => do let e ← parseEntry x; let es ← parseEntries xs; some (e :: es)

def runEntries (st : MState) : List Entry → Option MState
  | [] => some st
  | e :: es => match addEntry? st e with
    | none => none
    | some st' => runEntries st' es

def parseNats : List Sexp → Option (List Nat)
  | [] => some []
  | x :: xs => do let n ← x.nat?; let ns ← parseNats xs; some (n :: ns)

def parseBool : Sexp → Option Bool
  | .atom "true" => some true
  | .atom "false" => some false
  | _ => none

def parseOp : Sexp → Option Op
  | .list [.atom "w", .str c] => some (.write c.toList)
  | .list [.atom "wf", .str c, l, co, f, b] => do
    let l ← l.nat?; let co ← co.nat?; let f ← f.nat?; let b ← parseBool b
    some (.writeFor c.toList ⟨l, co, f, b, none⟩)
  | .list [.atom "wf", .str c, l, co, f, b, .str nm] => do
    let l ← l.nat?; let co ← co.nat?; let f ← f.nat?; let b ← parseBool b
    some (.writeFor c.toList ⟨l, co, f, b, some nm.toList⟩)
  | .list [.atom "in"] => some .indent
  | .list [.atom "de"] => some .dedent
  | .list (.atom "map" :: ns) => (parseNats ns).map .setMapper
  | _ => none

def parseOps : List Sexp → Option (List Op)
  | [] => some []
  | x :: xs => do let o ← parseOp x; let os ← parseOps xs; some (o :: os)

/-- run the writer; afterwards replay the logged entries through the panicking `addEntry?`
    (a debug build panics on isize overflow of a delta) -/
def writerRun (ops : List Op) : Sexp :=
  match run lruPolicy WState.init ops with
  | none => .list [.atom "panic"]
  | some st =>
    match runEntries MState.init st.mapping.log with
    | none => .list [.atom "panic"]
    | some _ =>
      Sexp.ok [str st.buf, str st.mapping.buf, .list (st.names.names.map str), Sexp.ofNat st.line, Sexp.ofNat st.col]

end C06Driver

namespace C06Spec
open NitroVerif.SourceMapSpec

def digits : List Char → Option (List Nat)
  | [] => some []
  | c :: cs => do let d ← b64Val c; let ds ← digits cs; some (d :: ds)

/-- decode one VLQ from the front of a text; the rest is returned as text -/
def vlqDec (s : List Char) : Sexp :=
  -- longest prefix of base64 characters
  let pre := s.takeWhile (fun c => (b64Val c).isSome)
  match digits pre with
  | none => .list [.atom "err"]
  | some ds => match vlqDecode ds with
    | none => .list [.atom "err"]
    | some (n, rest) => Sexp.ok [Sexp.ofInt n, .str (String.ofList (s.drop (pre.length - rest.length)))]

def segSexp (s : Segment) : Sexp :=
  .list ([.atom "s", Sexp.ofInt s.genCol]
    ++ (match s.orig with
        | none => []
        | some (a, b, c) => [Sexp.ofInt a, Sexp.ofInt b, Sexp.ofInt c])
    ++ (match s.name with
        | none => []
        | some n => [Sexp.ofInt n]))

def problemSexp : Problem → Sexp
  | .undecodable => .list [.atom "undecodable"]
  | .moreLinesThanText l => .list [.atom "more-lines-than-text", Sexp.ofNat l]
  | .unordered l i => .list [.atom "unordered", Sexp.ofNat l, Sexp.ofNat i]
  | .genColNegative l i => .list [.atom "gen-col-negative", Sexp.ofNat l, Sexp.ofNat i]
  | .genColPastEnd l i => .list [.atom "gen-col-past-end", Sexp.ofNat l, Sexp.ofNat i]
  | .sourceNegative l i v => .list [.atom "source-negative", Sexp.ofNat l, Sexp.ofNat i, Sexp.ofInt v]
  | .sourceOutOfRange l i v => .list [.atom "source-out-of-range", Sexp.ofNat l, Sexp.ofNat i, Sexp.ofInt v]
  | .origNegative l i => .list [.atom "orig-negative", Sexp.ofNat l, Sexp.ofNat i]
  | .nameNegative l i => .list [.atom "name-negative", Sexp.ofNat l, Sexp.ofNat i]
  | .nameOutOfRange l i => .list [.atom "name-out-of-range", Sexp.ofNat l, Sexp.ofNat i]

end C06Spec

namespace C06Sites
open NitroVerif.Gql NitroVerif.DeclCfg NitroVerif.PrintMap

def decScalar : Sexp → Option (Name × ScalarCfg)
  | .list [.atom "single", .str n, .str t] => some (n, .single t)
  | .list [.atom "sendrecv", .str n, .str s, .str r] => some (n, .sendReceive s r)
  | .list [.atom "separate", .str n, .str ro, .str ri, .str oo, .str oi] => some (n, .separate ro ri oo oi)
  | _ => none

def decCfg : Sexp → Option Cfg
  | .list [.atom "cfg", .list (.atom "scalars" :: scs), .list [.atom "optional", o], .list [.atom "runtime", r]] => do
    let scalars ← scs.mapM decScalar
    some { scalars, optionalInput := ← Gql.Dec.bool? o, emitSchemaRuntime := ← Gql.Dec.bool? r }
  | _ => none

def decOpts : Sexp → Option OpOpts
  | .list [.atom "opts", cap, .str q, .str m, .str s, .str fv, .str r, .str v, .str ft, pv] => do
    some { capitalize := ← Gql.Dec.bool? cap, querySuffix := q, mutationSuffix := m, subscriptionSuffix := s,
           fragmentVariableSuffix := fv, resultSuffix := r, variablesSuffix := v, fragmentTypeSuffix := ft,
           printValues := ← Gql.Dec.bool? pv }
  | _ => none

def decFullOpts : Sexp → Option FullOpts
  | .list [.atom "fopts", o, de, ne, ei, er, .str ns, .str ss, .str tdn, oi] => do
    some { names := ← decOpts o, defaultExport := ← Gql.Dec.bool? de, namedExport := ← Gql.Dec.bool? ne,
           exportInput := ← Gql.Dec.bool? ei, exportResult := ← Gql.Dec.bool? er, ns, schemaSource := ss,
           typedDocumentNodeSource := tdn, optionalInput := ← Gql.Dec.bool? oi }
  | _ => none

def encErr : OpErr → Sexp
  | .types _ => .list [.atom "err", .str "types"]
  | .runtime _ => .list [.atom "err", .str "runtime"]

def encOp : POp → Sexp
  | .write t => .list [.atom "w", .str t]
  | .writeFor t p (some n) => .list [.atom "wf", .str t, Gql.Enc.pos p, .str n]
  | .writeFor t p none => .list [.atom "wf", .str t, Gql.Enc.pos p, .list [.atom "noname"]]
  | .indent => .list [.atom "in"]
  | .dedent => .list [.atom "de"]

def handle? : Sexp → Option Sexp
  | .list [.atom "sites.schema", c, d] =>
    match decCfg c, Gql.Dec.tsDoc d with
    | some c, some d =>
      match schemaOps c d with
      | .ok ops => some (Sexp.ok (ops.map encOp))
      | .error n => some (.list [.atom "err", .str "ScalarTypeNotProvided", .str n])
    | _, _ => some (.list [.atom "bad-request"])
  | .list [.atom "sites.resolvers", d] =>
    match Gql.Dec.tsDoc d with
    | some d => some (Sexp.ok ((resolverOps d).map encOp))
    | none => some (.list [.atom "bad-request"])
  | .list [.atom "sites.optype", o, d, .list ps] =>
    match decOpts o, Gql.Dec.doc d, ps.mapM Gql.Dec.pos with
    | some o, some d, some ps => some (Sexp.ok ((opTypeSites o d ps).map encOp))
    | _, _, _ => some (.list [.atom "bad-request"])
  | .list [.atom "sites.optype.full", o, t, d, .list ps, f] =>
    match decFullOpts o, Gql.Dec.tsDoc t, Gql.Dec.doc d, ps.mapM Gql.Dec.pos, f.nat? with
    | some o, some t, some d, some ps, some f =>
      match opTypeOps o ⟨t⟩ d f ps with
      | .ok ops => some (Sexp.ok (ops.map encOp))
      | .error e => some (encErr e)
    | _, _, _, _, _ => some (.list [.atom "bad-request"])
  | .list [.atom "sites.opjs.full", o, d, f] =>
    match decFullOpts o, Gql.Dec.doc d, f.nat? with
    | some o, some d, some f =>
      match opJsOps o d f with
      | .ok ops => some (Sexp.ok (ops.map encOp))
      | .error e => some (encErr e)
    | _, _, _ => some (.list [.atom "bad-request"])
  | .list [.atom "sites.opjs", o, d] =>
    match decOpts o, Gql.Dec.doc d with
    | some o, some d => some (Sexp.ok ((opJsSites o d).map encOp))
    | _, _ => some (.list [.atom "bad-request"])
  | _ => none

end C06Sites

open NitroVerif.SourceMap in
def handleBase : Sexp → Sexp
  | .list [.atom "vlq.enc", n] =>
    match n.int? with
    | some n => Sexp.ok [C06Driver.str (vlqStr n)]
    | none => .list [.atom "bad-request"]
  | .list [.atom "vlq.dec", .str s] => C06Spec.vlqDec s.toList
  | .list (.atom "map.run" :: es) =>
    match C06Driver.parseEntries es with
    | none => .list [.atom "bad-request"]
    | some es => match C06Driver.runEntries MState.init es with
      | none => .list [.atom "panic"]
      | some st => Sexp.ok [C06Driver.str st.buf]
  | .list (.atom "writer.run" :: ops) =>
    match C06Driver.parseOps ops with
    | none => .list [.atom "bad-request"]
    | some ops => C06Driver.writerRun ops
  | .list (.atom "files.op" :: a :: b :: used) =>
    match a.nat?, b.nat?, C06Driver.parseNats used with
    | some a, some b, some used =>
      let fi := fileIndicesOp a b used
      Sexp.ok [.list (fi.map Sexp.ofNat), .list ((sourceFiles fi).map Sexp.ofNat)]
    | _, _, _ => .list [.atom "bad-request"]
  | .list [.atom "files.schema", a, b] =>
    match a.nat?, b.nat? with
    | some a, some b =>
      let fi := fileIndicesSchema a b
      Sexp.ok [.list (fi.map Sexp.ofNat), .list ((sourceFiles fi).map Sexp.ofNat)]
    | _, _ => .list [.atom "bad-request"]
  | .list [.atom "sm.decode", .str s] =>
    match NitroVerif.SourceMapSpec.decodeMappings s.toList with
    | none => .list [.atom "err"]
    | some lines => Sexp.ok (lines.map fun l => .list (.atom "l" :: l.map C06Spec.segSexp))
  | .list [.atom "sm.strict", .str s] => Sexp.ok [Sexp.ofBool (NitroVerif.SourceMapSpec.strictSegments s.toList)]
  | .list [.atom "sm.check", .str g, .str m, ns, nn] =>
    match ns.nat?, nn.nat? with
    | some ns, some nn =>
      match NitroVerif.SourceMapSpec.checkMap g.toList m.toList ns nn with
      | [] => .list [.atom "ok"]
      | ps => .list (.atom "bad" :: ps.map C06Spec.problemSexp)
    | _, _ => .list [.atom "bad-request"]
  | .list [.atom "flush"] => .list [.atom "flushed"]
  | _ => .list [.atom "bad-request"]

def handle (x : Sexp) : Sexp :=
  match C06Sites.handle? x with
  | some r => r
  | none => handleBase x

def main : IO Unit := serveLoop handle
