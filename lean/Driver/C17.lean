import NitroVerif.Base.Sexp
import NitroVerif.Model.Determinism
import NitroVerif.Gen.HashSites
open NitroVerif NitroVerif.Determinism

/-
Line protocol of the C17 model driver.
  (idents "<text>")                                   → (ok "id" …)                 `identifiers`
  (localnames (texts ("<ts text>" …) …) (types "T" …)) → (ok ("T" "local") …)        `bag` + `localTypeNames` (via `getLast`)
  (required (file "path" "import" …) …)               → (ok (order "p" …) (variants n) (all ("p" …) …))
        `requiredFiles` for the given iteration order, the number of distinct results over ALL permutations of the
        iteration order (the model's prediction of order dependence on this input) and those results
  (sites)                                             → (ok (site "file" "fn" "expr" count class) …)   `Gen.HashSites.sites`
-/

def strs (xs : List Sexp) : List String := xs.filterMap fun | .str s => some s | _ => none

/-- all permutations (driver only; inputs have at most 5 files) -/
def insertEverywhere {α : Type} (a : α) : List α → List (List α)
  | [] => [[a]]
  | b :: bs => (a :: b :: bs) :: (insertEverywhere a bs).map (b :: ·)

def permutations {α : Type} : List α → List (List α)
  | [] => [[]]
  | a :: as => (permutations as).flatMap (insertEverywhere a)

def dedup {α : Type} [BEq α] (l : List α) : List α :=
  l.foldl (fun acc x => if acc.contains x then acc else acc ++ [x]) []

def classOf : Gen.HashSites.Verdict → String
  | .insensitive _ => "order-insensitive"
  | .sensitive _ => "order-sensitive"
  | .notHash _ => "not-hash"

def handle : Sexp → Sexp
  | .list [.atom "idents", .str t] =>
    Sexp.ok ((identifiers t.toList).map fun cs => .str (String.ofList cs))
  | .list [.atom "localnames", .list (.atom "texts" :: groups), .list (.atom "types" :: tys)] =>
    let it : List (List (List Char)) := groups.map fun
      | .list xs => (strs xs).map String.toList
      | _ => []
    let names := (strs tys).map String.toList
    let m := localTypeNames (bag it) names
    Sexp.ok (names.map fun n =>
      .list [.str (String.ofList n), .str (String.ofList ((getLast m n).getD []))])
  | .list (.atom "required" :: files) =>
    let it : List (String × List String) := files.filterMap fun
      | .list (.atom "file" :: .str p :: imps) => some (p, strs imps)
      | _ => none
    let here := requiredFiles it
    let all := dedup ((permutations it).map requiredFiles)
    Sexp.ok [.list (.atom "order" :: here.map .str), .list [.atom "variants", .atom (toString all.length)],
      .list (.atom "all" :: all.map fun r => .list (r.map .str))]
  | .list [.atom "sites"] =>
    Sexp.ok (Gen.HashSites.sites.map fun s =>
      .list [.atom "site", .str s.file, .str s.fn, .str s.expr, .atom (toString s.count), .atom (classOf s.verdict)])
  | .list [.atom "flush"] => .list [.atom "flushed"]
  | _ => .list [.atom "bad-request"]

def main : IO Unit := serveLoop handle
