import NitroVerif.Base.Sexp
import NitroVerif.Gql.Codec
import NitroVerif.Model.JsTemplate
import NitroVerif.Model.GqlPrint
import NitroVerif.Spec.Cook
import NitroVerif.Spec.GqlString
import NitroVerif.Spec.StripDirective
open NitroVerif NitroVerif.Gql

def okStr (cs : List Char) : Sexp := Sexp.ok [.str (String.ofList cs)]
def optStr : Option (List Char) → Sexp
  | some cs => okStr cs
  | none => .list [.atom "none"]
def bad : Sexp := .list [.atom "bad-request"]

/-- `Plugin::transform_document_for_runtime_server` of the natively available plugins, by short name:
    the model plugin returns the document without `@model`; the graphql-scalars plugin has no transform (`None`). -/
def pluginTransform (p : String) (d : TsDoc) : Option TsDoc :=
  if p = "model" then some (GqlPrint.removeModel d) else none

/-- generate.rs: `config.plugins.iter().fold(remove_builtins(schema), |schema, plugin| match
    plugin.transform_document_for_runtime_server(&schema) { Some(next) => next, None => schema })` -/
def runtimeServerSchema (d : TsDoc) (ps : List String) : TsDoc :=
  ps.foldl (fun d p => (pluginTransform p d).getD d) (GqlPrint.removeBuiltins d)

def pluginNames : Sexp → Option (List String)
  | .list xs => xs.mapM fun | .str s => some s | _ => none
  | _ => none

def handle : Sexp → Sexp
  | .list [.atom "js.body", .str s] => okStr (JsTemplate.jsStringBody s.toList)
  | .list [.atom "js.cook", .str s] => optStr (Cook.cook s.toList)
  | .list [.atom "js.unbroken", .str s] => Sexp.ok [Sexp.ofBool (Cook.unbroken false false s.toList)]
  | .list [.atom "gql.print-string", .str s] => okStr (GqlPrint.printString s.toList)
  | .list [.atom "gql.decode-string", .str s] => optStr (GqlString.decodeStringLiteral s.toList)
  | .list [.atom "gql.block-value", .str s] => okStr (GqlString.blockStringValue s.toList)
  | .list [.atom "gql.print.ts", d] =>
    match Dec.tsDoc d with
    | some d => okStr (GqlPrint.text (GqlPrint.printTsDoc d))
    | none => bad
  | .list [.atom "gql.print.tsext", d] =>
    match Dec.tsDoc d with
    | some d => okStr (GqlPrint.text (GqlPrint.printTsExtDoc d))
    | none => bad
  | .list [.atom "gql.print.op", d] =>
    match Dec.doc d with
    | some d => okStr (GqlPrint.text (GqlPrint.printDoc d))
    | none => bad
  | .list [.atom "gql.strip", d, m] =>
    match Dec.tsDoc d, Dec.bool? m with
    | some d, some m =>
      let d := GqlPrint.removeBuiltins d
      Sexp.ok [Enc.tsDoc (if m then GqlPrint.removeModel d else d)]
    | _, _ => bad
  | .list [.atom "gql.strip-spec", d, m] =>
    match Dec.tsDoc d, Dec.bool? m with
    | some d, some m =>
      let d := Strip.stripDirective GqlPrint.nitroName d
      Sexp.ok [Enc.tsDoc (if m then Strip.stripDirective GqlPrint.modelName d else d)]
    | _, _ => bad
  | .list [.atom "gql.server-module", d, m] =>
    match Dec.tsDoc d, Dec.bool? m with
    | some d, some m => okStr (GqlPrint.serverGraphqlOutput d m)
    | _, _ => bad
  | .list [.atom "gql.strip-plugins", d, ps] =>
    match Dec.tsDoc d, pluginNames ps with
    | some d, some ps => Sexp.ok [Enc.tsDoc (runtimeServerSchema d ps)]
    | _, _ => bad
  | .list [.atom "gql.server-module-plugins", d, ps] =>
    match Dec.tsDoc d, pluginNames ps with
    | some d, some ps =>
      okStr (JsTemplate.serverModule (GqlPrint.ops (GqlPrint.printTsDoc (runtimeServerSchema d ps))))
    | _, _ => bad
  | .list [.atom "flush"] => .list [.atom "flushed"]
  | _ => bad

def main : IO Unit := serveLoop handle
