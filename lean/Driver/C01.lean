import NitroVerif.Base.Sexp
import NitroVerif.Gql.Codec
import NitroVerif.Ts.Codec
import NitroVerif.Ts.SemCodec
import NitroVerif.Model.OpTypes
import NitroVerif.Spec.Exec
import NitroVerif.Ts.SelSem
/-!
Line-protocol driver for C01 / C02 (C02 reuses it).

  (op.types (tsdoc …resolved schema…) (doc …) (opts capitalize:bool "ResultSuffix" "FragmentSuffix" exportResult:bool "Schema"))
      → (decls (type "Name" exported:bool T) | (type "Name" exported:bool (panic KIND)) …)      -- model: toTs (implTree …)
  (oracle.c01 (tsdoc …) (doc …) (tsfile …operation file…) (tsfile …schema file…) cap)
      → (ok n) | (counterexample (op "Name") (sigma ("v" true)…) (value J)) | (err "…")
        enumerate Exec responses of every operation / fragment; test membership in the REAL emitted type
  (oracle.c02 (tsdoc …) (doc …) (tsfile …operation file…) (tsfile …schema file…) cap)
      → (ok n) | (counterexample (op "Name") (kind "…") (value J)) | (err "…")
        enumerate the abstract value domain (mutants of responses); a value the REAL type admits must be in RefLocal
  (exec.enum (tsdoc …) (doc …) (tsfile …schema file…) cap) → (values (op "Name" (J…))…)          -- for inspection
-/
open NitroVerif NitroVerif.Gql NitroVerif.OpTypes NitroVerif.Ts

def panicSexp : Panic → Sexp
  | .typeSystemError => .atom "type-system-error"
  | .mergeFieldsDifferentTypes => .atom "merge-fields"
  | .mergeTreesDifferentTypes => .atom "merge-trees"
  | .outOfFuel => .atom "out-of-fuel"

def parseOpts : Sexp → Option Opts
  | .list [.atom "opts", c, .str rs, .str fs, e, .str ns] => do
    some { capitalize := ← Gql.Dec.bool? c, resultSuffix := rs, fragmentSuffix := fs, exportResult := ← Gql.Dec.bool? e, ns := ns }
  | _ => none

def declSexp (d : OpTypes.Decl) : Sexp :=
  .list [.atom "type", .str d.name, Sexp.ofBool d.exported,
    match d.ty with
    | .ok t => Ts.Enc.ty t
    | .error p => .list [.atom "panic", panicSexp p]]

/-- names of the result-type statements of the operation file, in document order (to find the REAL types) -/
def resultNames (d : Doc) (o : Opts) : List (String × ExecDef) :=
  d.filterMap fun x => match x with
    | .op op =>
      let nm := match op.name with
        | some (n, _) => if o.capitalize then capitalize n else n
        | none => ""
      some (nm ++ o.resultSuffix, x)
    | .frag f => some (f.name ++ o.fragmentSuffix, x)
    | .imp _ => none

/-- the `type` statements of a file in order: (name, type) -/
def typeStmts (f : Ts.File) : List (String × Ty) :=
  f.filterMap fun s => match s with
    | .type _ n _ t => some (n, t)
    | _ => none

/-- the REAL emitted result type of each operation / fragment: operations print two `type` statements
    (Result, Variables), fragments one — picked by position, so that name collisions cannot confuse the pairing -/
def pairReal : List ExecDef → List (String × Ty) → List (ExecDef × String × Ty)
  | [], _ => []
  | (.op o) :: ds, (n, t) :: _ :: rest => (.op o, n, t) :: pairReal ds rest
  | (.frag f) :: ds, (n, t) :: rest => (.frag f, n, t) :: pairReal ds rest
  | (.imp _) :: ds, rest => pairReal ds rest
  | _, _ => []

def schemaModule (opFile : Ts.File) : Option (String × String) :=
  opFile.findSome? fun s => match s with
    | .import m _ (.star a) => some (a, m)
    | _ => none

def sigmaSexp (σ : List (Name × Bool)) : Sexp :=
  .list (.atom "sigma" :: σ.map fun (v, b) => .list [.str v, Sexp.ofBool b])

def defName : ExecDef → String
  | .op o => match o.name with | some (n, _) => n | none => ""
  | .frag f => f.name
  | .imp _ => ""

structure Ctx where
  S : Schema
  D : Doc
  env : Ts.Env
  ns : String
  /-- (definition, name of its result type, the REAL emitted type, closed) -/
  pairs : List (ExecDef × String × Ty)
  /-- closed `NS.__OperationOutput.<scalar>` per scalar type of the schema -/
  scalars : List (Name × Ty)

def mkCtx (ts : Sexp) (doc : Sexp) (opf : Sexp) (scf : Sexp) : Except String Ctx := do
  let some items := Gql.Dec.tsDoc ts | throw "bad tsdoc"
  let some d := Gql.Dec.doc doc | throw "bad doc"
  let some opFile := Ts.Dec.file opf | throw "bad operation tsfile"
  let some scFile := Ts.Dec.file scf | throw "bad schema tsfile"
  let some (ns, m) := schemaModule opFile | throw "operation file has no `import type * as NS`"
  let env := SelSem.envOf opFile m scFile
  let pairs := (pairReal d (typeStmts opFile)).map fun (x, n, t) => (x, n, globalise env.decls [] [] t)
  let S : Schema := ⟨items⟩
  let scalars := (S.typeDefs.filter (·.kind == .scalar)).map fun t =>
    (t.name, globalise env.decls [] [] (.qref [ns, "__OperationOutput", t.name]))
  if pairs.length != (d.filter fun x => match x with | .imp _ => false | _ => true).length then
    throw "operation file does not have the expected type statements"
  pure { S := S, D := d, env := env, ns := ns, pairs := pairs, scalars := scalars }

/-- membership fuel: aliases are at most a few levels deep; the nesting depth of the value bounds the rest -/
def memFuelFor (v : J) : Nat := 2 * v.size + 32

/-- membership in a closed type of the real files -/
def memReal (c : Ctx) (v : J) (t : Ty) : Bool := Ts.memG c.env (memFuelFor v) v t

def scalarTy (c : Ctx) (n : Name) : Ty :=
  match c.scalars.find? (·.1 == n) with
  | some (_, t) => t
  | none => .prim "never"

def specCtx (c : Ctx) : Exec.Ctx :=
  { S := c.S, F := Exec.fragsOf c.D,
    scalar := fun n v => Ts.memG c.env 64 v (scalarTy c n),
    fuel := OpTypes.docSize c.D + 8 }

def scalarSamples (c : Ctx) (n : Name) : List J :=
  SelSem.samples c.env 16 (scalarTy c n)

/-- runtime object types the selection set of a definition is executed on: the root operation type; for a
    fragment every object type that matches its type condition -/
def rootsOf (c : Ctx) : ExecDef → List Name
  | .op o => [c.S.rootName o.kind]
  | .frag f => c.S.possibleTypes f.cond
  | .imp _ => []

def selOf : ExecDef → List Selection
  | .op o => o.sel
  | .frag f => f.sel
  | .imp _ => []

/-- the number of values tested per definition shrinks with the size of its emitted type (a type with many
    branches makes every membership test expensive) -/
def capFor (cap : Nat) (t : Ty) : Nat := max 40 (cap * 3000 / max 3000 t.size)

/-- all responses enumerated for a definition: (runtime type, σ, value) -/
def enumFor (c : Ctx) (x : ExecDef) (cap : Nat) : List (Name × List (Name × Bool) × J) :=
  let roots := rootsOf c x
  roots.flatMap fun r =>
    (Exec.enumerate (specCtx c) (scalarSamples c) r (selOf x) (max 1 (cap / max 1 roots.length))).map fun (σ, v) => (r, σ, v)

def oracleC01 (c : Ctx) (cap : Nat) : Sexp := Id.run do
  let mut n := 0
  for (x, _, t) in c.pairs do
    let mut k := 0
    for (r, σ, v) in enumFor c x (capFor cap t) do
      n := n + 1
      k := k + 1
      -- sanity of the enumerator (on a sample): every enumerated value is an Exec response
      if k % 16 == 1 && !Exec.execMem (specCtx c) (Exec.sigmaOf σ) (specCtx c).fuel r (selOf x) v then
        return .list [.atom "err", .str ("enumerated value is not an Exec response for " ++ defName x), Ts.Enc.j v]
      if !memReal c v t then
        return .list [.atom "counterexample", .list [.atom "op", .str (defName x)], sigmaSexp σ, .list [.atom "value", Ts.Enc.j v]]
  return Sexp.ok [Sexp.ofNat n]

def oracleC02 (c : Ctx) (cap : Nat) : Sexp := Id.run do
  let mut n := 0
  let sc := specCtx c
  for (x, _, t) in c.pairs do
    let base := (enumFor c x (capFor cap t)).map (·.2.2)
    let keys := Exec.keysInPlay c.D
    let lits := Exec.litsInPlay c.S
    for (kind, v) in Exec.mutants keys lits base (capFor cap t) do
      n := n + 1
      if memReal c v t && !(rootsOf c x).any (fun r => Exec.refLocalMem sc sc.fuel r (selOf x) v) then
        return .list [.atom "counterexample", .list [.atom "op", .str (defName x)], .list [.atom "kind", .str kind],
          .list [.atom "value", Ts.Enc.j v]]
  return Sexp.ok [Sexp.ofNat n]

def handle : Sexp → Sexp
  | .list [.atom "op.types", ts, doc, opts] =>
    match Gql.Dec.tsDoc ts, Gql.Dec.doc doc, parseOpts opts with
    | some items, some d, some o => .list (.atom "decls" :: (opDecls ⟨items⟩ o d).map declSexp)
    | none, _, _ => Sexp.err "bad tsdoc"
    | _, none, _ => Sexp.err "bad doc"
    | _, _, none => Sexp.err "bad opts"
  | .list [.atom "oracle.c01", ts, doc, opf, scf, cap] =>
    match mkCtx ts doc opf scf, cap.nat? with
    | .ok c, some cap => oracleC01 c cap
    | .error e, _ => Sexp.err e
    | _, none => Sexp.err "bad cap"
  | .list [.atom "oracle.c02", ts, doc, opf, scf, cap] =>
    match mkCtx ts doc opf scf, cap.nat? with
    | .ok c, some cap => oracleC02 c cap
    | .error e, _ => Sexp.err e
    | _, none => Sexp.err "bad cap"
  | .list [.atom "exec.enum", ts, doc, opf, scf, cap] =>
    match mkCtx ts doc opf scf, cap.nat? with
    | .ok c, some cap =>
      .list (.atom "values" :: c.pairs.map fun (x, _, _) =>
        .list (.atom "op" :: .str (defName x) :: (enumFor c x cap).map fun (r, σ, v) => .list [.str r, sigmaSexp σ, Ts.Enc.j v]))
    | .error e, _ => Sexp.err e
    | _, none => Sexp.err "bad cap"
  | .list [.atom "flush"] => .list [.atom "flushed"]
  | _ => .list [.atom "bad-request"]

def main : IO Unit := serveLoop handle
