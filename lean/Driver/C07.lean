import NitroVerif.Base.Sexp
import NitroVerif.Gql.Codec
import NitroVerif.Model.Build
import NitroVerif.Model.Shape
/-!
Driver of C07 and C08 (exe `nv_c07`): the Lean model of `parse_operation_document` /
`parse_type_system_document` (generated grammar run by `Model/Peg.lean`, builders of `Model/Build.lean`).

  (gql.parse op "<text>") | (gql.parse ts "<text>")
      → (ok (doc …)) | (ok (tsdoc …))     positions included
      | (err line col)                    parse error, 0-based position
      | (panic "site")                    a builder panic, with its site
      | (fuel)                            the model's depth bound was hit
  (gql.steps <rule name> "<text>") → (steps n ok|fail|fuel)    number of rule calls of the PEG run
  (gql.shapecheck op|ts "<text>") → (ok n) | (violation "<rule>") | (noparse)
      the statement `run_children_in_shape` of Props/C08 evaluated on this text: the children of each of the n
      pairs of the parse are in `Shape.ruleShape` of the pair's rule
-/
open NitroVerif NitroVerif.Peg NitroVerif.Build NitroVerif.Gen

def ruleName (r : RuleId) : String := (ruleNames[r]?).getD s!"rule#{r}"

def panicText : Panic → String
  | .partsExpected w (some g) => s!"parts:{ruleName w}:{ruleName g}"
  | .partsExpected w none => s!"parts:{ruleName w}:nothing"
  | .onlyChildNone r => s!"only-child-0:{ruleName r}"
  | .onlyChildMany r => s!"only-child-many:{ruleName r}"
  | .allChildren w g => s!"all-children:{ruleName w}:{ruleName g}"
  | .unexpectedRule _ _ => "unexpected"
  | .emptyDocument => "empty-document"
  | .unknownOperationType => "unknown-operation-type"
  | .unknownEscape => "unknown-escape"
  | .hexParse => "hex-parse"
  | .invalidCharCode => "invalid-char-code"
  | .implementsHead => "implements-head"
  | .implementsItem => "implements-item"
  | .splitAt => "split-at"
  | .emptyChar => "empty-char"
  | .fuel => "fuel"
  | .modelBug w => s!"model-bug:{w}"

def outcome {α} (enc : α → Sexp) : Outcome α → Sexp
  | .ok a => Sexp.ok [enc a]
  | .err l c => .list [.atom "err", Sexp.ofNat l, Sexp.ofNat c]
  | .panic p => .list [.atom "panic", .str (panicText p)]
  | .outOfFuel => .list [.atom "fuel"]

/-- `ruleShape` of every rule, computed once -/
def shapeTable : Array Shape.Re := ((List.range ruleCount).map (Shape.ruleShape gList)).toArray

partial def shapeCheck : List Pair → Except RuleId Nat
  | [] => .ok 0
  | p :: ps => do
    let e := (shapeTable[p.rule]?).getD .top
    if !Shape.matchesRe e (p.children.map Pair.rule) then throw p.rule
    let a ← shapeCheck p.children
    let b ← shapeCheck ps
    pure (a + b + 1)

def shapeAnswer (root : RuleId) (t : String) : Sexp :=
  let inp := t.toList
  match Peg.parse gArr (defaultFuel inp) root inp with
  | .pairs ps =>
    match shapeCheck ps with
    | .ok n => Sexp.ok [Sexp.ofNat n]
    | .error r => .list [.atom "violation", .str (ruleName r)]
  | _ => .list [.atom "noparse"]

def handle : Sexp → Sexp
  | .list [.atom "gql.parse", .atom "op", .str t] => outcome Gql.Enc.doc (parseOpFast t.toList)
  | .list [.atom "gql.parse", .atom "ts", .str t] => outcome Gql.Enc.tsDoc (parseTsFast t.toList)
  | .list [.atom "gql.shapecheck", .atom "op", .str t] => shapeAnswer R.ExecutableDocument t
  | .list [.atom "gql.shapecheck", .atom "ts", .str t] => shapeAnswer R.TypeSystemExtensionDocument t
  | .list [.atom "gql.steps", .atom rule, .str t] =>
    match ruleNames.idxOf? rule with
    | some r =>
      let inp := t.toList
      let (tr, res) := runTr gArr (defaultFuel inp * 64) r inp
      .list [.atom "steps", Sexp.ofNat tr.steps,
        .atom (match res with | .pairs _ => "ok" | .error _ => "fail" | .outOfFuel => "fuel")]
    | none => .list [.atom "bad-request"]
  | .list [.atom "flush"] => .list [.atom "flushed"]
  | _ => .list [.atom "bad-request"]

def main : IO Unit := serveLoop handle
