import NitroVerif.Base.Sexp
import NitroVerif.Gql.Codec
import NitroVerif.Model.CheckOp
import NitroVerif.Spec.Valid
/-!
Driver of C03 / C04 (exe `nv_c03`), line protocol:
  (op.check (tsdoc …) (doc …))     → (errs (Kind line col) …)          model of check_operation_document
  (valid.rules (tsdoc …) (doc …))  → (rules "5.3.1" …)                  violated implemented rules (reference validator)
  (valid.spec (tsdoc …) (doc …))   → (spec true|false "5.3.2" …)        SpecValid, with every violated rule id
  (valid.schema (tsdoc …))         → (schema true|false)
  (kinds.table)                    → (kinds ("5.3.1" FieldNotFound …) …)              Spec/Valid.kindsOf
  (all (tsdoc …) (doc …))          → (all (errs …) (rules …) (spec …) (schema …))   the four answers at once
  (errs* (tsdoc …) (doc …) …)     → (errs* (errs …) …)                 the model's diagnostics only (K half of `all*`)
  (judge* (tsdoc …) (doc …) …)    → (judge* (judge (rules …) (spec …) (schema …)) …)   the reference validator only (O half)
  (all* (tsdoc …) (doc …) (doc …) …) → (all* (all …) (all …) …)       `all` for many documents over ONE schema (the schema is
                                                                      parsed, decoded and judged once)
The tsdoc is the RESOLVED type-system document (built-ins included) the real `ast_to_type_system` consumes.
-/
open NitroVerif NitroVerif.Gql

def errsSexp (ds : List CheckCommon.Diag) : Sexp :=
  .list (.atom "errs" :: ds.map fun d => .list [.atom d.1.toString, Sexp.ofNat d.2.line, Sexp.ofNat d.2.col])

def rulesSexp (S : Schema) (D : Doc) : Sexp :=
  .list (.atom "rules" :: (Valid.violated Valid.ruleTable S D).map .str)

def specSexp (S : Schema) (D : Doc) : Sexp :=
  let v := Valid.violated (Valid.ruleTable ++ Valid.extraRuleTable) S D
  .list (.atom "spec" :: Sexp.ofBool v.isEmpty :: v.map .str)

/-- `rules` and `spec` at once: `violated (A ++ B) = violated A ++ violated B` (filter / map), so the implemented rules are
evaluated once instead of twice -/
def rulesAndSpec (S : Schema) (D : Doc) : Sexp × Sexp :=
  -- the 32-bit range of Int literals at Int positions is part of rule 5.6.1 since fix e3584a3 (`Valid.leafCoercible`);
  -- the former separate id `5.6.1-int32` is gone
  let vr := Valid.violated Valid.ruleTable S D
  let v := vr ++ Valid.violated Valid.extraRuleTable S D
  (.list (.atom "rules" :: vr.map .str), .list (.atom "spec" :: Sexp.ofBool v.isEmpty :: v.map .str))

def allSexp (S : Schema) (D : Doc) (sv : Sexp) : Sexp :=
  let rs := rulesAndSpec S D
  .list [.atom "all", errsSexp (CheckOp.checkOp S D), rs.1, rs.2, sv]

def schemaSexp (S : Schema) : Sexp := .list [.atom "schema", Sexp.ofBool (Valid.schemaValidB S)]

def withInput (ts d : Sexp) (k : Schema → Doc → Sexp) : Sexp :=
  match Dec.tsDoc ts, Dec.doc d with
  | some t, some doc => k ⟨t⟩ doc
  | none, _ => Sexp.err "cannot decode tsdoc"
  | _, none => Sexp.err "cannot decode doc"

def handle : Sexp → Sexp
  | .list [.atom "op.check", ts, d] => withInput ts d fun S D => errsSexp (CheckOp.checkOp S D)
  | .list [.atom "valid.rules", ts, d] => withInput ts d rulesSexp
  | .list [.atom "valid.spec", ts, d] => withInput ts d specSexp
  | .list [.atom "valid.schema", ts] =>
    match Dec.tsDoc ts with
    | some t => schemaSexp ⟨t⟩
    | none => Sexp.err "cannot decode tsdoc"
  | .list [.atom "all", ts, d] => withInput ts d fun S D => allSexp S D (schemaSexp S)
  | .list (.atom "all*" :: ts :: ds) =>
    match Dec.tsDoc ts with
    | none => Sexp.err "cannot decode tsdoc"
    | some t =>
      let S : Schema := ⟨t⟩
      let sv := schemaSexp S
      .list (.atom "all*" :: ds.map fun d =>
        match Dec.doc d with
        | some D => allSexp S D sv
        | none => Sexp.err "cannot decode doc")
  -- the two halves of `all*` over DIFFERENT schemas: K takes the really resolved schema, O the generator's abstract one
  | .list (.atom "errs*" :: ts :: ds) =>
    match Dec.tsDoc ts with
    | none => Sexp.err "cannot decode tsdoc"
    | some t =>
      let S : Schema := ⟨t⟩
      .list (.atom "errs*" :: ds.map fun d =>
        match Dec.doc d with
        | some D => errsSexp (CheckOp.checkOp S D)
        | none => Sexp.err "cannot decode doc")
  | .list (.atom "judge*" :: ts :: ds) =>
    match Dec.tsDoc ts with
    | none => Sexp.err "cannot decode tsdoc"
    | some t =>
      let S : Schema := ⟨t⟩
      let sv := schemaSexp S
      .list (.atom "judge*" :: ds.map fun d =>
        match Dec.doc d with
        | some D => let rs := rulesAndSpec S D; .list [.atom "judge", rs.1, rs.2, sv]
        | none => Sexp.err "cannot decode doc")
  | .list [.atom "kinds.table"] =>
    .list (.atom "kinds" :: ((Valid.ruleTable ++ Valid.extraRuleTable).map fun r =>
      .list (.str r.1 :: (Valid.kindsOf r.1).map fun k => .atom k.toString)))
  | .list [.atom "flush"] => .list [.atom "flushed"]
  | _ => .list [.atom "bad-request"]

def main : IO Unit := serveLoop handle
