import NitroVerif.Base.Sexp
import NitroVerif.Base.JsonSexp
import NitroVerif.Gql.Codec
import NitroVerif.Model.Paths
import NitroVerif.Model.Loader
import NitroVerif.Lemmas.LoaderComposed
/-!
Driver for C19. One request = one whole history:

  (hist (pool E0 E1 …) (ops O1 O2 …))
     Ei ::= (ok "import path" …) | (err code)          parse result of pool source i (supplied by the harness)
     Oj ::= (init "file" i) | (req t) | (load t "file" i) | (emit t) | (free t) | (res)

answer: (ok R1 R2 …), call by call
     Rj ::= (id n) | (failed notfound) | (failed (src code)) | (files "p" … sorted) | (loaded)
          | (js TOKEN) | (freed) | (result (msg …)|(files …)|(js TOKEN)) | (trap)
     TOKEN ::= ("root" ("path" i)|("path" missing) …)   the files reachable from the root through imports, sorted

Paths are resolved with the C20 model (`Paths.resolve`). Emission is abstract: the token names exactly
what the emitted module may depend on; the harness realises it by a FRESH real task given those files.
-/
open NitroVerif NitroVerif.Loader

abbrev Tok := String × List (String × Option Nat)

def resolveStr (fromFile imp : String) : String :=
  Paths.render (Paths.resolve (Paths.components fromFile) (Paths.components imp))

def closure (look : String → Option (Doc String Nat)) :
    Nat → List String → List (String × Option Nat) → List (String × Option Nat)
  | 0, _, acc => acc
  | _, [], acc => acc
  | fuel + 1, p :: todo, acc =>
    if acc.any (fun e => e.1 == p) then closure look fuel todo acc
    else match look p with
      | none => closure look fuel todo ((p, none) :: acc)
      | some d => closure look fuel (d.imports.map (resolveStr p) ++ todo) ((p, some d.src) :: acc)

def insertSorted (x : String × Option Nat) : List (String × Option Nat) → List (String × Option Nat)
  | [] => [x]
  | y :: r => if x.1 < y.1 then x :: y :: r else y :: insertSorted x r

def sortTok (l : List (String × Option Nat)) : List (String × Option Nat) := l.foldl (fun acc x => insertSorted x acc) []

def insertStr (x : String) : List String → List String
  | [] => [x]
  | y :: r => if x < y then x :: y :: r else y :: insertStr x r

def sortStr (l : List String) : List String := l.foldl (fun acc x => insertStr x acc) []

def mkEnv (pool : Array (Except Nat (List String))) : Env String Nat Tok where
  parse i := match pool[i]? with
    | some r => r
    | none => .error 99
  resolve := resolveStr
  emit root look := .js (root, sortTok (closure look 4096 [root] []))

def tokSexp (t : Tok) : Sexp :=
  .list (.str t.1 :: t.2.map fun e => .list [.str e.1, match e.2 with | some i => Sexp.ofNat i | none => .atom "missing"])

def errSexp : ErrKind → Sexp
  | .taskNotFound => .atom "notfound"
  | .source c => .list [.atom "src", Sexp.ofNat c]

def resSexp : Res String Tok → Sexp
  | .msg e => .list [.atom "msg", errSexp e]
  | .files l => .list (.atom "files" :: (sortStr l).map .str)
  | .js j => .list [.atom "js", tokSexp j]

def respSexp : Resp String Tok → Sexp
  | .taskId n => .list [.atom "id", Sexp.ofNat n]
  | .failed e => .list [.atom "failed", errSexp e]
  | .files l => .list (.atom "files" :: (sortStr l).map .str)
  | .loaded => .list [.atom "loaded"]
  | .js j => .list [.atom "js", tokSexp j]
  | .freed => .list [.atom "freed"]
  | .result r => .list [.atom "result", resSexp r]
  | .trap => .list [.atom "trap"]

def poolEntry : Sexp → Option (Except Nat (List String))
  | .list (.atom "ok" :: xs) => (xs.mapM Sexp.str?).map .ok
  | .list [.atom "err", c] => c.nat?.map .error
  | _ => none

def opOf : Sexp → Option (Op String Nat)
  | .list [.atom "init", .str f, i] => i.nat?.map fun i => .call (.initiate f i)
  | .list [.atom "req", t] => t.nat?.map fun t => .call (.required t)
  | .list [.atom "load", t, .str f, i] => do let t ← t.nat?; let i ← i.nat?; pure (.call (.load t f i))
  | .list [.atom "emit", t] => t.nat?.map fun t => .call (.emit t)
  | .list [.atom "free", t] => t.nat?.map fun t => .call (.free t)
  | .list [.atom "res"] => some .getResult
  | _ => none


/-! ### the concrete emitter (`Lemmas/LoaderComposed.lean`) -/
namespace Concrete
open NitroVerif.Gql NitroVerif.LoaderC NitroVerif.Composed NitroVerif.Imports

/-- inverse of `Composed.encL` (base-1114113 digits, each `toNat + 1`) -/
partial def decL (n : Nat) : List Char :=
  if n = 0 then [] else Char.ofNat (n % 1114113 - 1) :: decL (n / 1114113)

/-- error numbers: 1 = syntax error, 2 = `resolve_operation_extensions` error (both as in the abstract stream), 99 = no such
    source, ≥ 100 = an emission error whose description is read back with `decS` -/
def encS (s : String) : Nat := 100 + encL s.toList
def decS (n : Nat) : String := String.ofList (decL (n - 100))

def rawOf (i : ImportDef) : RawImport String :=
  ⟨i.path, i.targets.map fun
    | none => .wildcard
    | some (n, _) => .name (nameCode n)⟩

/-- `resolve_operation_extensions` on a parsed document: the import lines are merged by `Imports.resolveExt` (C13's
    model), the other definitions are kept in order -/
def srcFileOf (defs : List ExecDef) : Except Nat (SrcFile String) :=
  let lines := defs.filterMap fun
    | .imp i => some (rawOf i)
    | _ => none
  match resolveExt lines with
  | .error _ => .error 2
  | .ok imps => .ok ⟨imps, defs.filter fun
      | .imp _ => false
      | _ => true⟩

def poolEntry : Sexp → Option (Except Nat (SrcFile String))
  | .list [.atom "err", c] => c.nat?.map .error
  | .list (.atom "doc" :: ds) => (Dec.doc (.list (.atom "doc" :: ds))).map srcFileOf
  | _ => none

/-- `normalize_path` on path texts (C20 model) -/
def normStr (s : String) : String := Paths.render (Paths.normalize (Paths.components s))

/-- a `PathBuf` as a `HashMap` key: `loaded_files` compares keys by COMPONENTS (`/p/./f` = `/p/f`, `/p//f` = `/p/f`), so the
    file names of a history are read through `Path::components` before they become the model's (string) keys -/
def canonStr (s : String) : String := Paths.render (Paths.components s)

def canonOp : Op String Nat → Op String Nat
  | .call (.initiate f i) => .call (.initiate (canonStr f) i)
  | .call (.load t f i) => .call (.load t (canonStr f) i)
  | o => o

def params (cfg : Exports.Config) (pool : Array (Except Nat (SrcFile String))) : Params String Nat where
  parseSrc i := match pool[i]? with
    | some r => r
    | none => .error 99
  res := resolveStr
  norm := normStr
  code := nameCode
  cfg := cfg
  eImp
    | .fileNotFound _ rel _ => encS ("N" ++ rel)
    | .fragmentNotFound _ rel id => encS ("F" ++ String.ofList (decL id.name) ++ "\n" ++ rel)
  eUndef n := encS ("U" ++ n)

/-- a file list with the given lookup function on the paths of `U` -/
def rebuild (U : List String) (look : String → Option (Loader.Doc String Nat)) : List (String × Loader.Doc String Nat) :=
  U.filterMap fun p => (look p).map fun d => (p, d)

/-- `LoaderC.concreteEnv π`, computably: `concreteEnv` picks (classical choice) ANY file list with the task's lookup
    function and `emitOfLook_lookup` / `emitFiles_ext` show the choice is immaterial; here the list is rebuilt from the
    lookup function on `U` = every path a call of the history supplies (no other path can be a key of a task) -/
def env (π : Params String Nat) (U : List String) : Env String Nat JsModule where
  parse s := match π.parseSrc s with
    | .ok f => .ok (f.imports.map (·.rel))
    | .error c => .error c
  resolve := π.res
  emit root look := emitFiles π root (rebuild U look)

/-- DELIBERATELY WRONG variants of `LoaderC.emitFiles` (a copy of its body with one step altered), only for the harness'
    self-test `C19_CONCRETE_MUTANT=k` (the stream must report each of 1–4; never used by `./check`):
    1 = imported definitions appended in reverse order, 2 = the LAST undefined spread is reported, 3 = no undefined-spread
    check, 4 = literals attached to the constants in reverse order; 5 = the root handed to the import resolver under its
    name AS SUPPLIED (the mis-transcription this stream found in the first version of `emitFiles`, see design-notes/C19.md) -/
def emitFilesM (k : Nat) (π : Params String Nat) (root : String) (files : List (String × Loader.Doc String Nat)) :
    EmitRes JsModule :=
  match (projOf π files).lookup root with
  | none => .err 0
  | some rootFile =>
    let root' := if k = 5 then root else π.norm root
    match resolveDoc π.code π.res (projOf π files) root' rootFile with
    | .err e => .err (π.eImp e)
    | .outOfFuel => .trap
    | .ok R0 =>
      let R := if k = 1 then rootFile.defs ++ (R0.drop rootFile.defs.length).reverse else R0
      let undef :=
        if k = 2 then (allSpreads R).reverse.find? fun n => decide (n ∉ NitroVerif.C12.fragNamesOf R)
        else if k = 3 then none
        else findUndefined R
      match undef with
      | some n => .err (π.eUndef n)
      | none =>
        match moduleOf π.cfg R with
        | .ok m => .js (if k = 4 then ⟨m.stmts, m.docs.reverse⟩ else m)
        | .error _ => .trap

def envM (k : Nat) (π : Params String Nat) (U : List String) : Env String Nat JsModule :=
  { env π U with emit := fun root look => emitFilesM k π root (rebuild U look) }

theorem lookup_rebuild (U : List String) (look : String → Option (Loader.Doc String Nat)) (p : String) :
    Loader.lookup (rebuild U look) p = if p ∈ U then look p else none := by
  induction U with
  | nil => simp [rebuild]
  | cons q r ih =>
    unfold rebuild at ih ⊢
    rw [List.filterMap_cons]
    cases hq : look q with
    | none =>
      simp only [Option.map_none]
      rw [ih]
      by_cases hp : p = q
      · subst hp; simp [hq]
      · simp [hp]
    | some d =>
      simp only [Option.map_some]
      rw [Loader.lookup_cons, ih]
      by_cases hp : q = p
      · subst hp; simp [hq]
      · have : ¬ p = q := fun h => hp h.symm
        simp [hp, this]

/-- on every task whose file names are among `U`, `env π U` emits exactly what `concreteEnv π` emits -/
theorem env_emit (π : Params String Nat) (U : List String) (root : String) (files : List (String × Loader.Doc String Nat))
    (h : ∀ p, p ∉ U → Loader.lookup files p = none) :
    (env π U).emit root (Loader.lookup files) = (concreteEnv π).emit root (Loader.lookup files) := by
  show emitFiles π root (rebuild U (Loader.lookup files)) = emitOfLook π root (Loader.lookup files)
  rw [emitOfLook_lookup]
  apply emitFiles_ext
  funext p
  rw [lookup_rebuild]
  by_cases hp : p ∈ U
  · simp [hp]
  · simp [hp, h p hp]

def parseMode : String → Option Exports.Mode
  | "with-loader-ts-5.0" => some .withLoaderTs5
  | "with-loader-ts-4.0" => some .withLoaderTs4
  | "standalone-ts-4.0" => some .standaloneTs4
  | _ => none

def parseBool : Sexp → Option Bool
  | .atom "true" => some true
  | .atom "false" => some false
  | _ => none

/-- as in Driver/C14.lean -/
def parseCfgKey (r : Exports.RawCfg) : Sexp → Option Exports.RawCfg
  | .list [.atom "mode", .str m] => (parseMode m).map fun m => { r with mode := some m }
  | .list [.atom "defaultExportForOperation", b] => (parseBool b).map fun b => { r with defaultExportForOperation := some b }
  | .list [.atom "operationResultType", b] => (parseBool b).map fun b => { r with operationResultType := some b }
  | .list [.atom "variablesType", b] => (parseBool b).map fun b => { r with variablesType := some b }
  | .list [.atom "capitalizeOperationNames", b] => (parseBool b).map fun b => { r with capitalizeOperationNames := some b }
  | .list [.atom "queryVariableSuffix", .str s] => some { r with queryVariableSuffix := some s.toList }
  | .list [.atom "mutationVariableSuffix", .str s] => some { r with mutationVariableSuffix := some s.toList }
  | .list [.atom "subscriptionVariableSuffix", .str s] => some { r with subscriptionVariableSuffix := some s.toList }
  | .list [.atom "fragmentVariableSuffix", .str s] => some { r with fragmentVariableSuffix := some s.toList }
  | .list [.atom "operationResultTypeSuffix", .str s] => some { r with operationResultTypeSuffix := some s.toList }
  | .list [.atom "variablesTypeSuffix", .str s] => some { r with variablesTypeSuffix := some s.toList }
  | .list [.atom "fragmentTypeSuffix", .str s] => some { r with fragmentTypeSuffix := some s.toList }
  | _ => none

def parseCfg : List Sexp → Exports.RawCfg → Option Exports.RawCfg
  | [], r => some r
  | k :: ks, r => match parseCfgKey r k with
    | some r' => parseCfg ks r'
    | none => none

def str (s : Exports.Str) : Sexp := .str (String.ofList s)

def stmtSexp : Exports.Stmt → Sexp
  | .typeAlias n e => .list [.atom "type", str n, Sexp.ofBool e]
  | .const n i e a v => .list [.atom "const", str n, Sexp.ofNat i, Sexp.ofBool e, Sexp.ofBool a, Sexp.ofBool v]
  | .exportDefault l => .list [.atom "default", str l]

def modSexp (m : JsModule) : Sexp :=
  .list [.atom "js", .list (.atom "stmts" :: m.stmts.map stmtSexp), .list (.atom "docs" :: m.docs.map Json.toSexp)]

def errSexp : ErrKind → Sexp
  | .taskNotFound => .atom "notfound"
  | .source c =>
    if c < 100 then .list [.atom "src", Sexp.ofNat c]
    else match (decS c).toList with
      | 'N' :: rel => .list [.atom "imp", .atom "notfound", .str (String.ofList rel)]
      | 'F' :: rest =>
        .list [.atom "imp", .atom "nofrag", .str (String.ofList ((rest.dropWhile (· != '\n')).drop 1)),
          .str (String.ofList (rest.takeWhile (· != '\n')))]
      | 'U' :: n => .list [.atom "undef", .str (String.ofList n)]
      | _ => .list [.atom "src", Sexp.ofNat c]

def resSexp : Res String JsModule → Sexp
  | .msg e => .list [.atom "msg", errSexp e]
  | .files l => .list (.atom "files" :: (sortStr l).map .str)
  | .js j => modSexp j

def respSexp : Resp String JsModule → Sexp
  | .taskId n => .list [.atom "id", Sexp.ofNat n]
  | .failed e => .list [.atom "failed", errSexp e]
  | .files l => .list (.atom "files" :: (sortStr l).map .str)
  | .loaded => .list [.atom "loaded"]
  | .js j => modSexp j
  | .freed => .list [.atom "freed"]
  | .result r => .list [.atom "result", resSexp r]
  | .trap => .list [.atom "trap"]

def pathsOf (ops : List (Op String Nat)) : List String :=
  ops.filterMap fun
    | .call (.initiate f _) => some f
    | .call (.load _ f _) => some f
    | _ => none

def runHist (mutant : Nat) (π : Params String Nat) : Sexp → Option Sexp
  | .list (.atom "ops" :: os) => (os.mapM opOf).map fun ops0 =>
      let ops := ops0.map canonOp
      let U := (pathsOf ops).eraseDups
      Sexp.ok ((runResps (if mutant = 0 then env π U else envM mutant π U) init ops).map respSexp)
  | _ => none

def handle (mutant : Nat) (ks es hs : List Sexp) : Sexp :=
  match parseCfg ks {}, es.mapM poolEntry with
  | some raw, some pool =>
    match hs.mapM (runHist mutant (params (Exports.Config.parse raw) pool.toArray)) with
    | some rs => Sexp.ok rs
    | none => .list [.atom "bad-request"]
  | _, _ => .list [.atom "bad-request"]

end Concrete

def handle : Sexp → Sexp
  | .list [.atom "concrete", .list (.atom "cfg" :: ks), .list (.atom "pool" :: es), .list (.atom "hists" :: hs)] =>
    Concrete.handle 0 ks es hs
  | .list [.atom "concrete", .list [.atom "mutant", k], .list (.atom "cfg" :: ks), .list (.atom "pool" :: es),
      .list (.atom "hists" :: hs)] =>
    Concrete.handle (k.nat?.getD 0) ks es hs
  | .list [.atom "hist", .list (.atom "pool" :: es), .list (.atom "ops" :: os)] =>
    match es.mapM poolEntry, os.mapM opOf with
    | some pool, some ops => Sexp.ok ((runResps (mkEnv pool.toArray) init ops).map respSexp)
    | _, _ => .list [.atom "bad-request"]
  | .list [.atom "flush"] => .list [.atom "flushed"]
  | _ => .list [.atom "bad-request"]

def main : IO Unit := serveLoop handle
