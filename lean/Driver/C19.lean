import NitroVerif.Base.Sexp
import NitroVerif.Model.Paths
import NitroVerif.Model.Loader
/-!
Driver for C19. One request = one whole history:

  (hist (pool E0 E1 …) (ops O1 O2 …))
     Ei ::= (ok "import path" …) | (err code)          parse result of pool source i (supplied by the harness)
     Oj ::= (init "file" i) | (req t) | (load t "file" i) | (emit t) | (free t) | (res)

answer: (ok R1 R2 …), call by call
     Rj ::= (id n) | (failed notfound) | (failed (src code)) | (files "p" … sorted) | (loaded)
          | (js TOKEN) | (freed) | (result (msg …)|(files …)|(js TOKEN)) | (trap)
     TOKEN ::= ("root" ("path" i)|("path" missing) …)   the files reachable from the root through imports, sorted

Paths are resolved with the C20 model (`Paths.resolve`). Emission is abstract: the token names exactly
what the emitted module may depend on; the harness realises it by a FRESH real task given those files.
-/
open NitroVerif NitroVerif.Loader

abbrev Tok := String × List (String × Option Nat)

def resolveStr (fromFile imp : String) : String :=
  Paths.render (Paths.resolve (Paths.components fromFile) (Paths.components imp))

def closure (look : String → Option (Doc String Nat)) :
    Nat → List String → List (String × Option Nat) → List (String × Option Nat)
  | 0, _, acc => acc
  | _, [], acc => acc
  | fuel + 1, p :: todo, acc =>
    if acc.any (fun e => e.1 == p) then closure look fuel todo acc
    else match look p with
      | none => closure look fuel todo ((p, none) :: acc)
      | some d => closure look fuel (d.imports.map (resolveStr p) ++ todo) ((p, some d.src) :: acc)

def insertSorted (x : String × Option Nat) : List (String × Option Nat) → List (String × Option Nat)
  | [] => [x]
  | y :: r => if x.1 < y.1 then x :: y :: r else y :: insertSorted x r

def sortTok (l : List (String × Option Nat)) : List (String × Option Nat) := l.foldl (fun acc x => insertSorted x acc) []

def insertStr (x : String) : List String → List String
  | [] => [x]
  | y :: r => if x < y then x :: y :: r else y :: insertStr x r

def sortStr (l : List String) : List String := l.foldl (fun acc x => insertStr x acc) []

def mkEnv (pool : Array (Except Nat (List String))) : Env String Nat Tok where
  parse i := match pool[i]? with
    | some r => r
    | none => .error 99
  resolve := resolveStr
  emit root look := .js (root, sortTok (closure look 4096 [root] []))

def tokSexp (t : Tok) : Sexp :=
  .list (.str t.1 :: t.2.map fun e => .list [.str e.1, match e.2 with | some i => Sexp.ofNat i | none => .atom "missing"])

def errSexp : ErrKind → Sexp
  | .taskNotFound => .atom "notfound"
  | .source c => .list [.atom "src", Sexp.ofNat c]

def resSexp : Res String Tok → Sexp
  | .msg e => .list [.atom "msg", errSexp e]
  | .files l => .list (.atom "files" :: (sortStr l).map .str)
  | .js j => .list [.atom "js", tokSexp j]

def respSexp : Resp String Tok → Sexp
  | .taskId n => .list [.atom "id", Sexp.ofNat n]
  | .failed e => .list [.atom "failed", errSexp e]
  | .files l => .list (.atom "files" :: (sortStr l).map .str)
  | .loaded => .list [.atom "loaded"]
  | .js j => .list [.atom "js", tokSexp j]
  | .freed => .list [.atom "freed"]
  | .result r => .list [.atom "result", resSexp r]
  | .trap => .list [.atom "trap"]

def poolEntry : Sexp → Option (Except Nat (List String))
  | .list (.atom "ok" :: xs) => (xs.mapM Sexp.str?).map .ok
  | .list [.atom "err", c] => c.nat?.map .error
  | _ => none

def opOf : Sexp → Option (Op String Nat)
  | .list [.atom "init", .str f, i] => i.nat?.map fun i => .call (.initiate f i)
  | .list [.atom "req", t] => t.nat?.map fun t => .call (.required t)
  | .list [.atom "load", t, .str f, i] => do let t ← t.nat?; let i ← i.nat?; pure (.call (.load t f i))
  | .list [.atom "emit", t] => t.nat?.map fun t => .call (.emit t)
  | .list [.atom "free", t] => t.nat?.map fun t => .call (.free t)
  | .list [.atom "res"] => some .getResult
  | _ => none

def handle : Sexp → Sexp
  | .list [.atom "hist", .list (.atom "pool" :: es), .list (.atom "ops" :: os)] =>
    match es.mapM poolEntry, os.mapM opOf with
    | some pool, some ops => Sexp.ok ((runResps (mkEnv pool.toArray) init ops).map respSexp)
    | _, _ => .list [.atom "bad-request"]
  | .list [.atom "flush"] => .list [.atom "flushed"]
  | _ => .list [.atom "bad-request"]

def main : IO Unit := serveLoop handle
