/-
Line-protocol driver for C10 and C09 (exe `nv_c10`).

  cfg     := (cfg (scalars SC…) (optional BOOL) (runtime BOOL) (parses ("text" TY)…))
  SC      := (single "N" "t") | (sendrecv "N" "send" "receive") | (separate "N" "ro" "ri" "oo" "oi")
  target  := oi | oo | ri | ro
  J       := see Ts/SemCodec.lean

  (decls.schema cfg (tsdoc …))                       → (ok (tsfile …) (docs "…"…)) | (err "ScalarTypeNotProvided" "Name")
  (decls.resolvers cfg (tsdoc …))                    → (ok (tsfile …))
  (decls.resolverDocs cfg (tsdoc …))                 → (ok (docs "…"…))   every JSDoc comment of the resolvers file, in text order
  (vars.ts cfg (vardef…))                            → (ok TY)
  (jsdoc "description")                              → (ok "line"…)
  (ts.mem (tsfile …) (mods ("m" (tsfile …))…) SCOPE J TY)   → (ok BOOL)
  (ts.mems (tsfile …) (mods …) ((SCOPE TY (J…))…))          → (ok (BOOL…)…)
  (ts.table (tsfile …) (mods …) (J…) ((SCOPE TY)…))          → (ok (BOOL…)…)      one row per type
  (ref.table cfg (tsdoc …) (J…) ((target "TypeName")…))      → (ok (BOOL…)…)
  (ref.fields cfg (tsdoc …) (J…) ((args (ivdef…)) | (result TYPE) …))  → (ok (BOOL…)…)
  (ts.atoms (tsfile …) (mods …) SCOPE TY)                    → (ok "tag"…)
  (ref.mem cfg (tsdoc …) target "TypeName" J)        → (ok BOOL)
  (ref.mems cfg (tsdoc …) ((target "TypeName" (J…))…)) → (ok (BOOL…)…)
  (coerce cfg (tsdoc …) ((vardef …)…) (J…))          → (ok (COERCIBLE…) (EXPLICIT…) (EXPLICIT if option on…) (EXPLICIT if option off…))
  (scalar.get SC target)                             → (ok "text")
  (scalar.table cfg (tsdoc …))                       → (ok ("N" "ro" "ri" "oo" "oi")…)   model of get_scalar_types
-/
import NitroVerif.Base.Sexp
import NitroVerif.Gql.Codec
import NitroVerif.Ts.SemCodec
import NitroVerif.Model.DeclCfg
import NitroVerif.Model.JsDoc
import NitroVerif.Model.SchemaDecls
import NitroVerif.Model.ResolverDecls
import NitroVerif.Model.VarTypes
import NitroVerif.Spec.RefTypes
import NitroVerif.Spec.Coerce
open NitroVerif NitroVerif.Gql NitroVerif.DeclCfg

def fuel : Nat := 200

def decScalar : Sexp → Option (Name × ScalarCfg)
  | .list [.atom "single", .str n, .str t] => some (n, .single t)
  | .list [.atom "sendrecv", .str n, .str s, .str r] => some (n, .sendReceive s r)
  | .list [.atom "separate", .str n, .str ro, .str ri, .str oo, .str oi] => some (n, .separate ro ri oo oi)
  | _ => none

def decCfg : Sexp → Option Cfg
  | .list [.atom "cfg", .list (.atom "scalars" :: scs), .list [.atom "optional", o], .list [.atom "runtime", r],
      .list (.atom "parses" :: ps)] => do
    let scalars ← scs.mapM decScalar
    let parses ← ps.mapM fun
      | .list [.str text, t] => do some (text, ← Ts.Dec.ty t)
      | _ => none
    some { scalars, optionalInput := ← Gql.Dec.bool? o, emitSchemaRuntime := ← Gql.Dec.bool? r,
           parses := parses ++ builtinParses }
  | _ => none

def decTarget : Sexp → Option Target
  | .atom "oi" => some .operationInput
  | .atom "oo" => some .operationOutput
  | .atom "ri" => some .resolverInput
  | .atom "ro" => some .resolverOutput
  | _ => none

def decMods : Sexp → Option (List (String × Ts.File))
  | .list (.atom "mods" :: ms) => ms.mapM fun
    | .list [.str m, f] => do some (m, ← Ts.Dec.file f)
    | _ => none
  | _ => none

def bools (bs : List Bool) : Sexp := .list (bs.map Sexp.ofBool)

/-- every JSDoc comment of the resolvers file in text order: the only descriptions `ResolverTypePrinter` writes are
    those of the ARGUMENTS (`arguments_definition_to_ts`, visitor.rs), inside `Args` of `Resolvers[O][f]`, through the
    same `print_description` as the schema file (`SchemaDecls.docText` = `JsDoc.docLines` joined) -/
def resolverDocs (doc : TsDoc) : List String :=
  (SchemaDecls.typeDefsOf doc).flatMap fun td =>
    if td.kind == .object then td.fields.flatMap fun f => f.args.flatMap fun a => SchemaDecls.optDoc a.desc else []

def handle : Sexp → Sexp
  | .list [.atom "decls.schema", c, d] =>
    match decCfg c, Gql.Dec.tsDoc d with
    | some c, some d =>
      match SchemaDecls.schemaFile c d with
      | .ok f => Sexp.ok [Ts.Enc.file f, .list (.atom "docs" :: (SchemaDecls.allDocs c d).map .str)]
      | .error n => .list [.atom "err", .str "ScalarTypeNotProvided", .str n]
    | _, _ => Sexp.err "decode"
  | .list [.atom "decls.resolvers", c, d] =>
    match decCfg c, Gql.Dec.tsDoc d with
    | some c, some d => Sexp.ok [Ts.Enc.file (ResolverDecls.resolversFile c d)]
    | _, _ => Sexp.err "decode"
  | .list [.atom "decls.resolverDocs", c, d] =>
    match decCfg c, Gql.Dec.tsDoc d with
    | some _, some d => Sexp.ok [.list (.atom "docs" :: (resolverDocs d).map .str)]
    | _, _ => Sexp.err "decode"
  | .list [.atom "vars.ts", c, .list vs] =>
    match decCfg c, vs.mapM Gql.Dec.vardef with
    | some c, some vs => Sexp.ok [Ts.Enc.ty (VarTypes.varsTs c vs)]
    | _, _ => Sexp.err "decode"
  | .list [.atom "jsdoc", .str d] => Sexp.ok ((JsDoc.docLines d).map .str)
  | .list [.atom "ts.mem", f, ms, sc, v, t] =>
    match Ts.Dec.file f, decMods ms, Ts.Dec.scope sc, Ts.Dec.j v, Ts.Dec.ty t with
    | some f, some ms, some sc, some v, some t => Sexp.ok [Sexp.ofBool (Ts.memFuel ((Ts.Env.ofFiles f ms).withStd) sc fuel v t)]
    | _, _, _, _, _ => Sexp.err "decode"
  | .list [.atom "ts.mems", f, ms, .list qs] =>
    match Ts.Dec.file f, decMods ms with
    | some f, some ms =>
      let env := (Ts.Env.ofFiles f ms).withStd
      let rs := qs.mapM fun
        | .list [sc, t, .list vs] => do
          let sc ← Ts.Dec.scope sc
          let t ← Ts.Dec.ty t
          let vs ← vs.mapM Ts.Dec.j
          let g := Ts.globalise env.decls sc [] t
          some (bools (vs.map fun v => Ts.memG env fuel v g))
        | _ => none
      match rs with
      | some rs => Sexp.ok rs
      | none => Sexp.err "decode-query"
    | _, _ => Sexp.err "decode"
  | .list [.atom "ts.table", f, ms, .list vs, .list qs] =>
    match Ts.Dec.file f, decMods ms, vs.mapM Ts.Dec.j with
    | some f, some ms, some vs =>
      let env := (Ts.Env.ofFiles f ms).withStd
      let rs := qs.mapM fun
        | .list [sc, t] => do
          let g := Ts.globalise env.decls (← Ts.Dec.scope sc) [] (← Ts.Dec.ty t)
          some (bools (vs.map fun v => Ts.memG env fuel v g))
        | _ => none
      match rs with
      | some rs => Sexp.ok rs
      | none => Sexp.err "decode-query"
    | _, _, _ => Sexp.err "decode"
  | .list [.atom "ref.table", c, d, .list vs, .list qs] =>
    match decCfg c, Gql.Dec.tsDoc d, vs.mapM Ts.Dec.j with
    | some c, some d, some vs =>
      let rs := qs.mapM fun
        | .list [t, .str n] => do
          let t ← decTarget t
          some (bools (vs.map fun v => RefTypes.refMem c ⟨d⟩ t fuel n v))
        | _ => none
      match rs with
      | some rs => Sexp.ok rs
      | none => Sexp.err "decode-query"
    | _, _, _ => Sexp.err "decode"
  | .list [.atom "ts.atoms", f, ms, sc, t] =>
    match Ts.Dec.file f, decMods ms, Ts.Dec.scope sc, Ts.Dec.ty t with
    | some f, some ms, some sc, some t =>
      let env := (Ts.Env.ofFiles f ms).withStd
      Sexp.ok ((Ts.Ty.atomTags env 40 (Ts.globalise env.decls sc [] t)).eraseDups.map .str)
    | _, _, _, _ => Sexp.err "decode"
  | .list [.atom "ref.mem", c, d, t, .str n, v] =>
    match decCfg c, Gql.Dec.tsDoc d, decTarget t, Ts.Dec.j v with
    | some c, some d, some t, some v => Sexp.ok [Sexp.ofBool (RefTypes.refMem c ⟨d⟩ t fuel n v)]
    | _, _, _, _ => Sexp.err "decode"
  | .list [.atom "ref.mems", c, d, .list qs] =>
    match decCfg c, Gql.Dec.tsDoc d with
    | some c, some d =>
      let rs := qs.mapM fun
        | .list [t, .str n, .list vs] => do
          let t ← decTarget t
          let vs ← vs.mapM Ts.Dec.j
          some (bools (vs.map fun v => RefTypes.refMem c ⟨d⟩ t fuel n v))
        | _ => none
      match rs with
      | some rs => Sexp.ok rs
      | none => Sexp.err "decode-query"
    | _, _ => Sexp.err "decode"
  | .list [.atom "ref.fields", c, d, .list vs, .list qs] =>
    -- one row per query: (args (ivdef…)) = Ref_ResolverInput(args f); (result TYPE) = what a resolver returns for TYPE
    match decCfg c, Gql.Dec.tsDoc d, vs.mapM Ts.Dec.j with
    | some c, some d, some vs =>
      let rs := qs.mapM fun
        | .list [.atom "args", .list as] => do
          let as ← as.mapM Gql.Dec.ivdef
          some (bools (vs.map (RefTypes.refArgs c ⟨d⟩ fuel as)))
        | .list [.atom "result", t] => do
          let t ← Gql.Dec.gtype t
          some (bools (vs.map (RefTypes.conf (RefTypes.refResolverOut c ⟨d⟩ fuel) t)))
        | _ => none
      match rs with
      | some rs => Sexp.ok rs
      | none => Sexp.err "decode-query"
    | _, _, _ => Sexp.err "decode"
  | .list [.atom "coerce", c, d, .list vds, .list vs] =>
    match decCfg c, Gql.Dec.tsDoc d, vds.mapM Gql.Dec.vardef, vs.mapM Ts.Dec.j with
    | some c, some d, some vds, some vs =>
      Sexp.ok [bools (vs.map (Coerce.coercibleVars c ⟨d⟩ fuel vds)), bools (vs.map (Coerce.explicitVars c ⟨d⟩ fuel vds)),
        bools (vs.map (Coerce.explicitVars { c with optionalInput := true } ⟨d⟩ fuel vds)),
        bools (vs.map (Coerce.explicitVars { c with optionalInput := false } ⟨d⟩ fuel vds))]
    | _, _, _, _ => Sexp.err "decode"
  | .list [.atom "scalar.get", sc, t] =>
    match decScalar (match sc with | .list (h :: r) => .list (h :: .str "_" :: r) | x => x), decTarget t with
    | some (_, sc), some t => Sexp.ok [.str (sc.getType t)]
    | _, _ => Sexp.err "decode"
  | .list [.atom "scalar.table", c, d] =>
    -- `get_scalar_types` of the model: one row per scalar definition that has a type (config / built-in first,
    -- `@nitrogql_ts_type` directive second)
    match decCfg c, Gql.Dec.tsDoc d with
    | some c, some d =>
      Sexp.ok ((DeclCfg.scalarTypes c d).map fun (n, s) =>
        .list [.str n, .str (s.getType .resolverOutput), .str (s.getType .resolverInput),
               .str (s.getType .operationOutput), .str (s.getType .operationInput)])
    | _, _ => Sexp.err "decode"
  | .list [.atom "flush"] => .list [.atom "flushed"]
  | _ => .list [.atom "bad-request"]

def main : IO Unit := serveLoop handle
