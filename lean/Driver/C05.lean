import NitroVerif.Base.Sexp
import NitroVerif.Gql.Codec
import NitroVerif.Model.CheckTs
import NitroVerif.Spec.ValidTs
/-!
Line-protocol driver for C05 (exe `nv_c05`).

  (ts.check (tsdoc …))   → (errs (Kind line col file) … )      model of `check_type_system_document` on a RESOLVED
                                                               document; a built-in position prints as (Kind b)
  (ts.dup (tsdoc …))     → (nodup) | (dup schema) | (dup KIND "name")
                                                               model of the `DuplicateOriginal` test of
                                                               `resolve_schema_extensions` on an UNRESOLVED document
  (ts.rules (tsdoc …))   → (rules id …)                        ids of the spec rules (Spec/ValidTs) the resolved
                                                               document violates
  (ts.valid (tsdoc …))   → (valid true|false)                  `TsSpecValid`
  (ts.all (tsdoc …))     → (all (errs …) (valid b) (rules id …))   the three answers above in one request
  (ts.subtype (tsdoc …) T U) → (sub model spec)                `is_subtype` model (true|false|unknown) and spec covariance
-/
open NitroVerif NitroVerif.Gql NitroVerif.CheckTs

def errSexp (e : Err) : Sexp :=
  if e.2.builtin then .list [.atom e.1.asStr, .atom "b"]
  else .list [.atom e.1.asStr, Sexp.ofNat e.2.line, Sexp.ofNat e.2.col, Sexp.ofNat e.2.file]

def handle : Sexp → Sexp
  | .list [.atom "ts.check", d] =>
    match Dec.tsDoc d with
    | some T => .list (.atom "errs" :: (checkSchema T).map errSexp)
    | none => .list [.atom "bad-request"]
  | .list [.atom "ts.all", d] =>
    match Dec.tsDoc d with
    | some T =>
      .list [.atom "all", .list (.atom "errs" :: (checkSchema T).map errSexp),
        .list [.atom "valid", Sexp.ofBool (ValidTs.tsSpecValid T)],
        .list (.atom "rules" :: (ValidTs.violated T).map fun r => .atom r)]
    | none => .list [.atom "bad-request"]
  | .list [.atom "ts.dup", d] =>
    match Dec.tsDoc d with
    | some T =>
      match dupOriginal? T with
      | none => .list [.atom "nodup"]
      | some none => .list [.atom "dup", .atom "schema"]
      | some (some (k, n)) => .list [.atom "dup", .atom k.asStr, .str n]
    | none => .list [.atom "bad-request"]
  | .list [.atom "ts.rules", d] =>
    match Dec.tsDoc d with
    | some T => .list (.atom "rules" :: (ValidTs.violated T).map fun r => .atom r)
    | none => .list [.atom "bad-request"]
  | .list [.atom "ts.valid", d] =>
    match Dec.tsDoc d with
    | some T => .list [.atom "valid", Sexp.ofBool (ValidTs.tsSpecValid T)]
    | none => .list [.atom "bad-request"]
  | .list [.atom "ts.subtype", d, a, b] =>
    match Dec.tsDoc d, Dec.gtype a, Dec.gtype b with
    | some T, some a, some b =>
      .list [.atom "sub",
        (match isSubtype ⟨T⟩ a b with | some true => .atom "true" | some false => .atom "false" | none => .atom "unknown"),
        Sexp.ofBool (ValidTs.validImplFieldType ⟨T⟩ a b)]
    | _, _, _ => .list [.atom "bad-request"]
  | .list [.atom "flush"] => .list [.atom "flushed"]
  | _ => .list [.atom "bad-request"]

def main : IO Unit := serveLoop handle
