import NitroVerif.Base.Sexp
import NitroVerif.Model.Exports
/-!
Line-protocol driver for C14.

  (c14 (cfg (mode "standalone-ts-4.0") (defaultExportForOperation false) (queryVariableSuffix "Q") …)   -- absent key = absent
       (file (op query "name") (op mutation) (frag "F" false) (frag "G" true) …))                        -- frag: imported?
  → (ok (ext "d.graphql.ts") (nocollision true)
        (dts (type "N" true) (const "N" 0 false true false) (default "N") …)      -- const: doc exported ambient hasValue
        (js …) (loader …))
-/
open NitroVerif NitroVerif.Exports

def parseMode : String → Option Mode
  | "with-loader-ts-5.0" => some .withLoaderTs5
  | "with-loader-ts-4.0" => some .withLoaderTs4
  | "standalone-ts-4.0" => some .standaloneTs4
  | _ => none

def parseBool : Sexp → Option Bool
  | .atom "true" => some true
  | .atom "false" => some false
  | _ => none

def parseCfgKey (r : RawCfg) : Sexp → Option RawCfg
  | .list [.atom "mode", .str m] => (parseMode m).map fun m => { r with mode := some m }
  | .list [.atom "defaultExportForOperation", b] => (parseBool b).map fun b => { r with defaultExportForOperation := some b }
  | .list [.atom "operationResultType", b] => (parseBool b).map fun b => { r with operationResultType := some b }
  | .list [.atom "variablesType", b] => (parseBool b).map fun b => { r with variablesType := some b }
  | .list [.atom "capitalizeOperationNames", b] => (parseBool b).map fun b => { r with capitalizeOperationNames := some b }
  | .list [.atom "queryVariableSuffix", .str s] => some { r with queryVariableSuffix := some s.toList }
  | .list [.atom "mutationVariableSuffix", .str s] => some { r with mutationVariableSuffix := some s.toList }
  | .list [.atom "subscriptionVariableSuffix", .str s] => some { r with subscriptionVariableSuffix := some s.toList }
  | .list [.atom "fragmentVariableSuffix", .str s] => some { r with fragmentVariableSuffix := some s.toList }
  | .list [.atom "operationResultTypeSuffix", .str s] => some { r with operationResultTypeSuffix := some s.toList }
  | .list [.atom "variablesTypeSuffix", .str s] => some { r with variablesTypeSuffix := some s.toList }
  | .list [.atom "fragmentTypeSuffix", .str s] => some { r with fragmentTypeSuffix := some s.toList }
  | _ => none

def parseCfg : List Sexp → RawCfg → Option RawCfg
  | [], r => some r
  | k :: ks, r => match parseCfgKey r k with
    | some r' => parseCfg ks r'
    | none => none

def parseKind : String → Option Kind
  | "query" => some .query
  | "mutation" => some .mutation
  | "subscription" => some .subscription
  | _ => none

def parseDef : Sexp → Option Def
  | .list [.atom "op", .atom k] => (parseKind k).map fun k => .op k none
  | .list [.atom "op", .atom k, .str n] => (parseKind k).map fun k => .op k (some n.toList)
  | .list [.atom "frag", .str n, b] => (parseBool b).map fun b => .frag n.toList b
  | _ => none

def parseFile : List Sexp → Option File
  | [] => some []
  | d :: ds => match parseDef d, parseFile ds with
    | some d, some ds => some (d :: ds)
    | _, _ => none

def str (s : Str) : Sexp := .str (String.ofList s)

def stmtSexp : Stmt → Sexp
  | .typeAlias n e => .list [.atom "type", str n, Sexp.ofBool e]
  | .const n i e a v => .list [.atom "const", str n, Sexp.ofNat i, Sexp.ofBool e, Sexp.ofBool a, Sexp.ofBool v]
  | .exportDefault l => .list [.atom "default", str l]

def handle : Sexp → Sexp
  | .list [.atom "c14", .list (.atom "cfg" :: ks), .list (.atom "file" :: ds)] =>
    match parseCfg ks {}, parseFile ds with
    | some raw, some F =>
      let c := Config.parse raw
      Sexp.ok [
        .list [.atom "ext", str (declExtension c.mode)],
        .list [.atom "nocollision", Sexp.ofBool (decide (NoCollision c F))],
        .list (.atom "dts" :: (dts c F).map stmtSexp),
        .list (.atom "js" :: (js c F).map stmtSexp),
        .list (.atom "loader" :: (loaderJs c F).map stmtSexp)]
    | _, _ => .list [.atom "bad-request"]
  | .list [.atom "flush"] => .list [.atom "flushed"]
  | _ => .list [.atom "bad-request"]

def main : IO Unit := serveLoop handle
