import NitroVerif.Base.Sexp
import NitroVerif.Base.JsonSexp
import NitroVerif.Gql.Codec
import NitroVerif.Model.DocJson
import NitroVerif.Model.FragClosure
import NitroVerif.Spec.ReadDoc
/-!
Driver of C12 (exe `nv_c12`).
  (json.of (doc …) <index>)   → (ok <json>) | (panic "fragment not found" "Name") | (err …)
        the model's runtime document for definition number <index> of the (import-resolved) document
  (json.doc (doc …))          → (ok <json>)      the model's JSON of the definitions as they are (no closure)
  (names (doc …) <index>)     → (ok "A" …) | (err out-of-fuel)   names the MODEL appends (before lookup)
  (read <json>)               → (ok (doc …)) | (unreadable)      the reference reader
  (closure (doc …) <index>|"Name") → (ok "A" …)   the REFERENCE closure of definition <index> / of the fragment or operation of that name
                                       (first-visit order; for a fragment its own name removed)
-/
open NitroVerif NitroVerif.Gql

def fragEnv (defs : List ExecDef) : ReadDoc.Env := fun n => (FragClosure.getFrag defs n).map (·.sel)

def defNamed (defs : List ExecDef) (n : String) : Option ExecDef :=
  defs.find? fun
    | .op o => (o.name.map (·.1)) == some n
    | .frag f => f.name == n
    | .imp _ => false

def refClosure (defs : List ExecDef) : ExecDef → Sexp
  | .op o => match ReadDoc.closure (fragEnv defs) defs.length o.sel with
    | some ns => Sexp.ok (ns.map .str)
    | none => .list [.atom "err", .atom "reference-bound-exceeded"]
  | .frag f => match ReadDoc.closure (fragEnv defs) defs.length f.sel with
    | some ns => Sexp.ok ((ns.filter (· != f.name)).map .str)
    | none => .list [.atom "err", .atom "reference-bound-exceeded"]
  | .imp _ => Sexp.ok []

def handle : Sexp → Sexp
  | .list [.atom "json.of", d, i] =>
    match Dec.doc d, i.nat? with
    | some defs, some i =>
      match defs[i]? with
      | none => .list [.atom "err", .atom "index"]
      | some x =>
        match FragClosure.runtimeDefs defs x with
        | .ok ds => Sexp.ok [(DocJson.toJson ds).toSexp]
        | .error (.fragmentNotFound n) => .list [.atom "panic", .str "fragment not found", .str n]
        | .error .outOfFuel => .list [.atom "err", .atom "out-of-fuel"]
    | _, _ => .list [.atom "bad-request"]
  | .list [.atom "json.doc", d] =>
    match Dec.doc d with
    | some defs => Sexp.ok [(DocJson.toJson defs).toSexp]
    | none => .list [.atom "bad-request"]
  | .list [.atom "names", d, i] =>
    match Dec.doc d, i.nat? with
    | some defs, some i =>
      match defs[i]? with
      | some (.op o) => match FragClosure.opNames defs o with
        | some ns => Sexp.ok (ns.map .str)
        | none => .list [.atom "err", .atom "out-of-fuel"]
      | some (.frag f) => match FragClosure.fragNames defs f with
        | some ns => Sexp.ok (ns.map .str)
        | none => .list [.atom "err", .atom "out-of-fuel"]
      | _ => .list [.atom "err", .atom "index"]
    | _, _ => .list [.atom "bad-request"]
  | .list [.atom "read", j] =>
    match Json.ofSexp j with
    | none => .list [.atom "bad-request"]
    | some j => match ReadDoc.readDoc j with
      | some defs => Sexp.ok [Enc.doc defs]
      | none => .list [.atom "unreadable"]
  | .list [.atom "closure", d, .str n] =>
    match Dec.doc d with
    | some defs => match defNamed defs n with
      | some x => refClosure defs x
      | none => .list [.atom "err", .atom "no-such-definition"]
    | none => .list [.atom "bad-request"]
  | .list [.atom "closure", d, i] =>
    match Dec.doc d, i.nat? with
    | some defs, some i => match defs[i]? with
      | some x => refClosure defs x
      | none => .list [.atom "err", .atom "index"]
    | _, _ => .list [.atom "bad-request"]
  | .list [.atom "flush"] => .list [.atom "flushed"]
  | _ => .list [.atom "bad-request"]

def main : IO Unit := serveLoop handle
