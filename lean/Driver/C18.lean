import NitroVerif.Base.Sexp
import NitroVerif.Model.Cli
import NitroVerif.Gql.Codec
import NitroVerif.Model.Paths
import NitroVerif.Lemmas.CliComposed
import NitroVerif.Lemmas.CliComposedCode
/-!
Line-protocol driver for C18 (model of the CLI driver, `NitroVerif/Model/Cli.lean`).

request  (run (cmds c…) (schema pr…) (sext od) (scheck d…) (ops (op pr od od (chk d…) io)…)
              (gen so ms rd sv rs mode) (sprinter b) (io io io io))
           c    ::= check | generate | (other n)
           pr   ::= ok | (err line col tag)
           d    ::= (d pos (pos…) tag)          od ::= none | d
           pos  ::= (p line col file b)          b ∈ {0,1}
           io   ::= ok | main | map
           mode ::= ts50 | ts40 | standalone     so ms rd sv rs ∈ {0,1}
answer   (outcome (exit n) (error none | (e cmd|none kind)) (run c…) (diags ce…) (written of…) (listed of…)
                  (store nSchema nOps)
                  (json (error none | (e cmd|none kind)) (check none | (some jd…)) (generate none | (some of…)))
                  (rdjson (rd null|(f idx line col) tag)…) (human none | (some nSchemaErrs nOperationErrs))
                  (declExt "ext"))   |   (panic)
           ce ::= (ce schema|operation cls pos tag)   jd ::= (jd schema|operation null|(f idx line col) tag)
           of ::= (of schema|server|resolvers|(op j) b)
request  (composed (cmds c…) (schema (sf idx pr)…) (ops (of idx "path" pr io (paths (pos pos)…))…)
                   (gen so ms rd sv rs mode) (sprinter b) (io io io io))
           the COMPOSED model (`Lemmas/CliComposed.lean`, `stagesOf` + `runCli`) on a whole project.  The parsers are the
           abstract parameter of the composition: the harness parses every file with the REAL parser and sends
           pr ::= (ok (tsdoc …)) | (ok (doc …)) | (err line col tag)   (documents in the `Gql/Codec.lean` wire format, positions
           with file indices); idx = the file index the harness parsed the file with (`parseTs` / `parseOp` answer only
           when `stagesOf` asks with that very index); "path" = absolute path of the operation file; (paths …) =
           (position of the `#import` line, position of its path literal) for every import line (`Env.pathPos`).
answer   (outcome … as above, every tag a string … (stages (sext od) (scheck d…) (ops (op od od (chk d…))…)))
           tag ::= "parse:<tag sent>" | "kind:<CheckErrorMessage variant>" | "msg:<message of the resolver error>"
           d   ::= (d "tag" line col file b)
request  (render "path" "source" line col "message" b)                       answer (ok "text") | (panic)
request  (print (files ("path" "source")…) "message" none|pos ((pos "message")…))   answer (ok "text") | (panic)
request  (lines "source")                                                   answer (ok "line"…)
-/
open NitroVerif NitroVerif.Cli

def pBool : Sexp → Option Bool
  | .atom "1" => some true
  | .atom "0" => some false
  | _ => none

def pPos : Sexp → Option Pos
  | .list [.atom "p", l, c, f, b] => do
    pure ⟨← l.nat?, ← c.nat?, ← f.nat?, ← pBool b⟩
  | _ => none

def pDiag : Sexp → Option Diag
  | .list [.atom "d", p, .list ex, t] => do
    pure ⟨← pPos p, ← ex.mapM pPos, ← t.nat?⟩
  | _ => none

def pOptDiag : Sexp → Option (Option Diag)
  | .atom "none" => some none
  | s => (pDiag s).map some

def pParse : Sexp → Option ParseRes
  | .atom "ok" => some .ok
  | .list [.atom "err", l, c, t] => do pure (.err (← l.nat?) (← c.nat?) (← t.nat?))
  | _ => none

def pIo : Sexp → Option IoRes
  | .atom "ok" => some .ok
  | .atom "main" => some .mainFails
  | .atom "map" => some .mapFails
  | _ => none

def pCmd : Sexp → Option Cmd
  | .atom "check" => some .check
  | .atom "generate" => some .generate
  | .list [.atom "other", n] => n.nat?.map .other
  | _ => none

def pMode : Sexp → Option Mode
  | .atom "ts50" => some .withLoaderTs50
  | .atom "ts40" => some .withLoaderTs40
  | .atom "standalone" => some .standaloneTs40
  | _ => none

def pOp : Sexp → Option OpFile
  | .list [.atom "op", pr, e, i, .list (.atom "chk" :: ds), io] => do
    pure ⟨← pParse pr, ← pOptDiag e, ← pOptDiag i, ← ds.mapM pDiag, ← pIo io⟩
  | _ => none

def pRun : Sexp → Option Run
  | .list [.atom "run", .list (.atom "cmds" :: cs), .list (.atom "schema" :: ss), .list [.atom "sext", se],
      .list (.atom "scheck" :: sc), .list (.atom "ops" :: os),
      .list [.atom "gen", so, ms, rd, sv, rs, mode], .list [.atom "sprinter", sp],
      .list [.atom "io", i1, i2, i3]] => do
    pure { cmds := ← cs.mapM pCmd, schemaFiles := ← ss.mapM pParse, schemaExt := ← pOptDiag se,
           schemaCheck := ← sc.mapM pDiag, opFiles := ← os.mapM pOp,
           gen := ⟨← pBool so, ← pBool ms, ← pBool rd, ← pBool sv, ← pBool rs, ← pMode mode⟩,
           schemaPrinterFails := ← pBool sp, ioSchema := ← pIo i1, ioServer := ← pIo i2, ioResolvers := ← pIo i3 }
  | _ => none

def sBool (b : Bool) : Sexp := .atom (if b then "1" else "0")
def sPos (p : Pos) : Sexp := .list [.atom "p", Sexp.ofNat p.line, Sexp.ofNat p.col, Sexp.ofNat p.file, sBool p.builtin]
def sKind : FileKind → Sexp
  | .schema => .atom "schema"
  | .operation => .atom "operation"
def sCls : Cls → Sexp
  | .parseSchema => .atom "parse-schema"
  | .parseOperation => .atom "parse-operation"
  | .schemaExt => .atom "schema-ext"
  | .schemaCheck => .atom "schema-check"
  | .opExt => .atom "op-ext"
  | .opImport => .atom "op-import"
  | .opCheck => .atom "op-check"
def sCe (tagS : Nat → Sexp) (e : CheckErr) : Sexp :=
  .list [.atom "ce", sKind e.kind, sCls e.cls, sPos e.diag.pos, tagS e.diag.tag]
def sCmd : Cmd → Sexp
  | .check => .atom "check"
  | .generate => .atom "generate"
  | .other n => .list [.atom "other", Sexp.ofNat n]
def sOptCmd : Option Cmd → Sexp
  | none => .atom "none"
  | some c => sCmd c
def sErrKind : Cli.ErrKind → Sexp
  | .noCommand => .atom "no-command"
  | .parseFailed => .atom "parse-failed"
  | .unknownCommand => .atom "unknown-command"
  | .invalidCommand => .atom "invalid-command"
  | .checkFailed => .atom "check-failed"
  | .optionRequired => .atom "option-required"
  | .runtimeToDts => .atom "runtime-to-dts"
  | .printer => .atom "printer"
  | .io => .atom "io"
def sTarget : Target → Sexp
  | .schema => .atom "schema"
  | .server => .atom "server"
  | .resolvers => .atom "resolvers"
  | .op j => .list [.atom "op", Sexp.ofNat j]
def sOf (f : OutFile) : Sexp := .list [.atom "of", sTarget f.target, sBool f.isMap]
def sLoc : Option (Nat × Nat × Nat) → Sexp
  | none => .atom "null"
  | some (f, l, c) => .list [.atom "f", Sexp.ofNat f, Sexp.ofNat l, Sexp.ofNat c]

def sOutcome (r : Run) (o : Outcome) (tagS : Nat → Sexp := Sexp.ofNat) (more : List Sexp := []) : Sexp :=
  let j := jsonView o
  .list ([.atom "outcome",
    .list [.atom "exit", Sexp.ofNat o.exit],
    .list [.atom "error", match o.error with
      | none => .atom "none"
      | some e => .list [.atom "e", sOptCmd e.command, sErrKind e.kind]],
    .list (.atom "run" :: o.commandsRun.map sCmd),
    .list (.atom "diags" :: o.diags.map (sCe tagS)),
    .list (.atom "written" :: o.written.map sOf),
    .list (.atom "listed" :: o.listed.map sOf),
    .list [.atom "store", Sexp.ofNat o.store.schemaLen, Sexp.ofNat o.store.opLen],
    .list [.atom "json",
      .list [.atom "error", match j.error with
        | none => .atom "none"
        | some (c, k) => .list [.atom "e", sOptCmd c, sErrKind k]],
      .list [.atom "check", match j.check with
        | none => .atom "none"
        | some ds => .list (.atom "some" :: ds.map fun d => .list [.atom "jd", sKind d.fileType, sLoc d.file, tagS d.tag])],
      .list [.atom "generate", match j.generate with
        | none => .atom "none"
        | some fs => .list (.atom "some" :: fs.map sOf)]],
    .list (.atom "rdjson" :: (rdjsonView o).map fun (l, t) => .list [.atom "rd", sLoc l, tagS t]),
    .list [.atom "human", match humanView o with
      | none => .atom "none"
      | some (a, b) => .list [.atom "some", Sexp.ofNat a.length, Sexp.ofNat b.length]],
    .list [.atom "declExt", .str r.gen.mode.declExt]] ++ more)

/-! ## the composed model (`stagesOf`) on a whole project -/
namespace Composed
open NitroVerif.Gql NitroVerif.CliComposed

/-- the text of a file as the composition sees it: what the REAL parser answered when it was run with file index `idx` -/
inductive PText where
  | ts (idx : Nat) (r : PRes TsDoc)
  | op (idx : Nat) (r : PRes Doc)

/-- tags are the `nameCode` of a string (decoded again by `untag` when the answer is written) -/
def strTag (s : String) : Nat := nameCode s

partial def untagChars (n : Nat) : List Char :=
  if n = 0 then [] else Char.ofNat (n % 1114113 - 1) :: untagChars (n / 1114113)

def untag (n : Nat) : String := String.ofList (untagChars n)

def tagS (n : Nat) : Sexp := .str (untag n)

def mismatch {α : Type} (what : String) : PRes α := .error (0, 0, strTag ("harness:" ++ what))

def pPRes {α : Type} (dec : Sexp → Option α) : Sexp → Option (PRes α)
  | .list [.atom "ok", d] => (dec d).map .ok
  | .list [.atom "err", l, c, t] => do pure (.error (← l.nat?, ← c.nat?, strTag s!"parse:{← t.nat?}"))
  | _ => none

def pSchemaFile : Sexp → Option PText
  | .list [.atom "sf", idx, pr] => do pure (.ts (← idx.nat?) (← pPRes Dec.tsDoc pr))
  | _ => none

def pPathPair : Sexp → Option (Gql.Pos × Gql.Pos)
  | .list [a, b] => do pure (← Dec.pos a, ← Dec.pos b)
  | _ => none

def pOpFile : Sexp → Option (OpInput PText Paths.P × List (Gql.Pos × Gql.Pos))
  | .list [.atom "of", idx, .str path, pr, io, .list (.atom "paths" :: ps)] => do
    pure (⟨Paths.normalize (Paths.components path), .op (← idx.nat?) (← pPRes Dec.doc pr), ← pIo io⟩, ← ps.mapM pPathPair)
  | _ => none

def extMessage : ExtResolve.ExtError → String
  | .duplicateOriginal elem name _ _ => s!"Duplicated declaration of {elem} '{name}'"
  | .noOriginal elem _ => s!"{elem} is extended, but there is no original declaration of {elem}"

def opExtMessage : Imports.ExtErr → String
  | .wildcardOnlyOnce _ => "Wildcard import should be specified only once"
  | .wildcardCombined _ => "Wildcard import cannot be combined with specific import"

def impMessage : Imports.ImpErr Paths.P String → String
  | .fileNotFound _ rel _ => s!"File '{rel}' not found."
  | .fragmentNotFound _ rel id => s!"'{untag id.name}' is not found in the imported file '{rel}'."

def env (paths : List (Gql.Pos × Gql.Pos)) : Env PText Paths.P :=
  { parseTs := fun i t => match t with
      | .ts idx r => if idx = i then r else mismatch s!"schema-file-parsed-with-index-{idx}-asked-with-{i}"
      | .op .. => mismatch "operation-file-asked-as-schema"
    parseOp := fun i t => match t with
      | .op idx r => if idx = i then r else mismatch s!"operation-file-parsed-with-index-{idx}-asked-with-{i}"
      | .ts .. => mismatch "schema-file-asked-as-operation"
    res := fun doc rel => Paths.resolve doc (Paths.components rel)
    code := nameCode
    pathPos := fun i => match paths.lookup i.pos with | some p => p | none => {}
    tags :=
      { schemaExt := fun e => strTag ("msg:" ++ extMessage e)
        schemaCheck := fun k => strTag ("kind:" ++ k.asStr)
        opExt := fun e => strTag ("msg:" ++ opExtMessage e)
        opImport := fun e => strTag ("msg:" ++ impMessage e)
        opCheck := fun k => strTag ("kind:" ++ k.toString) } }

def pProject : Sexp → Option (Project PText Paths.P × List (Gql.Pos × Gql.Pos))
  | .list [.atom "composed", .list (.atom "cmds" :: cs), .list (.atom "schema" :: ss), .list (.atom "ops" :: os),
      .list [.atom "gen", so, ms, rd, sv, rs, mode], .list [.atom "sprinter", sp],
      .list [.atom "io", i1, i2, i3]] => do
    let ops ← os.mapM pOpFile
    pure ({ cmds := ← cs.mapM pCmd, schemaTexts := ← ss.mapM pSchemaFile, ops := ops.map (·.1),
            gen := ⟨← pBool so, ← pBool ms, ← pBool rd, ← pBool sv, ← pBool rs, ← pMode mode⟩,
            schemaPrinterFails := ← pBool sp, ioSchema := ← pIo i1, ioServer := ← pIo i2, ioResolvers := ← pIo i3 },
          ops.flatMap (·.2))
  | _ => none

def sD (d : Diag) : Sexp :=
  .list [.atom "d", tagS d.tag, Sexp.ofNat d.pos.line, Sexp.ofNat d.pos.col, Sexp.ofNat d.pos.file, sBool d.pos.builtin]

def sOptD : Option Diag → Sexp
  | none => .atom "none"
  | some d => sD d

def sStages (r : Run) : Sexp :=
  .list [.atom "stages", .list [.atom "sext", sOptD r.schemaExt], .list (.atom "scheck" :: r.schemaCheck.map sD),
    .list (.atom "ops" :: r.opFiles.map fun f => .list [.atom "op", sOptD f.ext, sOptD f.imp, .list (.atom "chk" :: f.check.map sD)])]

def answer (req : Sexp) : Sexp :=
  match pProject req with
  | none => .list [.atom "bad-request"]
  | some (P, paths) =>
    let r := stagesOf (env paths) P
    match runCli r with
    | some o => sOutcome r o tagS [sStages r]
    | none => .list [.atom "panic"]

end Composed

def sText : Option (List Char) → Sexp
  | none => .list [.atom "panic"]
  | some t => Sexp.ok [.str (String.ofList t)]

def pFile : Sexp → Option (List Char × List Char)
  | .list [.str p, .str s] => some (p.toList, s.toList)
  | _ => none

def pExtra : Sexp → Option (Pos × List Char)
  | .list [p, .str m] => (pPos p).map fun p => (p, m.toList)
  | _ => none

def handle : Sexp → Sexp
  | .list [.atom "render", .str path, .str src, l, c, .str msg, b] =>
    match l.nat?, c.nat?, pBool b with
    | some l, some c, some b => sText (messageForLine path.toList src.toList ⟨l, c, 0, false⟩ msg.toList b)
    | _, _, _ => .list [.atom "bad-request"]
  | .list [.atom "print", .list (.atom "files" :: fs), .str msg, pos, .list ex] =>
    match fs.mapM pFile, ex.mapM pExtra with
    | some fs, some ex =>
      match pos with
      | .atom "none" => sText (printPositioned fs msg.toList none ex)
      | p => match pPos p with
        | some p => sText (printPositioned fs msg.toList (some p) ex)
        | none => .list [.atom "bad-request"]
    | _, _ => .list [.atom "bad-request"]
  | .list [.atom "lines", .str src] => Sexp.ok ((lines src.toList).map fun l => .str (String.ofList l))
  | .list [.atom "flush"] => .list [.atom "flushed"]
  | .list (.atom "composed" :: rest) => Composed.answer (.list (.atom "composed" :: rest))
  | req =>
    match pRun req with
    | some r => match runCli r with
      | some o => sOutcome r o
      | none => .list [.atom "panic"]
    | none => .list [.atom "bad-request"]

def main : IO Unit := serveLoop handle
