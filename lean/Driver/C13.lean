import NitroVerif.Base.Sexp
import NitroVerif.Model.Paths
import NitroVerif.Model.Imports
import NitroVerif.Spec.Imports
/-!
Line-protocol driver for C13.

request  (c13 (root "<path>" (imps (i "<rel>" t…)…) (defs d…)) (files (f "<path>" (imps …) (defs …)) …))
           t ::= w | <nat>      (wildcard | fragment name code)        d ::= o | <nat>   (operation | fragment name code)
answer   (ans <model> <legacy> <spec>)
           <model>  ::= (ok ("<path>" idx)…) | (err notfound "<doc>" line) | (err nofrag "<doc>" line col name)
                      | (ext-err "<path>" once|combined line) | (out-of-fuel)
           <legacy> ::= the same for the pre-repair algorithm, plus (panic)
           <spec>   ::= (set ("<path>" idx)…) | (err) | (ill-formed)
-/
open NitroVerif NitroVerif.Paths NitroVerif.Imports

abbrev K := Paths.P

def resP (doc : K) (rel : String) : K := Paths.resolve doc (Paths.components rel)

def parseTarget : Sexp → Option RawTarget
  | .atom "w" => some .wildcard
  | .atom s => s.toNat?.map .name
  | _ => none

def parseDef : Sexp → Option Def
  | .atom "o" => some .other
  | .atom s => s.toNat?.map .frag
  | _ => none

def parseImp : Sexp → Option (RawImport String)
  | .list (.atom "i" :: .str rel :: ts) => (ts.mapM parseTarget).map fun ts => ⟨rel, ts⟩
  | _ => none

structure RawFile where
  path : String
  lines : List (RawImport String)
  defs : List Def

def parseBody (path : String) : List Sexp → Option RawFile
  | [.list (.atom "imps" :: imps), .list (.atom "defs" :: defs)] => do
    let lines ← imps.mapM parseImp
    let defs ← defs.mapM parseDef
    pure ⟨path, lines, defs⟩
  | _ => none

def parseFile : Sexp → Option RawFile
  | .list (.atom "f" :: .str path :: body) => parseBody path body
  | _ => none

def showDefId (x : DefId K) : Sexp := .list [.str (render x.1), Sexp.ofNat x.2]

def showErr : ImpErr K String → Sexp
  | .fileNotFound doc _ line => .list [.atom "err", .atom "notfound", .str (render doc), Sexp.ofNat line]
  | .fragmentNotFound doc _ id =>
    .list [.atom "err", .atom "nofrag", .str (render doc), Sexp.ofNat id.line, Sexp.ofNat id.col, Sexp.ofNat id.name]

def showExtErr (path : String) : ExtErr → Sexp
  | .wildcardOnlyOnce line => .list [.atom "ext-err", .str path, .atom "once", Sexp.ofNat line]
  | .wildcardCombined line => .list [.atom "ext-err", .str path, .atom "combined", Sexp.ofNat line]

/-- extension-resolve every document (root first), stop at the first error -/
def extAll : List RawFile → Except Sexp (List (String × File String))
  | [] => .ok []
  | f :: rest =>
    match resolveExt f.lines with
    | .error e => .error (showExtErr f.path e)
    | .ok imps =>
      match extAll rest with
      | .error e => .error e
      | .ok fs => .ok ((f.path, ⟨imps, f.defs⟩) :: fs)

def answer (rootRaw : RawFile) (filesRaw : List RawFile) : Sexp :=
  let root : K := Paths.normalize (Paths.components rootRaw.path)
  -- model and legacy
  let (model, legacy) := match extAll (rootRaw :: filesRaw) with
    | .error e => (e, e)
    | .ok [] => (Sexp.atom "impossible", Sexp.atom "impossible")
    | .ok ((_, rootFile) :: files) =>
      let fs : FS K String := files.map fun (p, f) => (Paths.components p, f)
      let m := match resolve resP fs root rootFile with
        | .ok out => Sexp.ok (out.map showDefId)
        | .err e => showErr e
        | .outOfFuel => .list [.atom "out-of-fuel"]
      let l := match Legacy.resolve resP fs root rootFile with
        | .ok out => Sexp.ok (out.map showDefId)
        | .err e => showErr e
        | .panic => .list [.atom "panic"]
        | .outOfFuel => .list [.atom "out-of-fuel"]
      (m, l)
  -- spec: every raw line on its own
  let spec :=
    if (rootRaw :: filesRaw).all (fun f => decide (Spec.WellFormed f.lines)) then
      let fsS : FS K String := filesRaw.map fun f => (Paths.components f.path, ⟨Spec.linesOfRaw f.lines, f.defs⟩)
      let rootS : File String := ⟨Spec.linesOfRaw rootRaw.lines, rootRaw.defs⟩
      if Spec.refError resP fsS root rootS then .list [.atom "err"]
      else .list (.atom "set" :: (Spec.refImports resP fsS root rootS).map showDefId)
    else .list [.atom "ill-formed"]
  .list [.atom "ans", model, legacy, spec]

def handle : Sexp → Sexp
  | .list [.atom "c13", .list (.atom "root" :: .str rootPath :: rootBody), .list (.atom "files" :: files)] =>
    match parseBody rootPath rootBody, files.mapM parseFile with
    | some r, some fs => answer r fs
    | _, _ => .list [.atom "bad-request"]
  | .list [.atom "flush"] => .list [.atom "flushed"]
  | _ => .list [.atom "bad-request"]

def main : IO Unit := serveLoop handle
