/-
A small JSON tree type shared by the properties that talk about emitted JSON (C12 runtime documents,
C15 introspection results, …). Numbers keep their raw text. Objects are association lists in source order
(a JSON text may repeat a key; `get?` returns the first occurrence, `getLast?` the last one — readers say
which one they mean). Nested lists are handled by mutual structural recursion, like `Gql.Value`
(kernel-evaluable). Core Lean only; no `partial`.
-/
namespace NitroVerif

inductive Json where
  | null
  | bool (b : Bool)
  | num (raw : String)
  | str (s : String)
  | arr (xs : List Json)
  | obj (kvs : List (String × Json))
  deriving Repr, Inhabited

namespace Json

mutual
def size : Json → Nat
  | .arr xs => sizeList xs + 1
  | .obj kvs => sizeFields kvs + 1
  | _ => 1
def sizeList : List Json → Nat
  | [] => 0
  | x :: xs => x.size + sizeList xs
def sizeFields : List (String × Json) → Nat
  | [] => 0
  | (_, v) :: r => v.size + sizeFields r
end

mutual
def beq : Json → Json → Bool
  | .null, .null => true
  | .bool a, .bool b => a == b
  | .num a, .num b => a == b
  | .str a, .str b => a == b
  | .arr a, .arr b => beqList a b
  | .obj a, .obj b => beqFields a b
  | _, _ => false
def beqList : List Json → List Json → Bool
  | [], [] => true
  | a :: as, b :: bs => a.beq b && beqList as bs
  | _, _ => false
def beqFields : List (String × Json) → List (String × Json) → Bool
  | [], [] => true
  | (k, a) :: as, (k', b) :: bs => k == k' && a.beq b && beqFields as bs
  | _, _ => false
end
instance : BEq Json := ⟨Json.beq⟩

/-- first value stored under `k` in an association list -/
def lookup (k : String) : List (String × Json) → Option Json
  | [] => none
  | (k', v) :: r => if k' = k then some v else lookup k r

/-- member `k` of an object (first occurrence); `none` for non-objects -/
def get? (j : Json) (k : String) : Option Json :=
  match j with
  | .obj kvs => lookup k kvs
  | _ => none

def str? : Json → Option String
  | .str s => some s
  | _ => none

def bool? : Json → Option Bool
  | .bool b => some b
  | _ => none

def arr? : Json → Option (List Json)
  | .arr xs => some xs
  | _ => none

end Json
end NitroVerif
