/-
S-expression wire format of `Json` trees (drivers only; uses `partial`, no theorem depends on this file):
  json := (null) | (bool true|false) | (num "raw") | (str "s") | (arr json…) | (obj ("key" json)…)
-/
import NitroVerif.Base.Sexp
import NitroVerif.Base.Json
namespace NitroVerif.Json

partial def toSexp : Json → Sexp
  | .null => .list [.atom "null"]
  | .bool b => .list [.atom "bool", Sexp.ofBool b]
  | .num s => .list [.atom "num", .str s]
  | .str s => .list [.atom "str", .str s]
  | .arr xs => .list (.atom "arr" :: xs.map toSexp)
  | .obj kvs => .list (.atom "obj" :: kvs.map fun (k, v) => .list [.str k, toSexp v])

mutual
partial def ofSexp : Sexp → Option Json
  | .list [.atom "null"] => some .null
  | .list [.atom "bool", .atom "true"] => some (.bool true)
  | .list [.atom "bool", .atom "false"] => some (.bool false)
  | .list [.atom "num", .str s] => some (.num s)
  | .list [.atom "str", .str s] => some (.str s)
  | .list (.atom "arr" :: xs) => do some (.arr (← xs.mapM ofSexp))
  | .list (.atom "obj" :: kvs) => do some (.obj (← kvs.mapM kvOfSexp))
  | _ => none
partial def kvOfSexp : Sexp → Option (String × Json)
  | .list [.str k, v] => do some (k, ← ofSexp v)
  | _ => none
end

end NitroVerif.Json
