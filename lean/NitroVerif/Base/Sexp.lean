/-
S-expression codec for the line protocol between the Rust harness and the Lean model drivers.
  sexp ::= atom | "string" | ( sexp* )
Atoms: any run of characters other than whitespace, parentheses and double quotes.
Strings: double-quoted with escapes \\ \" \n \r \t \u{hex}; a request is always one physical line.
Core Lean only (no Mathlib/Batteries) so that drivers link as `lean_exe`.
-/
namespace NitroVerif

inductive Sexp where
  | atom (s : String)
  | str (s : String)
  | list (xs : List Sexp)
  deriving Repr, Inhabited, BEq

namespace Sexp

def hexDigit (n : Nat) : Char :=
  if n < 10 then Char.ofNat (48 + n) else Char.ofNat (87 + n)

partial def toHex (n : Nat) : String :=
  if n < 16 then String.singleton (hexDigit n)
  else toHex (n / 16) ++ String.singleton (hexDigit (n % 16))

def escapeChar (c : Char) : String :=
  if c == '\\' then "\\\\"
  else if c == '"' then "\\\""
  else if c == '\n' then "\\n"
  else if c == '\r' then "\\r"
  else if c == '\t' then "\\t"
  else if c.toNat < 32 || c.toNat == 127 || c.toNat > 126 then "\\u{" ++ toHex c.toNat ++ "}"
  else String.singleton c

def escape (s : String) : String :=
  s.foldl (fun acc c => acc ++ escapeChar c) ""

partial def toString : Sexp → String
  | atom s => s
  | str s => "\"" ++ escape s ++ "\""
  | list xs => "(" ++ " ".intercalate (xs.map toString) ++ ")"

instance : ToString Sexp := ⟨Sexp.toString⟩

def hexVal (c : Char) : Option Nat :=
  if '0' ≤ c && c ≤ '9' then some (c.toNat - 48)
  else if 'a' ≤ c && c ≤ 'f' then some (c.toNat - 87)
  else if 'A' ≤ c && c ≤ 'F' then some (c.toNat - 55)
  else none

/-- parse a string body after the opening quote; returns (string, rest) -/
partial def parseStr : List Char → String → Option (String × List Char)
  | [], _ => none
  | '"' :: rest, acc => some (acc, rest)
  | '\\' :: 'n' :: rest, acc => parseStr rest (acc.push '\n')
  | '\\' :: 'r' :: rest, acc => parseStr rest (acc.push '\r')
  | '\\' :: 't' :: rest, acc => parseStr rest (acc.push '\t')
  | '\\' :: '\\' :: rest, acc => parseStr rest (acc.push '\\')
  | '\\' :: '"' :: rest, acc => parseStr rest (acc.push '"')
  | '\\' :: 'u' :: '{' :: rest, acc =>
    let rec go (cs : List Char) (n : Nat) : Option (Nat × List Char) :=
      match cs with
      | '}' :: r => some (n, r)
      | c :: r => match hexVal c with
        | some v => go r (n * 16 + v)
        | none => none
      | [] => none
    match go rest 0 with
    | some (n, r) => parseStr r (acc.push (Char.ofNat n))
    | none => none
  | '\\' :: _, _ => none
  | c :: rest, acc => parseStr rest (acc.push c)

def isAtomChar (c : Char) : Bool :=
  !(c == ' ' || c == '\t' || c == '\n' || c == '\r' || c == '(' || c == ')' || c == '"')

mutual
partial def parseOne : List Char → Option (Sexp × List Char)
  | [] => none
  | ' ' :: r => parseOne r
  | '\t' :: r => parseOne r
  | '\n' :: r => parseOne r
  | '\r' :: r => parseOne r
  | '(' :: r => parseList r []
  | ')' :: _ => none
  | '"' :: r => match parseStr r "" with
    | some (s, r') => some (str s, r')
    | none => none
  | cs =>
    let a := cs.takeWhile isAtomChar
    let r := cs.dropWhile isAtomChar
    some (atom (String.ofList a), r)
partial def parseList : List Char → List Sexp → Option (Sexp × List Char)
  | [], _ => none
  | ' ' :: r, acc => parseList r acc
  | '\t' :: r, acc => parseList r acc
  | '\n' :: r, acc => parseList r acc
  | '\r' :: r, acc => parseList r acc
  | ')' :: r, acc => some (list acc.reverse, r)
  | cs, acc => match parseOne cs with
    | some (x, r) => parseList r (x :: acc)
    | none => none
end

def parse (s : String) : Option Sexp :=
  match parseOne s.toList with
  | some (x, rest) => if rest.all (fun c => c == ' ' || c == '\n' || c == '\r' || c == '\t') then some x else none
  | none => none

def nat? : Sexp → Option Nat
  | atom s => s.toNat?
  | _ => none

def int? : Sexp → Option Int
  | atom s => s.toInt?
  | _ => none

def str? : Sexp → Option String
  | str s => some s
  | _ => none

def ofNat (n : Nat) : Sexp := atom (ToString.toString n)
def ofInt (n : Int) : Sexp := atom (ToString.toString n)
def ofBool (b : Bool) : Sexp := atom (if b then "true" else "false")
def ok (xs : List Sexp) : Sexp := list (atom "ok" :: xs)
def err (msg : String) : Sexp := list [atom "err", str msg]

end Sexp

/-- The request loop shared by all drivers: one S-expression per line in, one per line out. -/
partial def serveLoop (handle : Sexp → Sexp) : IO Unit := do
  let stdin ← IO.getStdin
  let stdout ← IO.getStdout
  let rec loop : IO Unit := do
    let line ← stdin.getLine
    if line.isEmpty then
      stdout.flush
      return ()
    let t := line.trimAscii.toString
    if t.isEmpty then
      loop
    else
      let out := match Sexp.parse t with
        | some req => handle req
        | none => Sexp.list [Sexp.atom "bad-request"]
      stdout.putStrLn (Sexp.toString out)
      if t == "(flush)" then stdout.flush
      loop
  loop

end NitroVerif
