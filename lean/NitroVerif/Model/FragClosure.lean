/-
Model of the fragment-collection algorithm that decides which fragment definitions accompany an operation /
a fragment in its runtime document:
  * `crates/printer/src/utils.rs fragment_names_in_selection_set` (`rec`): walk the selection tree in document
    order threading the list `names`; a spread whose name is already in `names` is skipped, otherwise the name is
    pushed and — if the name is defined — the walk continues *inside* that fragment's selection set before the
    following siblings; fields and inline fragments are entered;
  * `crates/printer/src/operation_base_printer/mod.rs print_document`: `fragments` is a `HashMap` collected from the
    document's fragment definitions in order (a later definition of the same name replaces an earlier one);
  * `crates/printer/src/operation_js_printer/printers.rs print_operation_runtime / print_fragment_runtime`:
    the runtime document is the operation (fragment) followed by the definitions of the collected names
    (for a fragment: minus its own name); a collected name without a definition panics
    (`expect("fragment not found")`).
The recursion into fragment bodies is not structural (the fragment graph may be cyclic). The model nests two
structural recursions: `collect` recurses on a depth bound, `walkSels` on the selection tree; the bound the model
supplies is (number of definitions + 1) and `C12_terminates` proves it is never exhausted.
Core Lean only.
-/
import NitroVerif.Gql.Ast
namespace NitroVerif.FragClosure
open NitroVerif.Gql

/-- `fragments.get(name)` where `fragments` was `collect()`ed from the definitions in order: the LAST fragment
    definition of that name -/
def getFrag : List ExecDef → Name → Option FragmentDef
  | [], _ => none
  | .frag f :: r, n =>
    match getFrag r n with
    | some g => some g
    | none => if f.name = n then some f else none
  | _ :: r, n => getFrag r n

mutual
/-- one iteration of the `for selection in …` loop of `rec`; `recF` is the recursive call on a fragment's body -/
def walkSel (recF : List Selection → List Name → Option (List Name)) (get : Name → Option FragmentDef) :
    Selection → List Name → Option (List Name)
  | .field _ _ _ _ _ (some ss), names => walkSels recF get ss names
  | .field _ _ _ _ _ none, names => some names
  | .spread n _ _ _, names =>
    if n ∈ names then some names
    else match get n with
      | none => some (names ++ [n])
      | some f => recF f.sel (names ++ [n])
  | .inline _ _ ss _, names => walkSels recF get ss names
def walkSels (recF : List Selection → List Name → Option (List Name)) (get : Name → Option FragmentDef) :
    List Selection → List Name → Option (List Name)
  | [], names => some names
  | s :: r, names =>
    match walkSel recF get s names with
    | some names' => walkSels recF get r names'
    | none => none
end

/-- `rec` with a bound on the nesting of fragment bodies (`none` = bound exhausted) -/
def collect (get : Name → Option FragmentDef) : Nat → List Selection → List Name → Option (List Name)
  | 0 => fun _ _ => none
  | d + 1 => walkSels (collect get d) get

/-- the bound supplied by the model: one more than the number of definitions -/
def bound (defs : List ExecDef) : Nat := defs.length + 1

/-- `fragment_names_in_selection_set(selection_set, |name| fragments.get(name))` -/
def fragmentNames (defs : List ExecDef) (ss : List Selection) : Option (List Name) :=
  collect (getFrag defs) (bound defs) ss []

inductive RtErr where
  /-- cannot happen (`C12_terminates`) -/
  | outOfFuel
  /-- `expect("fragment not found")` -/
  | fragmentNotFound (n : Name)
  deriving Repr, DecidableEq

/-- `.map(|name| FragmentDefinition(fragments.get(name).expect("fragment not found")))` -/
def lookupAll (defs : List ExecDef) : List Name → Except RtErr (List ExecDef)
  | [] => .ok []
  | n :: r =>
    match getFrag defs n with
    | none => .error (.fragmentNotFound n)
    | some f => match lookupAll defs r with
      | .ok fs => .ok (.frag f :: fs)
      | .error e => .error e

/-- names of the fragments appended to the runtime document of an operation -/
def opNames (defs : List ExecDef) (o : OperationDef) : Option (List Name) := fragmentNames defs o.sel

/-- names of the fragments appended to the runtime document of a fragment (its own name filtered out) -/
def fragNames (defs : List ExecDef) (f : FragmentDef) : Option (List Name) :=
  (fragmentNames defs f.sel).map fun ns => ns.filter fun n => n != f.name

def withNames (defs : List ExecDef) (x : ExecDef) : Option (List Name) → Except RtErr (List ExecDef)
  | none => .error .outOfFuel
  | some ns => match lookupAll defs ns with
    | .ok fs => .ok (x :: fs)
    | .error e => .error e

/-- the definitions of the runtime document printed for definition `x` of the (import-resolved) document `defs`:
    `print_operation_runtime` / `print_fragment_runtime` -/
def runtimeDefs (defs : List ExecDef) : ExecDef → Except RtErr (List ExecDef)
  | .op o => withNames defs (.op o) (opNames defs o)
  | .frag f => withNames defs (.frag f) (fragNames defs f)
  | .imp _ => .ok []

end NitroVerif.FragClosure
