/-
Model of `path_to_ts` (crates/cli/src/generate.rs): the file name of the schema declaration file is turned
into the import specifier's file name by replacing the FIRST extension of the (translated) TS_TO_JS table
that is a suffix of it. The table is regenerated from the source on every run (translate/ts_to_js.py).
`tsCandidates` is the reference: the files TypeScript's module resolution tries for a relative specifier
(TypeScript handbook, "Module resolution": a `.js`/`.mjs`/`.cjs` specifier is looked up under the
corresponding TypeScript extensions).
-/
import NitroVerif.Gen.TsToJs
namespace NitroVerif.PathToTs

/-- `s.strip_suffix(suf)` on character lists -/
def stripSuffix (s suf : List Char) : Option (List Char) :=
  if suf.isSuffixOf s then some (s.take (s.length - suf.length)) else none

/-- the loop of `path_to_ts` over a table -/
def pathToTsWith : List (List Char × List Char) → List Char → List Char
  | [], name => name
  | (ts, js) :: rest, name =>
    match stripSuffix name ts with
    | some stem => stem ++ js
    | none => pathToTsWith rest name

def pathToTs (name : List Char) : List Char := pathToTsWith Gen.tsToJs name

/-- TypeScript extensions tried for a JavaScript extension of a relative module specifier -/
def tsExtsFor (js : List Char) : List (List Char) :=
  if js = ".js".toList then [".ts".toList, ".tsx".toList, ".d.ts".toList]
  else if js = ".mjs".toList then [".mts".toList, ".d.mts".toList]
  else if js = ".cjs".toList then [".cts".toList, ".d.cts".toList]
  else []

def jsExts : List (List Char) := [".js".toList, ".mjs".toList, ".cjs".toList]

/-- files module resolution tries for the specifier's file name -/
def tsCandidates (spec : List Char) : List (List Char) :=
  jsExts.flatMap fun js =>
    match stripSuffix spec js with
    | some stem => (tsExtsFor js).map (stem ++ ·)
    | none => []

end NitroVerif.PathToTs
