/-
Model of `check_type_system_document` (`crates/checker/src/type_system_checker/{mod,interfaces,
check_directive_recursion}.rs`) together with `generate_definition_map`
(`crates/semantics/src/definition_map.rs`), following the Rust control flow: same diagnostics, same
positions, same multiplicity, same order.

`DefinitionMap` has two views of the document:
  * `type_system` — the `Schema` built by `ast_to_type_system` (`entry().or_insert`: FIRST definition of a
    name wins) = `Gql.Schema` (`typeDef?`, `directiveDef?`);
  * `types` / `directives` — `HashMap::insert` in document order: the LAST definition of a name wins
    (`lastTypeDef?`, `lastDirectiveDef?`).
The two only differ on documents that define a name twice (which `resolve_schema_extensions` lets through
for definitions of different kinds and for directive definitions). Since fix 8cdbacf the checker itself starts
with `check_unique_names` (`checkUniqueNames`): a repeated type name (across kinds; also a user type that takes
the name of a built-in-position type) and a repeated user directive name get `DuplicatedName`; re-declaring a
built-in directive stays allowed.

The document is the *resolved* one (no extensions; built-ins included as data). Extension items, which
`TypeSystemDocument` cannot contain, are ignored.

The small part of `resolve_schema_extensions` that implements the rule "no two definitions of the same
kind with the same name" (`ExtensionList::set_original` → `DuplicateOriginal`) is `dupOriginal?`.

Core Lean only; structurally recursive (explicit fuel for the directive-recursion search and for the walk through nested
input objects inside it).
-/
import NitroVerif.Model.CheckTsCommon
namespace NitroVerif.CheckTs
open NitroVerif.Gql

/-- `definition_map.types.get(n)`: the last type definition named `n` -/
def lastTypeDef? (T : TsDoc) (n : Name) : Option TypeDef :=
  (Schema.typeDefs ⟨T⟩).reverse.find? (·.name == n)

/-- `definition_map.directives.get(n)`: the last directive definition named `n` -/
def lastDirectiveDef? (T : TsDoc) (n : Name) : Option DirectiveDef :=
  (Schema.directiveDefs ⟨T⟩).reverse.find? (·.name == n)

/-! ### interfaces.rs -/

/-- `check_valid_implementation(definitions, object_name, fields, implements, interface, result)` -/
def checkValidImpl (S : Schema) (namePos : Pos) (fields : List FieldDef) (implements : List (Name × Pos))
    (iface : TypeDef) : List Err :=
  ((iface.implements.filter fun imp => !(implements.any (·.1 == imp.1))).map
      fun _ => (ErrKind.InterfaceNotImplemented, namePos)) ++
  iface.fields.flatMap fun impF =>
    match fields.find? (·.name == impF.name) with
    | none => [(.InterfaceFieldNotImplemented, namePos)]
    | some f =>
      (impF.args.flatMap fun ia =>
        match f.args.find? (·.name == ia.name) with
        | none => [(.InterfaceArgumentNotImplemented, f.pos)]
        | some fa => if !(fa.ty.same ia.ty) then [(.ArgumentTypeMisMatchWithInterface, fa.pos)] else []) ++
      ((f.args.filter fun fa => impF.args.all (·.name != fa.name) && InputValueDef.required fa).map
        fun fa => (ErrKind.ArgumentTypeNonNullAgainstInterface, fa.pos)) ++
      (if isSubtype S f.ty impF.ty == some false then [(.FieldTypeMisMatchWithInterface, f.pos)] else [])

/-! ### check_directive_recursion.rs -/

/-- `directives_in_type` as it was before fix 2e4a65e, which is still what the repaired function returns for every
    kind but INPUT OBJECT — and, for an input object, the first part of the result (the directives on the type and on
    its fields, not those inside the types of its fields) -/
def directivesInTypeOld (t : TypeDef) : List Directive :=
  match t.kind with
  | .scalar | .union => t.dirs
  | .object | .interface => t.dirs ++ t.fields.flatMap (·.dirs)
  | .enum => t.dirs ++ t.values.flatMap (·.dirs)
  | .input => t.dirs ++ t.inputs.flatMap (·.dirs)

/-- the `for field in def.fields.iter()` loop of `directives_in_type` (input-object arm): the type of each field is looked
    up in `definition_map.types` (fields of an undefined type are skipped) and walked by `go` with the `seen_types` set
    the previous fields left behind; result = (directives appended to `result`, `seen_types` afterwards) -/
def ditFields (T : TsDoc) (go : TypeDef → List Name → List Directive × List Name) :
    List InputValueDef → List Name → List Directive × List Name
  | [], seen => ([], seen)
  | f :: fs, seen =>
    match lastTypeDef? T f.ty.unwrapped with
    | none => ditFields T go fs seen
    | some ft =>
      let r := go ft seen
      let r' := ditFields T go fs r.2
      (r.1 ++ r'.1, r'.2)

/-- `directives_in_type(definition_map, def, seen_types)` (since fix 2e4a65e) with the mutable `seen_types` threaded
    through: (directives returned, `seen_types` afterwards). An input object whose name is already in `seen_types`
    contributes nothing; otherwise its name is inserted, the directives on the type and on its fields come first, then —
    field by field, depth first — the directives inside the types of its fields. The fuel bounds the NESTING depth:
    every nested call that does not return at once has inserted a new input-object name of the document, so `|T| + 1`
    is never exhausted (`Lemmas/CheckTsWalk.lean`: `ditWalk_fuel_indep`); the out-of-fuel branch is silent. -/
def ditWalk (T : TsDoc) : Nat → TypeDef → List Name → List Directive × List Name
  | 0, t, seen => if t.kind == .input then ([], seen) else (directivesInTypeOld t, seen)
  | fuel + 1, t, seen =>
    if t.kind == .input then
      if seen.contains t.name then ([], seen)
      else
        let r := ditFields T (ditWalk T fuel) t.inputs (t.name :: seen)
        (t.dirs ++ t.inputs.flatMap (·.dirs) ++ r.1, r.2)
    else (directivesInTypeOld t, seen)

/-- `directives_in_type(definition_map, def, &mut HashSet::new())`: the call made for the type of ONE argument of the
    directive definition being expanded (`seen_types` is created afresh for each argument) -/
def directivesInType (T : TsDoc) (t : TypeDef) : List Directive :=
  (ditWalk T (T.length + 1) t []).1

/-- the directive definitions pushed to `next_directives` when `d` is expanded -/
def dirSuccessors (T : TsDoc) (d : DirectiveDef) : List DirectiveDef :=
  (d.args.flatMap fun a =>
      a.dirs ++ (match lastTypeDef? T a.ty.unwrapped with
                 | none => []
                 | some t => directivesInType T t)).filterMap fun dir => lastDirectiveDef? T dir.name

/-- `dirSuccessors` before fix 2e4a65e (only the argument's own type was looked into); kept for the pre-repair
    witnesses -/
def dirSuccessorsOld (T : TsDoc) (d : DirectiveDef) : List DirectiveDef :=
  (d.args.flatMap fun a =>
      a.dirs ++ (match lastTypeDef? T a.ty.unwrapped with
                 | none => []
                 | some t => directivesInTypeOld t)).filterMap fun dir => lastDirectiveDef? T dir.name

/-- one `for d in current_directives` pass: (seen afterwards, diagnostics, next_directives) -/
def recRound (T : TsDoc) (start : Name) : List Name → List DirectiveDef → List Name × List Err × List DirectiveDef
  | seen, [] => (seen, [], [])
  | seen, d :: ds =>
    if seen.contains d.name then
      let r := recRound T start seen ds
      (r.1, (if d.name == start then [(ErrKind.RecursingDirective, d.pos)] else []) ++ r.2.1, r.2.2)
    else
      let r := recRound T start (d.name :: seen) ds
      (r.1, r.2.1, dirSuccessors T d ++ r.2.2)

/-- the `loop { … }`; every round that continues has put at least one new directive name into `seen`,
    so `#directive definitions + 2` rounds of fuel are never exhausted -/
def recLoop (T : TsDoc) (start : Name) : Nat → List Name → List DirectiveDef → List Err
  | 0, _, _ => []
  | fuel + 1, seen, cur =>
    let r := recRound T start seen cur
    if r.2.2.isEmpty then r.2.1 else r.2.1 ++ recLoop T start fuel r.1 r.2.2

/-- `check_directive_recursion(definition_map, directive, result)` -/
def checkDirectiveRecursion (T : TsDoc) (d : DirectiveDef) : List Err :=
  recLoop T d.name (T.length + 2) [] [d]

/-! ### mod.rs -/

/-- the type of an output field (object / interface): `NoInputType` for an input object type,
    `UnknownType` for an undefined one -/
def checkOutputFieldType (S : Schema) (ty : GType) : List Err :=
  match S.kindOf? ty.unwrapped with
  | some k => if Schema.isOutputKind k then [] else [(.NoInputType, typePos ty)]
  | none => [(.UnknownType, typePos ty)]

/-- the type of an argument or input field -/
def checkInputValueType (S : Schema) (ty : GType) : List Err :=
  match S.kindOf? ty.unwrapped with
  | none => [(.UnknownType, typePos ty)]
  | some k => if Schema.isInputKind k then [] else [(.NoOutputType, typePos ty)]

/-- `check_arguments_definition` -/
def checkArgsDef (S : Schema) (args : List InputValueDef) : List Err :=
  loopSeen (·.name) (fun dup (v : InputValueDef) =>
    (if reserved v.name then [(ErrKind.UnscoUnsco, v.pos)] else []) ++
    (if dup then [(.DuplicatedName, v.pos)] else []) ++
    checkInputValueType S v.ty ++
    checkDirectives S "ARGUMENT_DEFINITION" v.dirs) [] args

/-- the `for f in fields` loop shared by `check_object` and `check_interface` -/
def checkFields (S : Schema) (fields : List FieldDef) : List Err :=
  loopSeen (·.name) (fun dup (f : FieldDef) =>
    (if dup then [(ErrKind.DuplicatedName, f.pos)] else []) ++
    (if reserved f.name then [(.UnscoUnsco, f.pos)] else []) ++
    checkDirectives S "FIELD_DEFINITION" f.dirs ++
    checkOutputFieldType S f.ty ++
    checkArgsDef S f.args) [] fields

/-- the `for interface in object.implements` loop of `check_object` -/
def checkObjectImplements (T : TsDoc) (S : Schema) (t : TypeDef) : List Err :=
  t.implements.flatMap fun (n, p) =>
    match lastTypeDef? T n with
    | none => [(.UnknownType, p)]
    | some idef =>
      if idef.kind != .interface then [(.NotInterface, p)]
      else checkValidImpl S t.namePos t.fields t.implements idef

/-- the `for other_interface in interface.implements` loop of `check_interface` -/
def checkInterfaceImplements (T : TsDoc) (S : Schema) (t : TypeDef) : List Err :=
  t.implements.flatMap fun (n, p) =>
    if t.name == n then [(.NoImplementSelf, p)] else
    match lastTypeDef? T n with
    | none => [(.UnknownType, p)]
    | some idef =>
      if idef.kind != .interface then [(.NotInterface, p)]
      else checkValidImpl S t.namePos t.fields t.implements idef

def checkUnionMembers (T : TsDoc) (members : List (Name × Pos)) : List Err :=
  loopSeen (·.1) (fun dup (m : Name × Pos) =>
    (if dup then [(ErrKind.DuplicatedName, m.2)] else []) ++
    (match lastTypeDef? T m.1 with
     | none => [(.UnknownType, m.2)]
     | some d => if d.kind != .object then [(.NonObjectTypeUnionMember, m.2)] else [])) [] members

def checkEnumValues (S : Schema) (values : List EnumValueDef) : List Err :=
  loopSeen (·.name) (fun dup (v : EnumValueDef) =>
    (if dup then [(ErrKind.DuplicatedName, v.pos)] else []) ++
    (if reserved v.name then [(.UnscoUnsco, v.pos)] else []) ++
    checkDirectives S "ENUM_VALUE" v.dirs) [] values

def checkInputFields (S : Schema) (inputs : List InputValueDef) : List Err :=
  loopSeen (·.name) (fun dup (f : InputValueDef) =>
    (if dup then [(ErrKind.DuplicatedName, f.pos)] else []) ++
    (if reserved f.name then [(.UnscoUnsco, f.pos)] else []) ++
    checkDirectives S "INPUT_FIELD_DEFINITION" f.dirs ++
    checkInputValueType S f.ty) [] inputs

def locationOfKind : TypeKind → String
  | .scalar => "SCALAR" | .object => "OBJECT" | .interface => "INTERFACE"
  | .union => "UNION" | .enum => "ENUM" | .input => "INPUT_OBJECT"

/-- `check_scalar` / `check_object` / `check_interface` / `check_union` / `check_enum` / `check_input_object` -/
def checkTypeDef (T : TsDoc) (S : Schema) (t : TypeDef) : List Err :=
  (if reserved t.name then [(ErrKind.UnscoUnsco, t.namePos)] else []) ++
  checkDirectives S (locationOfKind t.kind) t.dirs ++
  (match t.kind with
   | .scalar => []
   | .object => checkFields S t.fields ++ checkObjectImplements T S t
   | .interface => checkFields S t.fields ++ checkInterfaceImplements T S t
   | .union => checkUnionMembers T t.members
   | .enum => checkEnumValues S t.values
   | .input => checkInputFields S t.inputs)

/-- `check_directive` -/
def checkDirectiveDef (T : TsDoc) (S : Schema) (d : DirectiveDef) : List Err :=
  checkDirectiveRecursion T d ++
  (if reserved d.name then [(ErrKind.UnscoUnsco, d.namePos)] else []) ++
  checkArgsDef S d.args

/-- `check_schema`: the directives at `SCHEMA` -/
def checkSchemaDef (_T : TsDoc) (S : Schema) (s : SchemaDef) : List Err :=
  checkDirectives S "SCHEMA" s.dirs

def checkItem (T : TsDoc) (S : Schema) : TsItem → List Err
  | .schemaDef s => checkSchemaDef T S s
  | .typeDef t => checkTypeDef T S t
  | .directiveDef d => checkDirectiveDef T S d
  | .schemaExt _ => []
  | .typeExt _ => []

/-! ### `check_unique_names` (fix 8cdbacf) -/

/-- the `match (other.position.builtin, name.position.builtin)` of `check_unique_names`: which of the two
    identifiers of one name is reported, if any. `other` is the identifier seen EARLIER, `cur` the current one. -/
def uniqueReport (isType : Bool) (other cur : Pos) : List Err :=
  match other.builtin, cur.builtin with
  | false, false => [(.DuplicatedName, cur)]
  | false, true => if isType then [(.DuplicatedName, other)] else []
  | true, false => if isType then [(.DuplicatedName, cur)] else []
  | true, true => []

/-- one iteration: `seen.iter().find(|other| other.name == name.name)` — the FIRST identifier pushed with that
    name — then the report -/
def uniqueStep (isType : Bool) (seen : List (Name × Pos)) (name : Name) (pos : Pos) : List Err :=
  match seen.find? (·.1 == name) with
  | none => []
  | some other => uniqueReport isType other.2 pos

/-- the `for def in document.definitions` loop of `check_unique_names` with its two vectors `seen_types`,
    `seen_directives` (in push order); schema definitions are skipped -/
def checkUniqueNamesAux : List (Name × Pos) → List (Name × Pos) → TsDoc → List Err
  | _, _, [] => []
  | st, sd, .typeDef t :: r =>
    uniqueStep true st t.name t.namePos ++ checkUniqueNamesAux (st ++ [(t.name, t.namePos)]) sd r
  | st, sd, .directiveDef d :: r =>
    uniqueStep false sd d.name d.namePos ++ checkUniqueNamesAux st (sd ++ [(d.name, d.namePos)]) r
  | st, sd, _ :: r => checkUniqueNamesAux st sd r

/-- `check_unique_names(document, &mut result)` -/
def checkUniqueNames (T : TsDoc) : List Err := checkUniqueNamesAux [] [] T

/-- the `for def in document.definitions { match def … }` loop of `check_type_system_document`: the
    per-definition diagnostics. This is ALL the function reported before fix 8cdbacf (pre-repair witnesses are
    stated about it). -/
def checkSchemaItems (T : TsDoc) : List Err :=
  T.flatMap (checkItem T ⟨T⟩)

/-- `check_type_system_document(document)`: the name-uniqueness diagnostics first, then the per-definition ones -/
def checkSchema (T : TsDoc) : List Err :=
  checkUniqueNames T ++ checkSchemaItems T

/-! ### the duplicate-definition rule of `resolve_schema_extensions` -/

/-- `ExtensionList::set_original` over the seven lists: the first definition (in document order) whose
    (kind, name) — or "schema" — was already set. `none` = no `DuplicateOriginal` error. -/
def dupOriginalAux : List (Option (TypeKind × Name)) → TsDoc → Option (Option (TypeKind × Name))
  | _, [] => none
  | seen, .schemaDef _ :: r =>
    if seen.contains none then some none else dupOriginalAux (none :: seen) r
  | seen, .typeDef t :: r =>
    if seen.contains (some (t.kind, t.name)) then some (some (t.kind, t.name))
    else dupOriginalAux (some (t.kind, t.name) :: seen) r
  | seen, _ :: r => dupOriginalAux seen r

def dupOriginal? (T : TsDoc) : Option (Option (TypeKind × Name)) := dupOriginalAux [] T

end NitroVerif.CheckTs
