/-
Text-level model of crates/printer/src/jsdoc.rs (`print_description`, `dedent`, `skip_last_if`) and of the
pieces of Rust `std` it uses (`str::lines`, `char::is_whitespace`), on `List Char`.

  print_description(d) writes   "/**\n"  then, for every line of `dedent(d).lines()`,  " * " line "\n"   then " */\n"

After the repair `fix: escape "*/" inside JSDoc comments` every line is written with each occurrence of `*/`
replaced by `*\/` (`str::replace`, leftmost non-overlapping), so that the description cannot end the comment.
Core Lean only; structurally recursive.
-/
namespace NitroVerif.JsDoc

/-- Rust `char::is_whitespace` (Unicode White_Space) -/
def isWhitespace (c : Char) : Bool :=
  let n := c.toNat
  (9 ≤ n && n ≤ 13) || n == 0x20 || n == 0x85 || n == 0xA0 || n == 0x1680 || (0x2000 ≤ n && n ≤ 0x200A)
  || n == 0x2028 || n == 0x2029 || n == 0x202F || n == 0x205F || n == 0x3000

def stripCR : List Char → List Char
  | '\r' :: r => r
  | l => l

/-- Rust `str::lines`: split after every `\n`; a piece that ends in `\n` loses it and then one `\r`; a final
    piece without `\n` is kept as it is; no piece for the empty rest. `cur` = current piece, reversed. -/
def linesAux : List Char → List Char → List (List Char)
  | [], cur => if cur.isEmpty then [] else [cur.reverse]
  | '\n' :: rest, cur => (stripCR cur).reverse :: linesAux rest []
  | c :: rest, cur => linesAux rest (c :: cur)

def lines (s : List Char) : List (List Char) := linesAux s []

/-- drop the trailing elements that satisfy `p` (what `skip_last_if` does) -/
def dropTrailing (p : List Char → Bool) : List (List Char) → List (List Char)
  | [] => []
  | l :: r =>
    match dropTrailing p r with
    | [] => if p l then [] else [l]
    | r' => l :: r'

/-- `first_non_space_byte_index(line).map(|(char_idx, _)| char_idx)` -/
def firstNonSpace : List Char → Option Nat
  | [] => none
  | c :: r => if isWhitespace c then (firstNonSpace r).map (· + 1) else some 0

def minimum? : List Nat → Option Nat
  | [] => none
  | a :: r => match minimum? r with
    | none => some a
    | some b => some (min a b)

/-- `dedent` -/
def dedent (value : List Char) : List Char :=
  let ls := dropTrailing List.isEmpty ((lines value).dropWhile List.isEmpty)
  let m := (minimum? (ls.filterMap firstNonSpace)).getD 0
  ls.flatMap fun l =>
    let l' := l.drop m
    if l'.isEmpty then [] else l' ++ ['\n']

def startsSlash : List Char → Bool
  | [] => false
  | c :: _ => c == '/'

/-- `line.replace("*/", "*\\/")` (leftmost, non-overlapping): a `*` that is followed by `/` gets a backslash after it -/
def escapeClose : List Char → List Char
  | [] => []
  | c :: rest => if c == '*' && startsSlash rest then '*' :: '\\' :: escapeClose rest else c :: escapeClose rest

/-- the lines written between `/**` and ` */` (each after " * ") -/
def docLinesC (d : List Char) : List (List Char) := (lines (dedent d)).map escapeClose

def docLines (d : String) : List String := (docLinesC d.toList).map String.ofList

/-- the text between the opening `/**` and the closing `*/` of the emitted comment -/
def commentBody (d : List Char) : List Char :=
  '\n' :: ((docLinesC d).flatMap fun l => [' ', '*', ' '] ++ l ++ ['\n']) ++ [' ']

/-- the whole emitted comment (without indentation) -/
def comment (d : List Char) : List Char := ['/', '*', '*'] ++ commentBody d ++ ['*', '/', '\n']

/-- does the text contain the two characters `*/` next to each other? -/
def hasClose : List Char → Bool
  | [] => false
  | c :: r => (c == '*' && startsSlash r) || hasClose r

/-- `make_ts_description` (schema_type_printer/type_printer.rs): description and deprecation reason -/
def fieldDescription (desc : Option String) (deprecation : Option String) : Option String :=
  match desc, deprecation with
  | some d, some r => some (d ++ "\n\n@deprecated " ++ r)
  | some d, none => some d
  | none, some r => some ("@deprecated " ++ r)
  | none, none => none

end NitroVerif.JsDoc
