/-
Model of `#import` resolution:
  crates/semantics/src/operation_extension_resolver/mod.rs   `resolve_operation_extensions`  → `resolveExt`
  crates/semantics/src/operation_import_resolver/mod.rs      `resolve_operation_imports(_rec)` → `resolve` / `expandFuel`
  the two `OperationResolver`s (cli/check.rs `Operations`, graphql-loader `TaskOperationResolver`) → a finite map `FS`

The model is generic in the type `κ` of resolved (normalised) file paths, the type `ρ` of the path literal written in an
import line, and the function `res : κ → ρ → κ` (`resolve_relative_path`); the driver and the property theorems
instantiate it with `κ = Paths.P`, `ρ = String`, `res doc rel = Paths.resolve doc (Paths.components rel)`.
Fragment names are `Nat`-coded (DESIGN §2.4). A definition of a file is identified by its index in the file's
definition list (what the repaired code keys its `imported` set by).

The import resolver is the code AFTER the `fix:` commit for C13 (7cb51d3: `expanded` files, `requested` (file, definition
index) pairs, `finished` files in post-order; the requested definitions are appended at the end). The pre-repair algorithm (one `visited` set) is kept at the end of the file in
namespace `Legacy`, only to state the kernel-checked witnesses of the three defects it had.
Everything is structurally recursive (explicit fuel for the depth-first traversal) so that `decide` can evaluate it.
-/
namespace NitroVerif.Imports

/-- one target of a raw `#import` line -/
inductive RawTarget where
  | wildcard
  | name (n : Nat)
  deriving DecidableEq, Repr, Inhabited

/-- a raw `#import t₁, …, tₖ from "rel"` line (`ImportDefinition`) -/
structure RawImport (ρ : Type) where
  rel : ρ
  targets : List RawTarget
  deriving DecidableEq, Repr

/-- an identifier occurrence with its position: raw line index and index of the target within that line -/
structure Ident where
  name : Nat
  line : Nat
  col : Nat
  deriving DecidableEq, Repr, Inhabited

/-- `ImportTargets` -/
inductive Targets where
  | wildcard
  | specific (ids : List Ident)
  deriving DecidableEq, Repr, Inhabited

/-- `Import` of `OperationExtension`: `line` is the raw line whose path literal carries `path.position` -/
structure Import (ρ : Type) where
  rel : ρ
  line : Nat
  targets : Targets
  deriving DecidableEq, Repr

inductive ExtErr where
  | wildcardOnlyOnce (line : Nat)
  | wildcardCombined (line : Nat)
  deriving DecidableEq, Repr

/-- an executable definition of a file: a fragment (by name) or anything else (an operation) -/
inductive Def where
  | frag (name : Nat)
  | other
  deriving DecidableEq, Repr, Inhabited

/-! ### `resolve_operation_extensions` (import lines only; definitions are passed through unchanged) -/

/-- the `try_fold` over the targets of one raw line; `i` = index of the next target in the line -/
def foldTargets (line : Nat) : Targets → Nat → List RawTarget → Except ExtErr Targets
  | acc, _, [] => .ok acc
  | .wildcard, _, .wildcard :: _ => .error (.wildcardOnlyOnce line)
  | .wildcard, _, .name _ :: _ => .error (.wildcardCombined line)
  | .specific ids, i, .wildcard :: rest =>
    if ids.isEmpty then foldTargets line .wildcard (i + 1) rest else .error (.wildcardCombined line)
  | .specific ids, i, .name n :: rest => foldTargets line (.specific (ids ++ [⟨n, line, i⟩])) (i + 1) rest

variable {κ ρ : Type} [DecidableEq κ] [DecidableEq ρ]

/-- one `ExecutableDefinitionExt::Import` arm: the entry with the same path *literal* is removed, its targets are
    the initial accumulator, and the merged entry is pushed at the end -/
def extStep (imports : List (Import ρ)) (line : Nat) (raw : RawImport ρ) : Except ExtErr (List (Import ρ)) :=
  let initial := match imports.find? (fun i => i.rel = raw.rel) with
    | some e => e.targets
    | none => Targets.specific []
  match foldTargets line initial 0 raw.targets with
  | .ok t => .ok (imports.eraseP (fun i => i.rel = raw.rel) ++ [⟨raw.rel, line, t⟩])
  | .error e => .error e

def extLoop : List (Import ρ) → Nat → List (RawImport ρ) → Except ExtErr (List (Import ρ))
  | acc, _, [] => .ok acc
  | acc, line, raw :: rest =>
    match extStep acc line raw with
    | .ok acc' => extLoop acc' (line + 1) rest
    | .error e => .error e

/-- `resolve_operation_extensions` restricted to the import lines of a document -/
def resolveExt (lines : List (RawImport ρ)) : Except ExtErr (List (Import ρ)) := extLoop [] 0 lines

/-! ### `resolve_operation_imports` -/

/-- a parsed + extension-resolved operation document -/
structure File (ρ : Type) where
  imports : List (Import ρ)
  defs : List Def
  deriving Repr

/-- the `OperationResolver`: finite map from resolved path to document (first entry wins) -/
abbrev FS (κ ρ : Type) := List (κ × File ρ)

inductive ImpErr (κ ρ : Type) where
  /-- `FileNotFound { file: rel, position: import.path.position }` raised while processing document `doc` -/
  | fileNotFound (doc : κ) (rel : ρ) (line : Nat)
  /-- `FragmentNotFound { name, file: rel, position: target.position }` -/
  | fragmentNotFound (doc : κ) (rel : ρ) (id : Ident)
  deriving DecidableEq, Repr

inductive Res (κ ρ α : Type) where
  | ok (a : α)
  | err (e : ImpErr κ ρ)
  | outOfFuel
  deriving DecidableEq, Repr

def Res.isErr {κ ρ α : Type} : Res κ ρ α → Bool
  | .err _ => true
  | _ => false

/-- a definition of some file: (resolved path of the file, index in its definition list) -/
abbrev DefId (κ : Type) := κ × Nat

/-- state of the traversal (`ImportState`): `expanded` = files whose own import lines have been (or are being)
    processed, `requested` = definitions asked for by some processed import line, `finished` = imported files in the
    order in which the processing of their own import lines finished -/
structure St (κ : Type) where
  expanded : List κ
  requested : List (DefId κ)
  finished : List κ
  deriving Repr

def isFragNamed (n : Nat) : Def → Bool
  | .frag m => m == n
  | .other => false

/-- does the import line select this definition? (`Wildcard` → every fragment; `Specific` → fragments named in it) -/
def selects (t : Targets) : Def → Bool
  | .other => false
  | .frag m => match t with
    | .wildcard => true
    | .specific ids => ids.any (fun id => id.name == m)

/-- indices (from `i` on) of the definitions selected by `t`, in file order -/
def selectedFrom (t : Targets) : Nat → List Def → List Nat
  | _, [] => []
  | i, d :: ds => if selects t d then i :: selectedFrom t (i + 1) ds else selectedFrom t (i + 1) ds

def selectedIdx (t : Targets) (defs : List Def) : List Nat := selectedFrom t 0 defs

/-- first requested name that is not a fragment of the imported file -/
def missingTarget (t : Targets) (defs : List Def) : Option Ident :=
  match t with
  | .wildcard => none
  | .specific ids => ids.find? (fun id => !(defs.any (isFragNamed id.name)))

variable (res : κ → ρ → κ) (fs : FS κ ρ)

/-- body of the `for import in extensions.imports` loop; `expand` is the recursive call -/
def step (expand : κ → List (Import ρ) → St κ → Res κ ρ (St κ)) (doc : κ) (st : St κ) (imp : Import ρ) :
    Res κ ρ (St κ) :=
  let p := res doc imp.rel
  match fs.lookup p with
  | none => .err (.fileNotFound doc imp.rel imp.line)
  | some file =>
    match (if p ∈ st.expanded then Res.ok st
           else match expand p file.imports { st with expanded := p :: st.expanded } with
             | .ok st' => Res.ok { st' with finished := st'.finished ++ [p] }
             | r => r) with
    | .ok st1 =>
      match missingTarget imp.targets file.defs with
      | some id => .err (.fragmentNotFound doc imp.rel id)
      | none => .ok { st1 with requested := st1.requested ++ (selectedIdx imp.targets file.defs).map (fun i => (p, i)) }
    | .err e => .err e
    | .outOfFuel => .outOfFuel

/-- the `for` loop -/
def iter (expand : κ → List (Import ρ) → St κ → Res κ ρ (St κ)) (doc : κ) :
    List (Import ρ) → St κ → Res κ ρ (St κ)
  | [], st => .ok st
  | imp :: rest, st =>
    match step res fs expand doc st imp with
    | .ok st' => iter expand doc rest st'
    | .err e => .err e
    | .outOfFuel => .outOfFuel

/-- `resolve_operation_imports_rec` with an explicit recursion-depth budget -/
def expandFuel : Nat → κ → List (Import ρ) → St κ → Res κ ρ (St κ)
  | 0 => fun _ _ _ => .outOfFuel
  | n + 1 => fun doc imps st => iter res fs (expandFuel n) doc imps st

/-- all definitions of the root document, as definition ids -/
def rootIds (root : κ) (rootFile : File ρ) : List (DefId κ) :=
  (List.range rootFile.defs.length).map (fun i => (root, i))

def initSt (root : κ) : St κ :=
  { expanded := [root], requested := [], finished := [] }

/-- the requested definitions of one finished file, in file order -/
def emitFile (requested : List (DefId κ)) (p : κ) : List (DefId κ) :=
  match fs.lookup p with
  | none => []
  | some file => ((List.range file.defs.length).filter (fun i => (p, i) ∈ requested)).map (fun i => (p, i))

/-- the final loop of `resolve_operation_imports`: finished files in order, requested definitions in file order -/
def emit (st : St κ) : List (DefId κ) := st.finished.flatMap (emitFile fs st.requested)

/-- `resolve_operation_imports((root, rootFile), fs)`: the definitions appended after the root's own ones.
    `root` is the normalised path of the root document. Depth never exceeds the number of files. -/
def resolve (root : κ) (rootFile : File ρ) : Res κ ρ (List (DefId κ)) :=
  match expandFuel res fs (fs.length + 1) root rootFile.imports (initSt root) with
  | .ok st => .ok (emit fs st)
  | .err e => .err e
  | .outOfFuel => .outOfFuel

/-! ### the algorithm before the repair (historical; see `Props/C13.lean` for the witnesses) -/
namespace Legacy

inductive LRes (κ ρ α : Type) where
  | ok (a : α)
  | err (e : ImpErr κ ρ)
  | panic
  | outOfFuel
  deriving DecidableEq, Repr

/-- state: the single `visited` set and the appended definitions -/
structure LSt (κ : Type) where
  visited : List κ
  out : List (DefId κ)
  deriving Repr

def lstep (expand : κ → List (Import ρ) → LSt κ → LRes κ ρ (LSt κ)) (doc : κ) (st : LSt κ) (imp : Import ρ) :
    LRes κ ρ (LSt κ) :=
  let p := res doc imp.rel
  if p ∈ st.visited then .ok st
  else match fs.lookup p with
  | none => .err (.fileNotFound doc imp.rel imp.line)
  | some file =>
    match expand p file.imports { st with visited := p :: st.visited } with
    | .ok st1 =>
      let sel := selectedIdx imp.targets file.defs
      let st2 : LSt κ := { st1 with out := st1.out ++ sel.map (fun i => (p, i)) }
      match imp.targets with
      | .wildcard => .ok st2
      | .specific ids =>
        if sel.length < ids.length then
          match missingTarget imp.targets file.defs with
          | some id => .err (.fragmentNotFound doc imp.rel id)
          | none => .panic       -- `.expect("missing target not found")`
        else .ok st2
    | r => r

def liter (expand : κ → List (Import ρ) → LSt κ → LRes κ ρ (LSt κ)) (doc : κ) :
    List (Import ρ) → LSt κ → LRes κ ρ (LSt κ)
  | [], st => .ok st
  | imp :: rest, st =>
    match lstep res fs expand doc st imp with
    | .ok st' => liter expand doc rest st'
    | r => r

def lexpandFuel : Nat → κ → List (Import ρ) → LSt κ → LRes κ ρ (LSt κ)
  | 0 => fun _ _ _ => .outOfFuel
  | n + 1 => fun doc imps st => liter res fs (lexpandFuel n) doc imps st

def resolve (root : κ) (rootFile : File ρ) : LRes κ ρ (List (DefId κ)) :=
  match lexpandFuel res fs (fs.length + 1) root rootFile.imports { visited := [], out := [] } with
  | .ok st => .ok st.out
  | .err e => .err e
  | .panic => .panic
  | .outOfFuel => .outOfFuel

end Legacy

end NitroVerif.Imports
