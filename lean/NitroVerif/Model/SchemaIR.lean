/-
`SchemaIR` — the shape of `graphql_type_system::Schema<Str, OriginalNode>` (crates/type-system): descriptions,
type definitions and directive definitions kept in first-insertion order with first-definition-wins lookup
(`SchemaBuilder::extend` = `entry().or_insert` + `type_names.push` on vacant entries), and the root-type
triple of `Option`s. Original nodes (positions) are NOT kept, except for the one bit of them the code branches
on: whether the root-types node is a built-in position (`explicitRoots = !root_types.original_node_ref().builtin`,
read by `check_operation`). Everything here is structurally recursive and kernel-evaluable. Core Lean only.
-/
namespace NitroVerif.SchemaIR

inductive IType where
  | named (n : String)
  | list (t : IType)
  | nonNull (t : IType)
  deriving Repr, Inhabited, DecidableEq

/-- `Type::unwrapped` -/
def IType.unwrapped : IType → String
  | .named n => n
  | .list t => t.unwrapped
  | .nonNull t => t.unwrapped

structure IInputValue where
  name : String
  desc : Option String := none
  ty : IType
  /-- text of the default value (`value.to_string()` on the SDL route, the `defaultValue` string on the JSON route) -/
  default : Option String := none
  deprecation : Option String := none
  deriving Repr, Inhabited, DecidableEq

structure IField where
  name : String
  desc : Option String := none
  ty : IType
  args : List IInputValue := []
  deprecation : Option String := none
  deriving Repr, Inhabited, DecidableEq

structure IEnumMember where
  name : String
  desc : Option String := none
  deprecation : Option String := none
  deriving Repr, Inhabited, DecidableEq

inductive IKind where
  | scalar | object | interface | union | enum | input
  deriving Repr, Inhabited, DecidableEq

/-- one structure for the six `TypeDefinition` variants; components a kind does not have are empty -/
structure ITypeDef where
  kind : IKind
  name : String
  desc : Option String := none
  fields : List IField := []
  interfaces : List String := []
  possible : List String := []
  members : List IEnumMember := []
  inputs : List IInputValue := []
  deriving Repr, Inhabited, DecidableEq

structure IDirectiveDef where
  name : String
  desc : Option String := none
  locations : List String := []
  args : List IInputValue := []
  repeatable : Bool := false
  deriving Repr, Inhabited, DecidableEq

inductive OpK where
  | query | mutation | subscription
  deriving Repr, Inhabited, DecidableEq

structure Roots where
  query : Option String := none
  mutation : Option String := none
  subscription : Option String := none
  deriving Repr, Inhabited, DecidableEq

def Roots.get (r : Roots) : OpK → Option String
  | .query => r.query
  | .mutation => r.mutation
  | .subscription => r.subscription

def Roots.set (r : Roots) (k : OpK) (n : String) : Roots :=
  match k with
  | .query => { r with query := some n }
  | .mutation => { r with mutation := some n }
  | .subscription => { r with subscription := some n }

structure Schema where
  desc : Option String := none
  /-- in `type_names` order; names are pairwise distinct when built with `extendTypes` -/
  types : List ITypeDef := []
  directives : List IDirectiveDef := []
  roots : Roots := {}
  /-- the root-types node carries a non-built-in position (= there was a parsed `schema { … }` definition) -/
  explicitRoots : Bool := false
  deriving Repr, Inhabited, DecidableEq

abbrev _root_.NitroVerif.SchemaIR.SchemaIR := Schema

/-- `SchemaBuilder::extend` for type definitions: a name that is already present keeps its first definition -/
def extendTypes (acc : List ITypeDef) : List ITypeDef → List ITypeDef
  | [] => acc
  | t :: rest => extendTypes (if acc.any (·.name == t.name) then acc else acc ++ [t]) rest

def extendDirectives (acc : List IDirectiveDef) : List IDirectiveDef → List IDirectiveDef
  | [] => acc
  | d :: rest => extendDirectives (if acc.any (·.name == d.name) then acc else acc ++ [d]) rest

namespace Schema

/-- `Schema::get_type` -/
def typeDef? (s : Schema) (n : String) : Option ITypeDef := s.types.find? (·.name == n)

/-- `Schema::get_directive` -/
def directiveDef? (s : Schema) (n : String) : Option IDirectiveDef := s.directives.find? (·.name == n)

def defaultRootName : OpK → String
  | .query => "Query" | .mutation => "Mutation" | .subscription => "Subscription"

/-- root types are declared (rather than left to the default names): the root-types node is a parsed
    `schema {…}` definition, or — since `fix: root operation types declared by an introspection result are
    explicit` — any of the three names is set (the introspection reader always sets `queryType`). -/
def rootsDeclared (s : Schema) : Bool :=
  s.explicitRoots || s.roots.query.isSome || s.roots.mutation.isSome || s.roots.subscription.isSome

/-- the name `check_operation` looks the root type up under; `none` = `NoRootType` -/
def rootName (s : Schema) (k : OpK) : Option String :=
  if s.rootsDeclared then s.roots.get k else some (defaultRootName k)

/-- `RootTypes::unwrap_or_default` (used by the operation type printer after a successful check) -/
def rootNameOrDefault (s : Schema) (k : OpK) : String := (s.roots.get k).getD (defaultRootName k)

def fieldsOf (s : Schema) (n : String) : List IField :=
  match s.typeDef? n with
  | some t => t.fields
  | none => []

/-- `interface_implementers` (crates/semantics): object types, in `iter_types` order, that list the interface -/
def objectImplementers (s : Schema) (iface : String) : List String :=
  (s.types.filter fun t => t.kind == .object && t.interfaces.contains iface).map (·.name)

/-- possible runtime object types of a composite type -/
def possibleTypes (s : Schema) (n : String) : List String :=
  match s.typeDef? n with
  | some t => match t.kind with
    | .object => [t.name]
    | .union => t.possible
    | .interface => s.objectImplementers n
    | _ => []
  | none => []

end Schema

/-! ### the equivalence `≃` of the property

Equal *modulo*: positions (not represented), default-value literal TEXT (presence is kept: it decides whether an
argument is required), descriptions and deprecation reasons (they only reach JSDoc comments), the `__*`
introspection types and the order of definitions (lookup by name is what the consumers use), the
nitrogql-only directive `@nitrogql_ts_type`, and the order of implementing object types of an interface
(it follows the order of definitions). It is defined through a *view*: the part of a schema a consumer can
observe through `typeDef?` / `fieldsOf` / `possibleTypes` / `rootName` / `directiveDef?` after erasure. -/

def eraseIV (v : IInputValue) : IInputValue :=
  { v with desc := none, default := v.default.map fun _ => "", deprecation := none }

def eraseField (f : IField) : IField :=
  { f with desc := none, args := f.args.map eraseIV, deprecation := none }

def eraseMember (m : IEnumMember) : IEnumMember := { m with desc := none, deprecation := none }

def eraseType (t : ITypeDef) : ITypeDef :=
  { t with desc := none, fields := t.fields.map eraseField, members := t.members.map eraseMember,
           inputs := t.inputs.map eraseIV }

def eraseDirective (d : IDirectiveDef) : IDirectiveDef := { d with desc := none, args := d.args.map eraseIV }

/-- the name starts with two underscores (written over `toList` so that the kernel can evaluate it) -/
def isIntrospectionName (n : String) : Bool := n.toList.take 2 == ['_', '_']

def isNitrogqlDirective (n : String) : Bool := n == "nitrogql_ts_type"

/-- what a consumer sees of a type name -/
def viewType (s : Schema) (n : String) : Option ITypeDef :=
  if isIntrospectionName n then none else (s.typeDef? n).map eraseType

def viewDirective (s : Schema) (n : String) : Option IDirectiveDef :=
  if isNitrogqlDirective n then none else (s.directiveDef? n).map eraseDirective

/-- the root type definition an operation of kind `k` is checked against (`none` = the operation is rejected:
    `NoRootType`, or `UnknownType` when the name has no definition) -/
def viewRoot (s : Schema) (k : OpK) : Option ITypeDef := (s.rootName k).bind (viewType s)

/-- is object type `o` among the implementers of interface `i`? -/
def implementsB (s : Schema) (i o : String) : Bool := (s.objectImplementers i).contains o

/-- `a ≃ b`: the two schemas answer every lookup alike after erasure (see the section comment) -/
structure Equiv (a b : Schema) : Prop where
  types : ∀ n, viewType a n = viewType b n
  directives : ∀ n, viewDirective a n = viewDirective b n
  roots : ∀ k, viewRoot a k = viewRoot b k
  implementers : ∀ i o, implementsB a i o = implementsB b i o

@[inherit_doc] scoped infix:50 " ≃ " => Equiv

/-! executable check of `≃` (used by the driver; `equivB_iff` in `Lemmas/Introspect.lean`): it is enough to look at
the names that occur in either schema. -/

def typeNames (s : Schema) : List String := s.types.map (·.name)
def directiveNames (s : Schema) : List String := s.directives.map (·.name)

def allOpK : List OpK := [.query, .mutation, .subscription]

/-- interface names that some type definition lists -/
def ifaceNames (s : Schema) : List String := s.types.flatMap (·.interfaces)

def equivB (a b : Schema) : Bool :=
  let tn := typeNames a ++ typeNames b
  let dn := directiveNames a ++ directiveNames b
  let ins := ifaceNames a ++ ifaceNames b
  tn.all (fun n => viewType a n == viewType b n) &&
  dn.all (fun n => viewDirective a n == viewDirective b n) &&
  allOpK.all (fun k => viewRoot a k == viewRoot b k) &&
  ins.all (fun i => tn.all fun o => implementsB a i o == implementsB b i o)

/-- first difference, for diagnostics (driver only) -/
def equivDiff (a b : Schema) : List String :=
  let tn := typeNames a ++ typeNames b
  let dn := directiveNames a ++ directiveNames b
  (tn.filter (fun n => !(viewType a n == viewType b n))).map ("type:" ++ ·) ++
  (dn.filter (fun n => !(viewDirective a n == viewDirective b n))).map ("directive:" ++ ·) ++
  (allOpK.filter (fun k => !(viewRoot a k == viewRoot b k))).map (fun k => "root:" ++ Schema.defaultRootName k) ++
  ((ifaceNames a ++ ifaceNames b).filter (fun i => !(tn.all fun o => implementsB a i o == implementsB b i o))).map
    ("implementers:" ++ ·)

end NitroVerif.SchemaIR
