/-
Model of the configuration side of the declaration printers:
  crates/config-file/src/scalar_type.rs   (ScalarTypeConfig, get_type, type_names)
  crates/config-file/src/type_target.rs   (TypeTarget, Display, is_input/is_output)
  crates/printer/src/schema.rs            (get_builtin_scalar_types)
  crates/printer/src/schema_type_printer/printer.rs  (SchemaTypePrinterOptions::from_config)
  crates/printer/src/schema_type_printer/context.rs  (get_scalar_types, get_bag_of_identifiers, make_local_type_names)

Configured TypeScript texts are strings exactly as in the Rust code. Their parse into `Ts.Ty` is NOT modelled
(there is no TypeScript parser in Lean): the harness supplies `Cfg.parses`, the table text ↦ `tsparse::parse_type`
result for every text in play; `Cfg.parseOf` looks a text up (an unknown text is an opaque `other "unparsed"`).
Core Lean only; structurally recursive.
-/
import NitroVerif.Gql.Schema
import NitroVerif.Ts.Syntax
namespace NitroVerif.DeclCfg
open NitroVerif.Gql

inductive Target where
  | operationInput | operationOutput | resolverInput | resolverOutput
  deriving DecidableEq, Repr, Inhabited

/-- order of `print_document`'s loop -/
def Target.all : List Target := [.operationInput, .operationOutput, .resolverInput, .resolverOutput]

/-- `TypeTarget::as_str` -/
def Target.name : Target → String
  | .operationInput => "__OperationInput"
  | .operationOutput => "__OperationOutput"
  | .resolverInput => "__ResolverInput"
  | .resolverOutput => "__ResolverOutput"

def Target.isOutput : Target → Bool
  | .operationOutput | .resolverOutput => true
  | _ => false
def Target.isInput (t : Target) : Bool := !t.isOutput

/-- `ScalarTypeConfig` -/
inductive ScalarCfg where
  | single (t : String)
  | sendReceive (send receive : String)
  | separate (resolverOutput resolverInput operationOutput operationInput : String)
  deriving DecidableEq, Repr, Inhabited

/-- `ScalarTypeConfig::get_type` -/
def ScalarCfg.getType : ScalarCfg → Target → String
  | .single t, _ => t
  | .sendReceive send _, .resolverOutput => send
  | .sendReceive _ receive, .resolverInput => receive
  | .sendReceive _ receive, .operationOutput => receive
  | .sendReceive send _, .operationInput => send
  | .separate ro _ _ _, .resolverOutput => ro
  | .separate _ ri _ _, .resolverInput => ri
  | .separate _ _ oo _, .operationOutput => oo
  | .separate _ _ _ oi, .operationInput => oi

/-- `ScalarTypeConfig::type_names` -/
def ScalarCfg.typeNames : ScalarCfg → List String
  | .single t => [t]
  | .sendReceive s r => [s, r]
  | .separate ro ri oo oi => [ro, ri, oo, oi]

structure Cfg where
  /-- `generate.type.scalarTypes` (a map: keys are distinct) -/
  scalars : List (Name × ScalarCfg) := []
  /-- `generate.type.allowUndefinedAsOptionalInput` (default true) -/
  optionalInput : Bool := true
  /-- `generate.emitSchemaRuntime` -/
  emitSchemaRuntime : Bool := false
  /-- parse table of the TypeScript texts in play (supplied by the harness' `tsparse::parse_type`) -/
  parses : List (String × Ts.Ty) := []
  deriving Repr, Inhabited

def Cfg.parseOf (c : Cfg) (text : String) : Ts.Ty :=
  match c.parses.find? (·.1 == text) with
  | some (_, t) => t
  | none => .other "unparsed" [text]

/-- `get_builtin_scalar_types` -/
def builtinScalars : List (Name × ScalarCfg) :=
  [("ID", .sendReceive "string | number" "string"),
   ("String", .single "string"),
   ("Int", .single "number"),
   ("Float", .single "number"),
   ("Boolean", .single "boolean")]

/-- parses of the built-in texts (so that a harness that forgets them still gets the right trees) -/
def builtinParses : List (String × Ts.Ty) :=
  [("string | number", .union [.prim "string", .prim "number"]),
   ("string", .prim "string"), ("number", .prim "number"), ("boolean", .prim "boolean")]

/-- `SchemaTypePrinterOptions::from_config(..).scalar_types.get(name)`: the config entry overrides the built-in -/
def Cfg.optionScalar? (c : Cfg) (n : Name) : Option ScalarCfg :=
  match c.scalars.find? (·.1 == n) with
  | some (_, s) => some s
  | none => match builtinScalars.find? (·.1 == n) with
    | some (_, s) => some s
    | none => none

def argString? (args : List Arg) (key : Name) : Option (Option String) :=
  -- the LAST argument with that key wins (the loop overwrites); `some none` = present but not a string
  args.foldl (fun acc (k, _, v) =>
    if k == key then some (match v with | .str s _ => some s | _ => none) else acc) none

/-- the `@nitrogql_ts_type` directive of a scalar definition as a `Separate` config (all four must be strings) -/
def directiveScalar? (t : TypeDef) : Option ScalarCfg :=
  match t.dirs.find? (·.name == "nitrogql_ts_type") with
  | none => none
  | some d =>
    match argString? d.args "resolverInput", argString? d.args "resolverOutput",
          argString? d.args "operationInput", argString? d.args "operationOutput" with
    | some (some ri), some (some ro), some (some oi), some (some oo) => some (.separate ro ri oo oi)
    | _, _, _, _ => none

/-- `get_scalar_types`: for every scalar DEFINITION of the document, config (or built-in) first, directive second.
    (The Rust value is a HashMap collected from the definitions: a later definition of the same name would win;
    names are distinct in a checked schema.) -/
def scalarTypes (c : Cfg) (doc : TsDoc) : List (Name × ScalarCfg) :=
  doc.filterMap fun
    | .typeDef t =>
      if t.kind == .scalar then
        match (c.optionScalar? t.name).orElse (fun _ => directiveScalar? t) with
        | some s => some (t.name, s)
        | none => none
      else none
    | _ => none

def scalarType? (c : Cfg) (doc : TsDoc) (n : Name) : Option ScalarCfg :=
  match (scalarTypes c doc).find? (·.1 == n) with
  | some (_, s) => some s
  | none => none

/-! ### get_bag_of_identifiers -/

def isIdentStart (ch : Char) : Bool := ch.isAlpha || ch == '_'
def isIdentChar (ch : Char) : Bool := ch.isAlphanum || ch == '_'

/-- scan a text for maximal identifier-like runs (`[A-Za-z_][A-Za-z0-9_]*`), as the Rust loop does;
    `cur = some acc` while inside an identifier (acc reversed) -/
def identsAux : List Char → Option (List Char) → List String → List String
  | [], none, out => out
  | [], some acc, out => out ++ [String.ofList acc.reverse]
  | ch :: rest, none, out =>
    if isIdentStart ch then identsAux rest (some [ch]) out else identsAux rest none out
  | ch :: rest, some acc, out =>
    if isIdentChar ch then identsAux rest (some (ch :: acc)) out
    else identsAux rest none (out ++ [String.ofList acc.reverse])

def identifiers (text : String) : List String := identsAux text.toList none []

/-- `get_bag_of_identifiers` (a set: only membership is observed) -/
def bag (sts : List (Name × ScalarCfg)) : List String :=
  sts.flatMap fun (_, s) => s.typeNames.flatMap identifiers

/-- `make_local_type_names(..).get(name)` for a type defined in the document -/
def localName (bagIds : List String) (schemaName : Name) : String :=
  if bagIds.contains schemaName then "__tmp_" ++ schemaName else schemaName

/-- does the identifier start with the renaming prefix `__tmp_`? -/
def hasTmpPrefix (s : String) : Bool := "__tmp_".toList.isPrefixOf s.toList

end NitroVerif.DeclCfg
