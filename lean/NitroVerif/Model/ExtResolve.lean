/-
Model of crates/semantics/src/schema_extension_resolver/{mod.rs, extension_list.rs}
(`resolve_schema_extensions`) over the shared vocabulary `Gql.TsDoc`.

  * `ExtItem` / `ExtList`  = `ExtensionItem` / `ExtensionList` (an `IndexMap<Option<String>, ExtensionItem>`:
    an association list in insertion order; `entry(k).or_default()` appends a new entry at the end)
  * `setOriginal`, `addExtension`, `intoPairs` + `sortByPos` = `set_original`, `add_extension`,
    `into_original_and_extensions` (`filter_map` + `collect::<Result<Vec,_>>` = first error in map order, then
    `sort_by_key(position)`: a STABLE sort whose key order is `Pos::cmp` = (line, column) only)
  * `St`, `step`, `scan` = the seven registries + `directive_list` and the `for def in document.definitions` loop
    (the six type registries all hold `TypeDef`s in this vocabulary, so they are one field indexed by `TypeKind`)
  * `mergeSchema` … `mergeInput` = `merge_schema_definition` … `merge_input_object_definition`: each appends exactly the
    components the Rust function chains (components a kind does not have do not exist in the Rust AST; here they
    are left as the original's)
  * `resolve` = the whole function: scan, then the seven `into_original_and_extensions()?` in the order
    schema, scalar, object, interface, union, enum, input object, then the `chain` of the eight lists.

Files are concatenated before resolution (`TypeSystemOrExtensionDocument::merge` = flat_map of the definitions), so a
document here is the concatenation; `Pos.file` rides along and takes no part in the ordering.
Core Lean only; everything is structurally recursive.
-/
import NitroVerif.Gql.Ast
namespace NitroVerif.ExtResolve
open NitroVerif.Gql

/-- `ExtensionItem` together with its key in the `IndexMap` -/
structure ExtItem (K O E : Type) where
  key : K
  original : Option O
  extensions : List E

/-- `ExtensionList.items`: insertion-ordered map -/
abbrev ExtList (K O E : Type) := List (ExtItem K O E)

section generic
variable {K O E : Type} [DecidableEq K]

/-- `set_original`: `items.entry(name).or_default()`, then fail if the entry already has an original
    (the error carries that first original), else store it -/
def setOriginal : ExtList K O E → K → O → Except O (ExtList K O E)
  | [], k, o => .ok [⟨k, some o, []⟩]
  | it :: r, k, o =>
    if it.key = k then
      match it.original with
      | some first => .error first
      | none => .ok ({ it with original := some o } :: r)
    else
      match setOriginal r k o with
      | .ok r' => .ok (it :: r')
      | .error first => .error first

/-- `add_extension`: `items.entry(name).or_default().extensions.push(extension)` -/
def addExtension : ExtList K O E → K → E → ExtList K O E
  | [], k, e => [⟨k, none, [e]⟩]
  | it :: r, k, e =>
    if it.key = k then { it with extensions := it.extensions ++ [e] } :: r
    else it :: addExtension r k e

/-- the `filter_map(..).collect::<Result<Vec<_>, _>>()` of `into_original_and_extensions`: entries in map order;
    an entry without original and without extensions is skipped, one without original but with extensions is an
    error carrying its first extension; the first error wins -/
def intoPairs : ExtList K O E → Except E (List (O × List E))
  | [] => .ok []
  | it :: r =>
    match it.original with
    | none =>
      match it.extensions with
      | [] => intoPairs r
      | e :: _ => .error e
    | some o =>
      match intoPairs r with
      | .ok ps => .ok ((o, it.extensions) :: ps)
      | .error e => .error e

end generic

/-- insertion into a list sorted by `Pos::cmp` of the key, BEFORE the first element that is not smaller:
    with `sortByPos` processing from the right this is a stable sort -/
def insertByPos {α : Type} (posOf : α → Pos) (x : α) : List α → List α
  | [] => [x]
  | y :: ys => if (posOf x).le (posOf y) then x :: y :: ys else y :: insertByPos posOf x ys

/-- `result.sort_by_key(|(orig, _)| *orig.position())` — stable, compares (line, column) only -/
def sortByPos {α : Type} (posOf : α → Pos) : List α → List α
  | [] => []
  | x :: xs => insertByPos posOf x (sortByPos posOf xs)

/-- `ExtensionErrorMessage` -/
inductive ExtError where
  | duplicateOriginal (elem : String) (name : String) (first second : Pos)
  | noOriginal (elem : String) (firstExtension : Pos)
  deriving Repr, DecidableEq

/-- primary position of the diagnostic (`impl From<ExtensionError> for PositionedError`) -/
def ExtError.position : ExtError → Pos
  | .duplicateOriginal _ _ first _ => first
  | .noOriginal _ p => p

/-- positions of the additional-info notes of the diagnostic -/
def ExtError.additional : ExtError → List Pos
  | .duplicateOriginal _ _ _ second => [second]
  | .noOriginal _ _ => []

/-- the `name_of_elem` strings passed to `ExtensionList::new` -/
def elemName : TypeKind → String
  | .scalar => "scalar" | .object => "type" | .interface => "interface"
  | .union => "union" | .enum => "enum" | .input => "input object"

/-- key of the registries: `HasPos::name()` (`None` for schema definitions/extensions) -/
abbrev Key := Option Name

/-- the seven `ExtensionList`s and `directive_list` -/
structure St where
  schema : ExtList Key SchemaDef SchemaDef := []
  types : TypeKind → ExtList Key TypeDef TypeDef := fun _ => []
  directives : List DirectiveDef := []

/-- one iteration of `for def in document.definitions` -/
def step (st : St) : TsItem → Except ExtError St
  | .schemaDef s =>
    match setOriginal st.schema none s with
    | .ok l => .ok { st with schema := l }
    | .error first => .error (.duplicateOriginal "schema" "" first.pos s.pos)
  | .typeDef t =>
    match setOriginal (st.types t.kind) (some t.name) t with
    | .ok l => .ok { st with types := fun k => if k = t.kind then l else st.types k }
    | .error first => .error (.duplicateOriginal (elemName t.kind) t.name first.pos t.pos)
  | .directiveDef d => .ok { st with directives := st.directives ++ [d] }
  | .schemaExt s => .ok { st with schema := addExtension st.schema none s }
  | .typeExt t =>
    .ok { st with types := fun k => if k = t.kind then addExtension (st.types t.kind) (some t.name) t else st.types k }

def scan (st : St) : TsDoc → Except ExtError St
  | [] => .ok st
  | it :: r =>
    match step st it with
    | .ok st' => scan st' r
    | .error e => .error e

/-- `into_original_and_extensions` for one registry -/
def finishList {O E : Type} (elem : String) (posO : O → Pos) (posE : E → Pos) (l : ExtList Key O E) :
    Except ExtError (List (O × List E)) :=
  match intoPairs l with
  | .error first => .error (.noOriginal elem (posE first))
  | .ok ps => .ok (sortByPos (fun p => posO p.1) ps)

/-! ### merge functions (component-wise append, exactly the `chain`s of the Rust functions) -/

def mergeSchema (p : SchemaDef × List SchemaDef) : SchemaDef :=
  { p.1 with dirs := p.1.dirs ++ p.2.flatMap (·.dirs), roots := p.1.roots ++ p.2.flatMap (·.roots) }

def mergeScalar (p : TypeDef × List TypeDef) : TypeDef :=
  { p.1 with dirs := p.1.dirs ++ p.2.flatMap (·.dirs) }

def mergeObject (p : TypeDef × List TypeDef) : TypeDef :=
  { p.1 with
    implements := p.1.implements ++ p.2.flatMap (·.implements),
    fields := p.1.fields ++ p.2.flatMap (·.fields),
    dirs := p.1.dirs ++ p.2.flatMap (·.dirs) }

def mergeInterface (p : TypeDef × List TypeDef) : TypeDef :=
  { p.1 with
    implements := p.1.implements ++ p.2.flatMap (·.implements),
    fields := p.1.fields ++ p.2.flatMap (·.fields),
    dirs := p.1.dirs ++ p.2.flatMap (·.dirs) }

def mergeUnion (p : TypeDef × List TypeDef) : TypeDef :=
  { p.1 with
    members := p.1.members ++ p.2.flatMap (·.members),
    dirs := p.1.dirs ++ p.2.flatMap (·.dirs) }

def mergeEnum (p : TypeDef × List TypeDef) : TypeDef :=
  { p.1 with
    values := p.1.values ++ p.2.flatMap (·.values),
    dirs := p.1.dirs ++ p.2.flatMap (·.dirs) }

def mergeInput (p : TypeDef × List TypeDef) : TypeDef :=
  { p.1 with
    inputs := p.1.inputs ++ p.2.flatMap (·.inputs),
    dirs := p.1.dirs ++ p.2.flatMap (·.dirs) }

def mergeOf : TypeKind → TypeDef × List TypeDef → TypeDef
  | .scalar => mergeScalar | .object => mergeObject | .interface => mergeInterface
  | .union => mergeUnion | .enum => mergeEnum | .input => mergeInput

/-- `<kind>_list.into_original_and_extensions()?.into_iter().map(merge_…).map(TypeSystemDefinition::…)` -/
def typeItems (st : St) (k : TypeKind) : Except ExtError (List TsItem) :=
  match finishList (elemName k) (·.pos) (·.pos) (st.types k) with
  | .error e => .error e
  | .ok ps => .ok (ps.map fun p => .typeDef (mergeOf k p))

def schemaItems (st : St) : Except ExtError (List TsItem) :=
  match finishList "schema" (·.pos) (·.pos) st.schema with
  | .error e => .error e
  | .ok ps => .ok (ps.map fun p => .schemaDef (mergeSchema p))

/-- the order of the `?`s and of the final `chain` after the schema definitions -/
def kindOrder : List TypeKind := [.scalar, .object, .interface, .union, .enum, .input]

/-- the type registries finished one after the other (first error wins), results chained -/
def typeItemsAll (st : St) : List TypeKind → Except ExtError (List TsItem)
  | [] => .ok []
  | k :: ks =>
    match typeItems st k with
    | .error e => .error e
    | .ok xs =>
      match typeItemsAll st ks with
      | .error e => .error e
      | .ok ys => .ok (xs ++ ys)

/-- `resolve_schema_extensions` -/
def resolve (doc : TsDoc) : Except ExtError TsDoc :=
  match scan {} doc with
  | .error e => .error e
  | .ok st =>
    match schemaItems st with
    | .error e => .error e
    | .ok ss =>
      match typeItemsAll st kindOrder with
      | .error e => .error e
      | .ok ts => .ok (st.directives.map .directiveDef ++ ss ++ ts)

end NitroVerif.ExtResolve
