/-
Model of `crates/checker/src/common.rs` — the part of the checker shared by the operation checker and the
type-system checker: `check_directives`, `check_arguments`, `check_value`, `is_value_compatible_type_def`,
`check_type_compatibility`, `get_variable_definition` (and `types.rs inout_kind_of_type`).

A diagnostic is `(ErrKind, Pos)`: the variant name of `CheckErrorMessage` and the *main* position of the
`CheckError` (additional infos are not modelled). Diagnostics are produced in the order the code pushes them.

Positions the shared AST does not carry: `Arguments.position` (the "(" token). `ArgumentsNotNeeded` and
`RequiredArgumentNotSpecified` are therefore reported at the *owner* of the argument list (`parent_pos`: the
field name / the directive's `@`), which is what the code itself uses when there is no argument list; the
harness maps the real "(" position back to its owner before comparing.

`variables = none` is the code's `None` (no variable definitions in scope: every variable use is
`UnknownVariable`); `some []` behaves identically.

Self-contained (imports only the shared vocabulary and the generated `ErrKind`); every function is
structurally recursive (kernel-evaluable). Core Lean only.
-/
import NitroVerif.Gql.Schema
import NitroVerif.Gen.ErrKinds
import NitroVerif.Model.IntLit
namespace NitroVerif.CheckCommon
open NitroVerif.Gql NitroVerif.IntLit

abbrev Diag := ErrKind × Pos

/-- `Type::position()` of the AST: a named type's name, a list type's "[", a non-null type's inner position -/
def typePos : GType → Pos
  | .named _ p => p
  | .list _ p => p
  | .nonNull t => typePos t

/-- strip the outer non-null markers (`check_value` recurses through `Type::NonNull`) -/
def stripNonNull : GType → GType
  | .nonNull t => stripNonNull t
  | t => t

/-- `check_type_compatibility(value_type, expected_type)` (arguments in the code's order) -/
def typeCompat : GType → GType → Bool
  | .nonNull v, .nonNull e => typeCompat v e
  | .nonNull v, e => typeCompat v e
  | .named _ _, .nonNull _ => false
  | .list _ _, .nonNull _ => false
  | .list v _, .list e _ => typeCompat v e
  | .named _ _, .list _ _ => false
  | .list _ _, .named _ _ => false
  | .named v _, .named e _ => e == v

/-- `get_variable_definition` -/
def varDef? (vars : List VarDef) (n : Name) : Option VarDef := vars.find? (·.name == n)

def Value.isNull : Value → Bool
  | .null _ => true
  | _ => false

/-- the built-in scalar names `is_value_compatible_type_def` singles out -/
def isBuiltinScalarName (n : Name) : Bool :=
  n == "Boolean" || n == "Int" || n == "Float" || n == "String" || n == "ID"

/-- `is_value_compatible_type_def` for a scalar definition. Since fix e3584a3 the `"Int"` arm accepts an `IntValue`
    only when `int.value.parse::<i32>().is_ok()` (`Model/IntLit.lean`); `Float` and `ID` take integers of any size -/
def scalarAccepts (n : Name) (v : Value) : Bool :=
  if n == "Boolean" then (match v with | .bool .. => true | .null _ => true | _ => false)
  else if n == "Int" then (match v with | .int s _ => intLiteralFitsI32 s | .null _ => true | _ => false)
  else if n == "Float" then (match v with | .float .. => true | .int .. => true | .null _ => true | _ => false)
  else if n == "String" then (match v with | .str .. => true | .null _ => true | _ => false)
  else if n == "ID" then (match v with | .str .. => true | .int .. => true | .null _ => true | _ => false)
  else true

/-- `is_value_compatible_type_def` for every case that does not recurse (everything except an object
    literal against an input-object type): pushed diagnostics and the `is_compatible` flag -/
def leafCompat (v : Value) (td : TypeDef) : List Diag × Bool :=
  match td.kind with
  | .scalar => ([], scalarAccepts td.name v)
  | .object | .interface | .union => ([], false)
  | .enum =>
    match v with
    | .null _ => ([], true)
    | .enum m p => (if td.values.all (·.name != m) then [(ErrKind.UnknownEnumMember, p)] else [], true)
    | _ => ([], false)
  | .input =>
    match v with
    | .null _ => ([], true)
    | _ => ([], false)

/-- result of `check_value` on a value that is not a variable, a list or an object literal, or on any value
    against a named type where no recursion is needed -/
def namedLeaf (S : Schema) (v : Value) (n : Name) (np : Pos) : List Diag :=
  match S.typeDef? n with
  | none => [(ErrKind.TypeSystemError, np)]
  | some td =>
    let r := leafCompat v td
    r.1 ++ (if r.2 then [] else [(ErrKind.TypeMismatch, v.pos)])

def hasNonNullDefault (d : VarDef) : Bool :=
  match d.default with
  | some v => !Value.isNull v
  | none => false

/-- the variable case of `check_value_at` (spec `IsVariableUsageAllowed`): `ld` = the location (argument or
    input field) has a default value -/
def varCheck (vars : Option (List VarDef)) (n : Name) (p : Pos) (t : GType) (ld : Bool) : List Diag :=
  match varDef? (vars.getD []) n with
  | none => [(ErrKind.UnknownVariable, p)]
  | some d =>
    let ok := match t with
      | .nonNull inner =>
        if !d.ty.isNonNull then (hasNonNullDefault d || ld) && typeCompat d.ty inner else typeCompat d.ty t
      | _ => typeCompat d.ty t
    if ok then [] else [(ErrKind.TypeMismatch, p)]

/-- the named type under all list and non-null markers, with the position of its name -/
def baseNamed : GType → Name × Pos
  | .named n p => (n, p)
  | .list t _ => baseNamed t
  | .nonNull t => baseNamed t

/-- per expected input field: diagnostics of the nested `check_value`, whether the field keeps `res` true,
    whether it was counted in `seen_fields` -/
structure FieldOutcome where
  diags : List Diag
  ok : Bool
  seen : Bool

/-- one iteration of the input-object loop of `is_value_compatible_type_def`; `r` = the nested check of the
    value field with the expected field's name, if the literal has one -/
def fieldOutcome (r : Option (List Diag)) (f : InputValueDef) : FieldOutcome :=
  match r with
  | some ds => FieldOutcome.mk ds true true
  | none =>
    if f.ty.isNonNull && f.default.isNone then FieldOutcome.mk [] false false
    else FieldOutcome.mk [] true false

/-- the result of the input-object case: nested diagnostics, then `TypeMismatch` unless every expected field is
    fine and `seen_fields` accounts for every field of the literal (`nFields`) -/
def objResult (outcomes : List FieldOutcome) (nFields : Nat) (p : Pos) : List Diag :=
  let seen := (outcomes.filter (·.seen)).length
  let res := outcomes.all (·.ok) && !(seen < nFields)
  outcomes.flatMap (·.diags) ++ (if res then [] else [(ErrKind.TypeMismatch, p)])

mutual
/-- `check_value_at(definitions, variables, value, expected_type, location_has_default, result)`.
    A value that is neither a variable, `null` nor a list is, through the `Type::NonNull` and `Type::List`
    arms (a single value is accepted for a list type and checked against the item type), finally checked
    against the innermost named type `baseNamed t`. -/
def checkValue (S : Schema) (vars : Option (List VarDef)) : Value → GType → Bool → List Diag
  | .var n p, t, ld => varCheck vars n p t ld
  | .list vs p, t, _ =>
    match stripNonNull t with
    | .list inner _ => checkValueList S vars vs inner
    | .named n np => namedLeaf S (.list vs p) n np
    | .nonNull _ => []
  | .obj fs p, t, _ =>
    match S.typeDef? (baseNamed t).1 with
    | none => [(ErrKind.TypeSystemError, (baseNamed t).2)]
    | some td =>
      if td.kind == .input then
        objResult (td.inputs.map fun f => fieldOutcome (lookupField S vars fs f.name f.ty f.default.isSome) f)
          fs.length p
      else
        let r := leafCompat (.obj fs p) td
        r.1 ++ (if r.2 then [] else [(ErrKind.TypeMismatch, p)])
  | v, t, _ =>
    if Value.isNull v then
      (if t.isNonNull then [(ErrKind.TypeMismatch, v.pos)]
       else match stripNonNull t with
         | .list _ _ => []
         | .named n np => namedLeaf S v n np
         | .nonNull _ => [])
    else namedLeaf S v (baseNamed t).1 (baseNamed t).2
/-- the loop over the elements of a list literal -/
def checkValueList (S : Schema) (vars : Option (List VarDef)) : List Value → GType → List Diag
  | [], _ => []
  | v :: vs, t => checkValue S vars v t false ++ checkValueList S vars vs t
/-- `value.fields.iter().find(|(key, _)| expected_field.name == key.name)` followed by the nested `check_value_at` -/
def lookupField (S : Schema) (vars : Option (List VarDef)) : List (Name × Pos × Value) → Name → GType → Bool → Option (List Diag)
  | [], _, _, _ => none
  | (k, _, v) :: rest, n, t, ld => if n == k then some (checkValue S vars v t ld) else lookupField S vars rest n t ld
end

/-- the uniqueness loop of `check_arguments`: an argument whose name already occurred among the earlier ones -/
def dupArgsAux : List Name → List Arg → List Diag
  | _, [] => []
  | seen, a :: as =>
    (if seen.contains a.1 then [(ErrKind.DuplicatedName, a.2.1)] else []) ++ dupArgsAux (seen ++ [a.1]) as

/-- the per-definition loop of `check_arguments`: for each argument definition the diagnostics it produces and
    whether it was counted in `seen_args` -/
def argOutcomes (S : Schema) (vars : Option (List VarDef)) (parentPos : Pos) (args : List Arg)
    (defs : List InputValueDef) : List (List Diag × Bool) :=
  defs.map fun d =>
    match args.find? (fun a => d.name == a.1) with
    | none =>
      if !d.ty.isNonNull || d.default.isSome then ([], false)
      else ([(ErrKind.RequiredArgumentNotSpecified, parentPos)], false)
    | some a => (checkValue S vars a.2.2 d.ty d.default.isSome, true)

/-- `check_arguments(definitions, variables, parent_pos, …, arguments, arguments_definition, result)`;
    `args = []` is the code's `None` (the grammar has no empty argument list) -/
def checkArguments (S : Schema) (vars : Option (List VarDef)) (parentPos : Pos) (args : List Arg)
    (defs : List InputValueDef) : List Diag :=
  if defs.isEmpty then
    (if args.isEmpty then [] else [(ErrKind.ArgumentsNotNeeded, parentPos)])
  else
    let perDef := argOutcomes S vars parentPos args defs
    let seen := (perDef.filter (·.2)).length
    dupArgsAux [] args ++ perDef.flatMap (·.1) ++
      (if seen < args.length then
        (args.filter fun a => defs.all (fun d => d.name != a.1)).map fun a => (ErrKind.UnknownArgument, a.2.1)
       else [])

/-- the loop of `check_directives` with its `seen_directives` accumulator -/
def checkDirectivesAux (S : Schema) (vars : Option (List VarDef)) (loc : String) : List Name → List Directive → List Diag
  | _, [] => []
  | seen, d :: ds =>
    match S.directiveDef? d.name with
    | none => (ErrKind.UnknownDirective, d.namePos) :: checkDirectivesAux S vars loc seen ds
    | some dd =>
      (if dd.locations.all (· != loc) then [(ErrKind.DirectiveLocationNotAllowed, d.pos)] else []) ++
      (if seen.contains d.name then (if dd.repeatable then [] else [(ErrKind.RepeatedDirective, d.pos)]) else []) ++
      checkArguments S vars d.pos d.args dd.args ++
      checkDirectivesAux S vars loc (if seen.contains d.name then seen else seen ++ [d.name]) ds

/-- `check_directives(definitions, variables, directives, current_position, result)` -/
def checkDirectives (S : Schema) (vars : Option (List VarDef)) (dirs : List Directive) (loc : String) : List Diag :=
  checkDirectivesAux S vars loc [] dirs

/-- `inout_kind_of_type(..).map(is_input_type)`: `none` = unknown type -/
def isInputType? (S : Schema) (n : Name) : Option Bool :=
  (S.kindOf? n).map Schema.isInputKind

end NitroVerif.CheckCommon
