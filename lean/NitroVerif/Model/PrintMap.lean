/-
Model of the printers' CALL SITES on the `SourceMapWriter` trait (C06): which writer operation each printer performs,
with which text and — for `write_for` — with which node (position and name, what `HasPos` gives).

  crates/sourcemap-writer/src/writer.rs                    the trait: write / write_for / indent / dedent (write_fmt = write)  → `POp`
  crates/printer/src/ts_types/mod.rs                       `TSType` WITH the positions its nodes carry (`TypeVariable`, `ObjectKey`),
                                                           `print_type`, `into_readonly`                                  → `TSTy`, `printTy`, `intoReadonly`
  crates/printer/src/ts_types/type_to_ts_type.rs           `get_ts_type_of_type`                                          → `tsOfType`
  crates/printer/src/ts_types/ts_types_util.rs             `ts_union`                                                     → `tsUnion`
  crates/printer/src/jsdoc.rs                              `print_description` (text side: `Model/JsDoc.lean`)            → `descOps`
  crates/printer/src/schema_type_printer/{printer,type_printer}.rs   the WHOLE operation sequence of `print_document`     → `schemaOps`
  crates/printer/src/resolver_type_printer/{printer,visitor}.rs      the WHOLE operation sequence (no plugins)            → `resolverOps`
  crates/printer/src/operation_base_printer/mod.rs + operation_type_printer/visitor.rs
                                                           the `write_for` calls with a non-builtin position, in order    → `opTypeSites`
  crates/printer/src/operation_js_printer/visitor.rs       the same for the JavaScript module                             → `opJsSites`

`opTypeSites` / `opJsSites` (wave 3) are the PROJECTION of the two operation printers' sequences onto the mapped calls: every
other `write_for` of these printers passes a node whose position is `Pos::builtin()` (object keys built from strings), which
`SourceWriter::write_for` treats as `write`.  Second stage (section "the WHOLE call sequence" at the end of this file):
`opTypeOps` / `opJsOps` are EVERY call of `print_types_for_operation_document` / `print_js_for_operation_document`, in order;
the selection trees come from `Model/OpTypes.lean` (`resultTree`), the runtime documents from `Model/FragClosure.lean` +
`Model/DocJson.lean`, and this file adds the printing layer (`treeTy`, `varsTy`, `jsonText`, statements, exports).
The position of an operation's selection set is not part of the shared AST (`Gql/Ast.lean`): it is an extra input (`selPos`,
one per operation, in document order).

Configuration (`DeclCfg.Cfg`), scalar table, identifier bag and local names are those of `Model/DeclCfg.lean`; the context is
`SchemaDecls.Ctx`. Deviation (as in `Model/SchemaDecls.lean`): where the Rust code would panic with "Local type name not
generated" (a reference to a type the document does not define) the model uses `localName` of the name.
Core Lean only; structurally recursive.
-/
import NitroVerif.Model.SchemaDecls
import NitroVerif.Model.SourceMap
import NitroVerif.Model.OpTypes
import NitroVerif.Model.DocJson
import NitroVerif.Model.FragClosure
namespace NitroVerif.PrintMap
open NitroVerif.Gql NitroVerif.DeclCfg

/-- `Pos::builtin()` -/
def bi : Pos := { builtin := true }

/-- one call on the `SourceMapWriter` trait. `writeFor text pos name`: `pos = node.position()`, `name = node.name()` -/
inductive POp where
  | write (text : String)
  | writeFor (text : String) (pos : Pos) (name : Option String)
  | indent
  | dedent
  deriving Repr, DecidableEq, Inhabited

/-- the same call on the model of `SourceWriter` (`Model/SourceMap.lean`, texts as `List Char`) -/
def POp.toOp : POp → SourceMap.Op
  | .write t => .write t.toList
  | .writeFor t p n => .writeFor t.toList ⟨p.line, p.col, p.file, p.builtin, n.map String.toList⟩
  | .indent => .indent
  | .dedent => .dedent

/-- is this a `write_for` that `SourceWriter` maps (position not built in)? -/
def POp.mapped : POp → Bool
  | .writeFor _ p _ => !p.builtin
  | _ => false

/-- the projection of an operation sequence onto the mapped calls -/
def mappedOps (ops : List POp) : List POp := ops.filter POp.mapped

/-! ## ts_types/mod.rs -/

mutual
/-- `TSType`; `var` = `TypeVariable { name, pos }` -/
inductive TSTy where
  | var (name : String) (pos : Pos)
  | func (f : TSTy) (args : List TSTy)
  | strLit (s : String)
  | ns2 (a b : String)
  | ns3 (a b c : String)
  | obj (fields : List TSField)
  | arr (t : TSTy)
  | roArr (t : TSTy)
  | union (ts : List TSTy)
  | inter (ts : List TSTy)
  | undefined
  | null
  | never
  | unknown
  | raw (s : String)
/-- `ObjectField`; `key`/`keyPos` = `ObjectKey { name, pos }` -/
inductive TSField where
  | mk (key : String) (keyPos : Pos) (ty : TSTy) (readonly optional : Bool) (desc : Option String)
end

instance : Inhabited TSTy := ⟨.never⟩

/-- `jsdoc::print_description` -/
def descOps (d : String) : List POp :=
  [.write "/**\n"] ++ (JsDoc.docLines d).flatMap (fun l => [.write " * ", .write l, .write "\n"]) ++ [.write " */\n"]

def optDescOps : Option String → List POp
  | some d => descOps d
  | none => []

mutual
/-- `TSType::print_type` -/
def printTy : TSTy → List POp
  | .var n p => [.writeFor n p (some n)]
  | .func f args => printTy f ++ [.write "<"] ++ printSep ", " args true ++ [.write ">"]
  | .strLit s => [.write "\"", .write s, .write "\""]
  | .ns2 a b => [.write (a ++ "." ++ b)]
  | .ns3 a b c => [.write (a ++ "." ++ b ++ "." ++ c)]
  | .obj fs =>
    if fs.isEmpty then [.write "{}"]
    else [.write "{\n", .indent] ++ printFields fs ++ [.dedent, .write "}"]
  | .arr t => [.write "("] ++ printTy t ++ [.write ")[]"]
  | .roArr t => [.write "readonly ("] ++ printTy t ++ [.write ")[]"]
  | .inter ts => if ts.isEmpty then [.write "unknown"] else printSep " & " ts true
  | .union ts => if ts.isEmpty then [.write "never"] else printSep " | " ts true
  | .null => [.write "null"]
  | .undefined => [.write "undefined"]
  | .never => [.write "never"]
  | .unknown => [.write "unknown"]
  | .raw s => [.write "(", .write s, .write ")"]
/-- the `for (idx, ty) in types.iter().enumerate()` loops: the separator is written before every element but the first -/
def printSep (sep : String) : List TSTy → Bool → List POp
  | [], _ => []
  | t :: ts, first => (if first then [] else [.write sep]) ++ printTy t ++ printSep sep ts false
/-- the `for field in properties` loop of an object type -/
def printFields : List TSField → List POp
  | [] => []
  | .mk key kp ty ro opt desc :: rest =>
    optDescOps desc
    ++ (if ro then [.write "readonly "] else [])
    ++ (if SchemaDecls.isRawIdent key then [.writeFor key kp (some key)]
        else [.write "\"", .write key, .write "\""])
    ++ (if opt then [.write "?"] else [])
    ++ [.write ": "] ++ printTy ty ++ [.write ";\n"]
    ++ printFields rest
end

mutual
/-- `TSType::into_readonly` -/
def intoReadonly : TSTy → TSTy
  | .func f args => .func f (intoReadonlyList args)
  | .arr t => .roArr (intoReadonly t)
  | .roArr t => .roArr (intoReadonly t)
  | .obj fs => .obj (fieldsReadonly fs)
  | .inter ts => .inter (intoReadonlyList ts)
  | .union ts => .union (intoReadonlyList ts)
  | t => t
def intoReadonlyList : List TSTy → List TSTy
  | [] => []
  | t :: ts => intoReadonly t :: intoReadonlyList ts
/-- only the `readonly` flag of the fields changes; the field types are not entered -/
def fieldsReadonly : List TSField → List TSField
  | [] => []
  | .mk k kp ty _ opt d :: rest => .mk k kp ty true opt d :: fieldsReadonly rest
end

/-- `ts_union` -/
def tsUnion : List TSTy → TSTy
  | [] => .never
  | [t] => t
  | ts => .union ts

/-- `get_ts_type_of_type_impl` (type, nullable) -/
def tsOfTypeImpl (leaf : Name → Pos → TSTy) : GType → TSTy × Bool
  | .named n p => (leaf n p, true)
  | .list t _ =>
    let (i, nullable) := tsOfTypeImpl leaf t
    (.arr (if nullable then .union [i, .null] else i), true)
  | .nonNull t => ((tsOfTypeImpl leaf t).1, false)

/-- `get_ts_type_of_type` -/
def tsOfType (leaf : Name → Pos → TSTy) (t : GType) : TSTy :=
  let (i, nullable) := tsOfTypeImpl leaf t
  if nullable then .union [i, .null] else i

/-- `TSType::object(..)`: non-readonly, non-optional properties -/
def plainField (key : String) (kp : Pos) (ty : TSTy) (desc : Option String) : TSField :=
  .mk key kp ty false false desc

/-! ## schema_type_printer -/

/-- the keyword token of a type definition (`scalar_keyword.name`, `type_keyword.name`, …) -/
def keywordOf : TypeKind → String
  | .scalar => "scalar" | .object => "type" | .interface => "interface"
  | .union => "union" | .enum => "enum" | .input => "input"

/-- `export_type` -/
def exportTypeOps (td : TypeDef) (localName : String) (body : List POp) : List POp :=
  if td.name == localName then
    [.writeFor "export type " td.pos (some (keywordOf td.kind)), .writeFor localName td.namePos (some td.name), .write " = "]
    ++ body ++ [.write ";\n"]
  else
    [.writeFor "type " td.pos (some (keywordOf td.kind)), .writeFor localName td.namePos (some td.name), .write " = "]
    ++ body ++ [.write ";\nexport type { ", .write localName, .write " as ", .write td.name, .write "};\n"]

/-- `export_representative` -/
def exportRepresentativeOps (td : TypeDef) (localName : String) (target : Target) : List POp :=
  if td.name == localName then
    [.writeFor "export type " td.pos (some (keywordOf td.kind)), .writeFor localName td.namePos (some td.name),
     .write (" = " ++ target.name ++ "." ++ localName ++ ";\n")]
  else
    [.writeFor "type " td.pos (some (keywordOf td.kind)), .writeFor localName td.namePos (some td.name),
     .write (" = " ++ target.name ++ "." ++ td.name ++ ";\n"),
     .write ("export type { " ++ localName ++ " as " ++ td.name ++ " };\n")]

/-- a reference to a named type from a field: the LOCAL name, as a `TypeVariable` built from a string (built-in position) -/
def localLeaf (x : SchemaDecls.Ctx) : Name → Pos → TSTy := fun n _ => .var (x.local n) bi

def objectTy (x : SchemaDecls.Ctx) (td : TypeDef) : TSTy :=
  .obj (plainField "__typename" bi (.strLit td.name) none
    :: td.fields.map fun f =>
      plainField f.name f.pos (tsOfType (localLeaf x) f.ty)
        (JsDoc.fieldDescription f.desc (SchemaDecls.deprecationOf f.dirs)))

def interfaceTy (x : SchemaDecls.Ctx) (td : TypeDef) : TSTy :=
  tsUnion ((x.schema.objectImplementers td.name).map fun n => .var (x.local n) bi)

/-- a member that keeps its name is referenced through its `Ident` (position of the member token in the union) -/
def unionTy (x : SchemaDecls.Ctx) (td : TypeDef) : TSTy :=
  tsUnion (td.members.map fun m => if x.local m.1 == m.1 then .var m.1 m.2 else .var (x.local m.1) bi)

def enumTy (td : TypeDef) : TSTy := .union (td.values.map fun v => .strLit v.name)

def inputField (x : SchemaDecls.Ctx) (f : InputValueDef) : TSField :=
  let t := intoReadonly (tsOfType (localLeaf x) f.ty)
  let opt := x.cfg.optionalInput && !f.ty.isNonNull
  .mk f.name f.pos (if opt then .union [t, .undefined] else t) true opt
    (JsDoc.fieldDescription f.desc (SchemaDecls.deprecationOf f.dirs))

def inputTy (x : SchemaDecls.Ctx) (td : TypeDef) : TSTy := .obj (td.inputs.map (inputField x))

/-- the operations of `|writer| …` passed to `export_type`; `none` = the kind is not printed for this target;
    `error name` = `ScalarTypeNotProvided` -/
def bodyOps (x : SchemaDecls.Ctx) (td : TypeDef) : Except String (Option (List POp)) :=
  match td.kind with
  | .scalar =>
    match x.scalarTypes.find? (·.1 == td.name) with
    | some (_, sc) => .ok (some [.write (sc.getType x.target)])
    | none => .error td.name
  | .object => .ok (if x.target.isInput then none else some (printTy (objectTy x td)))
  | .interface => .ok (if x.target.isInput then none else some (printTy (interfaceTy x td)))
  | .union => .ok (if x.target.isInput then none else some (printTy (unionTy x td)))
  | .enum => .ok (some (printTy (enumTy td)))
  | .input => .ok (if x.target.isOutput then none else some (printTy (inputTy x td)))

/-- `TypeDefinition::print_type` -/
def printTypeOps (x : SchemaDecls.Ctx) (td : TypeDef) : Except String (List POp) :=
  match bodyOps x td with
  | .error e => .error e
  | .ok none => .ok []
  | .ok (some body) => .ok (optDescOps td.desc ++ exportTypeOps td (x.local td.name) body)

/-- `TypeSystemDefinition::print_type` (schema and directive definitions print nothing) -/
def itemOps (x : SchemaDecls.Ctx) : TsItem → Except String (List POp)
  | .typeDef td => printTypeOps x td
  | _ => .ok []

/-- the `for def in document.definitions` loop inside a namespace: every definition is followed by `write("\n")` -/
def namespaceBodyOps (x : SchemaDecls.Ctx) : TsDoc → Except String (List POp)
  | [] => .ok []
  | it :: rest =>
    match itemOps x it with
    | .error e => .error e
    | .ok a => match namespaceBodyOps x rest with
      | .error e => .error e
      | .ok r => .ok (a ++ [.write "\n"] ++ r)

def namespacesOps (c : Cfg) (doc : TsDoc) : List Target → Except String (List POp)
  | [] => .ok []
  | t :: rest =>
    match namespaceBodyOps (SchemaDecls.Ctx.new c doc t) doc with
    | .error e => .error e
    | .ok body => match namespacesOps c doc rest with
      | .error e => .error e
      | .ok r => .ok ([.write ("export declare namespace " ++ t.name ++ " {\n"), .indent] ++ body
                      ++ [.dedent, .write "}\n\n"] ++ r)

/-- `print_representative` of one type definition -/
def representativeOps (x : SchemaDecls.Ctx) (td : TypeDef) : List POp :=
  exportRepresentativeOps td (x.local td.name)
    (if td.kind == .input then Target.resolverInput else Target.operationOutput)
  ++ (if td.kind == .enum && x.cfg.emitSchemaRuntime then
        [.writeFor "export const " td.pos (some (keywordOf td.kind)), .writeFor td.name td.namePos (some td.name),
         .write " = {\n", .indent]
        ++ td.values.flatMap (fun v =>
            [.writeFor v.name v.pos (some v.name), .write ": \"", .writeFor v.name v.pos (some v.name), .write "\",\n"])
        ++ [.dedent, .write "} as const;\n"]
      else [])

def itemRepresentativeOps (x : SchemaDecls.Ctx) : TsItem → List POp
  | .typeDef td => representativeOps x td
  | _ => []

/-- `document.definitions.iter().find_map(SchemaDefinition)` -/
def firstSchemaDef (doc : TsDoc) : Option SchemaDef :=
  doc.findSome? fun | .schemaDef s => some s | _ => none

/-- `get_schema_metadata_type` -/
def schemaMetadataTy (doc : TsDoc) : TSTy :=
  match firstSchemaDef doc with
  | some sd => .obj (sd.roots.map fun (k, n, p) => plainField k.asStr bi (.var n p) sd.desc)
  | none =>
    .obj ((SchemaDecls.typeDefsOf doc).filterMap fun td =>
      if td.kind == .object then
        if td.name == "Query" then some (plainField "query" bi (.var td.name td.namePos) none)
        else if td.name == "Mutation" then some (plainField "mutation" bi (.var td.name td.namePos) none)
        else if td.name == "Subscription" then some (plainField "subscription" bi (.var td.name td.namePos) none)
        else none
      else none)

def utilityText : String :=
  "type __Beautify<Obj> = { [K in keyof Obj]: Obj[K] } & {};\nexport type __SelectionSet<Orig, Obj, Others> =\n  __Beautify<Pick<{\n    [K in keyof Orig]: Obj extends { [P in K]?: infer V } ? V : unknown\n  }, Extract<keyof Orig, keyof Obj>> & Others>;\n\n"

/-- `print_prelude` -/
def preludeOps (doc : TsDoc) : List POp :=
  [.write "export type ", .write "__nitrogql_schema", .write " = "] ++ printTy (schemaMetadataTy doc)
  ++ [.write ";\n\n", .write utilityText]

/-- `SchemaTypePrinter::print_document`: every call on the writer, in order (`error name` = `ScalarTypeNotProvided`) -/
def schemaOps (c : Cfg) (doc : TsDoc) : Except String (List POp) :=
  match namespacesOps c doc Target.all with
  | .error e => .error e
  | .ok ns =>
    let x := SchemaDecls.Ctx.new c doc .operationOutput
    .ok (preludeOps doc ++ ns ++ doc.flatMap (fun it => itemRepresentativeOps x it ++ [.write "\n"]))

/-! ## resolver_type_printer (no plugins) -/

def schemaNs : String := "Schema"

/-- first type definition of the document with that name, as `ast_to_type_system` registers it: a reference through
    `obj.name` carries the position of that definition's NAME token -/
def nameNodeOf (s : Schema) (n : Name) : Pos :=
  match s.typeDef? n with
  | some td => td.namePos
  | none => bi

/-- `get_ts_type_for_resolver_output` -/
def resolverOutputTy (s : Schema) (td : TypeDef) : TSTy :=
  let base : TSTy := .ns3 schemaNs Target.resolverOutput.name td.name
  match td.kind with
  | .object => .func (.var "Omit" bi) [base, .strLit "__typename"]
  | .interface => tsUnion ((s.objectImplementers td.name).map fun n => .var n (nameNodeOf s n))
  | .union => tsUnion (td.members.map fun m => .var m.1 m.2)
  | _ => base

/-- `arguments_definition_to_ts` -/
def argumentsTy (args : List InputValueDef) : TSTy :=
  intoReadonly (.obj (args.map fun a =>
    plainField a.name a.pos
      (tsOfType (fun n _ => .ns3 schemaNs Target.resolverInput.name n) a.ty) a.desc))

/-- `__TypeResolver<Parents, Context, Names>` object of an abstract type over (name, node) pairs -/
def typeResolverTy (possible : List (Name × Pos)) : TSTy :=
  .obj [plainField "__resolveType" bi
    (.func (.var "__TypeResolver" bi)
      [tsUnion (possible.map fun m => .var m.1 m.2), .var "Context" bi, tsUnion (possible.map fun m => .strLit m.1)]) none]

/-- `get_resolver_type` -/
def resolverTy (s : Schema) (td : TypeDef) : Option TSTy :=
  match td.kind with
  | .object =>
    some (.obj (td.fields.map fun f =>
      plainField f.name f.pos
        (.func (.var "__Resolver" bi)
          [.var td.name td.namePos,
           argumentsTy f.args,
           .var "Context" bi,
           tsOfType (fun n p => .var n p) f.ty]) none))
  | .interface => some (typeResolverTy ((s.objectImplementers td.name).map fun n => (n, nameNodeOf s n)))
  | .union => some (typeResolverTy td.members)
  | _ => none

def isEmptyObj : TSTy → Bool
  | .obj [] => true
  | _ => false

def resolverText : String :=
  "type __Resolver<Parent, Args, Context, Result> = (parent: Parent, args: Args, context: Context, info: GraphQLResolveInfo) => Result | Promise<Result>;\n"
def typeResolverText : String :=
  "type __TypeResolver<Obj, Context, Result> = (object: Obj, context: Context, info: GraphQLResolveInfo) => Result | Promise<Result>;\n"

/-- `ResolverTypePrinter::print_document` without plugins: every call on the writer, in order -/
def resolverOps (doc : TsDoc) : List POp :=
  let s : Schema := ⟨doc⟩
  let tds := SchemaDecls.typeDefsOf doc
  let outs := tds.filter (·.kind != .input)
  [.write "import type { GraphQLResolveInfo } from \"graphql\";\n",
   .write ("import type * as " ++ schemaNs ++ " from \"\";\n"),
   .write resolverText, .write typeResolverText]
  ++ outs.flatMap (fun td =>
      [.write "type ", .writeFor td.name td.namePos (some td.name), .write " = "]
      ++ printTy (resolverOutputTy s td) ++ [.write ";\n"])
  ++ [.write "export type Resolvers<Context> = "]
  ++ printTy (.obj (tds.filterMap fun td =>
      match resolverTy s td with
      | some t => some (.mk td.name td.namePos t false (isEmptyObj t) none)
      | none => none))
  ++ [.write ";\n", .write "export type ResolverOutput<T extends "]
  ++ printTy (tsUnion (outs.map fun td => .strLit td.name))
  ++ [.write "> = \n"]
  ++ printTy (.obj (outs.map fun td => plainField td.name td.namePos (.var td.name td.namePos) none))
  ++ [.write "[T];\n"]

/-! ## operation printers: the mapped `write_for` calls -/

/-- the options that decide texts of mapped calls (`OperationBasePrinterOptions`, `OperationTypePrinterOptions`) -/
structure OpOpts where
  capitalize : Bool := true
  querySuffix : String := "Query"
  mutationSuffix : String := "Mutation"
  subscriptionSuffix : String := "Subscription"
  fragmentVariableSuffix : String := ""
  resultSuffix : String := "Result"
  variablesSuffix : String := "Variables"
  fragmentTypeSuffix : String := ""
  printValues : Bool := false
  deriving Repr, Inhabited

/-- `nitrogql_utils::capitalize` on a GraphQL name (ASCII) -/
def capitalize (s : String) : String :=
  match s.toList with
  | [] => ""
  | c :: cs => String.ofList (c.toUpper :: cs)

/-- `operation_variable_name(..).operation_name` -/
def operationName (o : OpOpts) (op : OperationDef) : String :=
  match op.name with
  | some (n, _) => if o.capitalize then capitalize n else n
  | none => ""

def kindSuffix (o : OpOpts) : OpKind → String
  | .query => o.querySuffix | .mutation => o.mutationSuffix | .subscription => o.subscriptionSuffix

/-- `operation_variable_name(..).operation_variable_name` -/
def operationVariableName (o : OpOpts) (op : OperationDef) : String := operationName o op ++ kindSuffix o op.kind

/-- `OperationDefinition::name_pos()`: the name token when there is one, else the definition itself, unnamed -/
def namePosOf (op : OperationDef) : Pos × Option String :=
  match op.name with
  | some (n, p) => (p, some n)
  | none => (op.pos, none)

/-- the `write_for` calls of `OperationTypePrinterVisitor::print_operation_definition`; `sp` = position of the selection set -/
def opTypeOperationSites (o : OpOpts) (op : OperationDef) (sp : Pos) : List POp :=
  let (np, nm) := namePosOf op
  [.writeFor (operationName o op ++ o.resultSuffix) np nm,
   .writeFor " = " sp none,
   .writeFor (operationName o op ++ o.variablesSuffix) np nm,
   .writeFor (operationVariableName o op) np nm,
   .writeFor ": " sp none]

/-- the `write_for` calls of `print_fragment_definition`: the node is the FRAGMENT DEFINITION (`HasPos for
    FragmentDefinition`: position of the definition = the `fragment` keyword, name = the fragment's name) -/
def opTypeFragmentSites (o : OpOpts) (f : FragmentDef) : List POp :=
  [.writeFor (f.name ++ o.fragmentTypeSuffix) f.pos (some f.name),
   .writeFor (f.name ++ o.fragmentVariableSuffix) f.pos (some f.name),
   .writeFor (f.name ++ o.fragmentTypeSuffix) f.pos (some f.name)]
  ++ (if o.printValues then [.writeFor (f.name ++ o.fragmentTypeSuffix) f.pos (some f.name)] else [])

/-- the mapped calls of `print_types_for_operation_document`, in document order (fragments imported from other files are
    definitions of the resolved document like any other and carry their own file index in their positions) -/
def opTypeSites (o : OpOpts) : Doc → List Pos → List POp
  | [], _ => []
  | .op op :: rest, sp :: sps => opTypeOperationSites o op sp ++ opTypeSites o rest sps
  | .op op :: rest, [] => opTypeOperationSites o op {} ++ opTypeSites o rest []
  | .frag f :: rest, sps => opTypeFragmentSites o f ++ opTypeSites o rest sps
  | .imp _ :: rest, sps => opTypeSites o rest sps

/-- the mapped calls of `print_js_for_operation_document` -/
def opJsSites (o : OpOpts) : Doc → List POp
  | [] => []
  | .op op :: rest =>
    let (np, nm) := namePosOf op
    .writeFor (operationVariableName o op) np nm :: opJsSites o rest
  | .frag f :: rest => .writeFor (f.name ++ o.fragmentVariableSuffix) f.pos (some f.name) :: opJsSites o rest
  | .imp _ :: rest => opJsSites o rest

/-! ## operation printers: the WHOLE call sequence (second stage)

  crates/printer/src/operation_type_printer/selection_tree/to_ts.rs   `generate_selection_tree_type`  → `treeTy` (the `TSType`
                                                                       the printer builds, NOT normalised: nested unions stay nested)
  crates/printer/src/operation_type_printer/type_printer.rs           `get_type_for_variable_definitions` (+ `ts_intersection`,
                                                                       which merges the one-field objects into one object) → `varsTy`
  json-writer 0.4 (`JSONObjectWriter`, `write_string`)                compact JSON text with its escape table → `jsonText`
  crates/printer/src/operation_js_printer/printers.rs                 `print_operation_runtime` / `print_fragment_runtime` → `runtimeText`
  crates/printer/src/operation_type_printer/visitor.rs                header, operation, fragment, default export → `opType*Ops`
  crates/printer/src/operation_js_printer/visitor.rs                  the same for the JavaScript module → `opJs*Ops`
  crates/printer/src/operation_base_printer/mod.rs                    `print_document` (the loop, `exported`, `operation_count`)

Every `ObjectKey` of these types is built from a string (`From<String>` / `From<&str>`): its position is `Pos::builtin()`. -/

/-- the mapper `field_to_type` passes to `map_to_tstype`: `NS.__OperationOutput.<name>` -/
def outLeaf (ns : String) : Name → Pos → TSTy := fun n _ => .ns3 ns Target.operationOutput.name n

/-- the mapper of `get_type_for_variable_definitions`: `NS.__OperationInput.<name>` -/
def inLeaf (ns : String) : Name → Pos → TSTy := fun n _ => .ns3 ns Target.operationInput.name n

mutual
/-- `generate_selection_tree_type_impl` (`map_to_tstype` is `tsOfType`: the same recursion as `get_ts_type_of_type`) -/
def treeTy (ns : String) : OpTypes.SelTree → Bool → TSTy
  | .nonNull t, _ => treeTy ns t true
  | .list t, nn => if nn then .arr (treeTy ns t false) else tsUnion [.arr (treeTy ns t false), .null]
  | .object bs, nn => if nn then tsUnion (branchesTy ns bs) else tsUnion [tsUnion (branchesTy ns bs), .null]
def branchesTy (ns : String) : List OpTypes.Branch → List TSTy
  | [] => []
  | b :: bs => branchTy ns b :: branchesTy ns bs
def branchTy (ns : String) : OpTypes.Branch → TSTy
  | .mk tn _ un al =>
    .func (.ns2 ns "__SelectionSet")
      [.ns3 ns Target.operationOutput.name tn, .obj (fieldsTy ns tn un), .obj (fieldsTy ns tn al)]
def fieldsTy (ns : String) (parent : Name) : List OpTypes.SField → List TSField
  | [] => []
  | f :: fs => fieldTy ns parent f :: fieldsTy ns parent fs
/-- `field_to_type`: the key is `name.to_string().into()` — an `ObjectKey` with `Pos::builtin()` -/
def fieldTy (ns : String) (parent : Name) : OpTypes.SField → TSField
  | .empty n => .mk n bi .never false true none
  | .leaf n ty isTn => .mk n bi (if isTn then .strLit parent else tsOfType (outLeaf ns) ty) false false none
  | .object n sel => .mk n bi (treeTy ns sel false) false false none
end

/-- one property of the Variables type (`key: property_name.into()`: built-in position) -/
def varField (ns : String) (optionalInput : Bool) (d : VarDef) : TSField :=
  let ft := tsOfType (inLeaf ns) d.ty
  let opt := !d.ty.isNonNull && optionalInput
  .mk d.name bi (if opt then tsUnion [ft, .undefined] else ft) true opt none

/-- `get_type_for_variable_definitions` (also `TSType::empty_object()` when the operation has no variables) -/
def varsTy (ns : String) (optionalInput : Bool) (vars : List VarDef) : TSTy :=
  .obj (vars.map (varField ns optionalInput))

/-! ### json-writer -/

def hexDigit (n : Nat) : Char := "0123456789ABCDEF".toList.getD n '0'

/-- the `REPLACEMENTS` table of json-writer: `"` `\` `/` and the bytes below 0x20 -/
def jsonEscChar (c : Char) : List Char :=
  if c = '"' then ['\\', '"']
  else if c = '\\' then ['\\', '\\']
  else if c = '/' then ['\\', '/']
  else if c.toNat = 8 then ['\\', 'b']
  else if c.toNat = 12 then ['\\', 'f']
  else if c = '\n' then ['\\', 'n']
  else if c = '\r' then ['\\', 'r']
  else if c = '\t' then ['\\', 't']
  else if c.toNat < 32 then ['\\', 'u', '0', '0', hexDigit (c.toNat / 16), hexDigit (c.toNat % 16)]
  else [c]

/-- `write_string` -/
def jsonStr (s : String) : String := "\"" ++ String.ofList (s.toList.flatMap jsonEscChar) ++ "\""

mutual
/-- the text `JSONObjectWriter` / `JSONArrayWriter` produce for a tree: no white space, members in order -/
def jsonText : Json → String
  | .null => "null"
  | .bool b => if b then "true" else "false"
  | .num r => r
  | .str s => jsonStr s
  | .arr xs => "[" ++ jsonTextList xs true ++ "]"
  | .obj kvs => "{" ++ jsonTextFields kvs true ++ "}"
def jsonTextList : List Json → Bool → String
  | [], _ => ""
  | x :: xs, first => (if first then "" else ",") ++ jsonText x ++ jsonTextList xs false
def jsonTextFields : List (String × Json) → Bool → String
  | [], _ => ""
  | (k, v) :: r, first => (if first then "" else ",") ++ jsonStr k ++ ":" ++ jsonText v ++ jsonTextFields r false
end

/-! ### the printers -/

/-- why a printer does not return: a panic site of the type printer (`OpTypes.Panic`) or of the runtime printer
    (`expect("fragment not found")`, `FragClosure.RtErr`) -/
inductive OpErr where
  | types (p : OpTypes.Panic)
  | runtime (e : FragClosure.RtErr)
  deriving Repr, DecidableEq

/-- `OperationTypePrinterOptions` + `OperationBasePrinterOptions` -/
structure FullOpts where
  /-- the name options and `print_values` -/
  names : OpOpts := {}
  defaultExport : Bool := true
  namedExport : Bool := false
  exportInput : Bool := false
  exportResult : Bool := false
  /-- `schema_root_namespace` -/
  ns : String := "Schema"
  schemaSource : String := ""
  typedDocumentNodeSource : String := "@graphql-typed-document-node/core"
  /-- `allow_undefined_as_optional_input` -/
  optionalInput : Bool := true
  deriving Repr, Inhabited

/-- `print_operation_runtime` / `print_fragment_runtime`: ONE `write` of this text -/
def runtimeText (D : Doc) (x : ExecDef) : Except OpErr String :=
  match FragClosure.runtimeDefs D x with
  | .ok defs => .ok (jsonText (DocJson.toJson defs))
  | .error e => .error (.runtime e)

/-- `generate_selection_tree_type(get_type_for_selection_set(..))` of a definition -/
def resultTy (ns : String) (S : Schema) (D : Doc) (x : ExecDef) : Except OpErr TSTy :=
  match OpTypes.resultTree S D x with
  | some (.ok t) => .ok (treeTy ns t false)
  | some (.error p) => .error (.types p)
  | none => .ok .never

/-- `print_header` of the type printer (`writeln!` / `write!` = one `write_fmt` each) -/
def opTypeHeaderOps (fo : FullOpts) : List POp :=
  [.write ("import type { TypedDocumentNode } from \"" ++ fo.typedDocumentNodeSource ++ "\";\n"),
   .write ("import type * as " ++ fo.ns ++ " from \"" ++ fo.schemaSource ++ "\";\n\n")]

def exportKw (exported : Bool) : List POp := if exported then [.write "export "] else []

/-- `if exported { "export " } else if !print_values { "declare " }`, then `"const "` -/
def constPrefixOps (exported printValues : Bool) : List POp :=
  (if exported then [.write "export "] else if !printValues then [.write "declare "] else []) ++ [.write "const "]

/-- `[export ]type <Name><resultSuffix> = <selection type>;` -/
def resultDeclOps (fo : FullOpts) (op : OperationDef) (sp : Pos) (rt : TSTy) : List POp :=
  exportKw fo.exportResult
  ++ [.write "type ", .writeFor (operationName fo.names op ++ fo.names.resultSuffix) (namePosOf op).1 (namePosOf op).2,
      .writeFor " = " sp none]
  ++ printTy rt ++ [.write ";\n\n"]

/-- `[export ]type <Name><variablesSuffix> = <variables type>;` -/
def varsDeclOps (fo : FullOpts) (op : OperationDef) : List POp :=
  exportKw fo.exportInput
  ++ [.write "type ", .writeFor (operationName fo.names op ++ fo.names.variablesSuffix) (namePosOf op).1 (namePosOf op).2,
      .write " = "]
  ++ printTy (varsTy fo.ns fo.optionalInput op.vars) ++ [.write ";\n\n"]

/-- `[export |declare ]const <Name><kind suffix>: TypedDocumentNode<R, V>[ = <json> as unknown as TypedDocumentNode<R, V>];` -/
def opConstOps (fo : FullOpts) (op : OperationDef) (sp : Pos) (js : Option String) : List POp :=
  let r := operationName fo.names op ++ fo.names.resultSuffix
  let v := operationName fo.names op ++ fo.names.variablesSuffix
  constPrefixOps fo.namedExport fo.names.printValues
  ++ [.writeFor (operationVariableName fo.names op) (namePosOf op).1 (namePosOf op).2, .writeFor ": " sp none,
      .write "TypedDocumentNode<", .write r, .write ", ", .write v]
  ++ (match js with
      | none => [.write ">;\n\n"]
      | some j => [.write "> = ", .write j, .write " as unknown as TypedDocumentNode<", .write r, .write ", ", .write v,
                   .write ">;\n\n"])

/-- `print_default_exported_operation_definition` (both visitors) -/
def defaultExportOps (fo : FullOpts) (op : OperationDef) : List POp :=
  [.write "export { ", .write (operationVariableName fo.names op), .write " as default };\n\n"]

/-- the runtime text when values are printed -/
def optRuntime (printValues : Bool) (D : Doc) (x : ExecDef) : Except OpErr (Option String) :=
  if printValues then (runtimeText D x).map some else .ok none

/-- `print_operation_definition` of the type printer, then the default export when it applies -/
def opTypeOperationOps (fo : FullOpts) (S : Schema) (D : Doc) (count : Nat) (op : OperationDef) (sp : Pos) :
    Except OpErr (List POp) :=
  match resultTy fo.ns S D (.op op) with
  | .error e => .error e
  | .ok rt =>
    match optRuntime fo.names.printValues D (.op op) with
    | .error e => .error e
    | .ok js =>
      .ok (resultDeclOps fo op sp rt ++ varsDeclOps fo op ++ opConstOps fo op sp js
           ++ (if fo.defaultExport && count == 1 then defaultExportOps fo op else []))

/-- `[export ]type <name><fragmentTypeSuffix> = <selection type>;` — the node is the fragment DEFINITION -/
def fragDeclOps (fo : FullOpts) (f : FragmentDef) (exported : Bool) (rt : TSTy) : List POp :=
  exportKw exported
  ++ [.write "type ", .writeFor (f.name ++ fo.names.fragmentTypeSuffix) f.pos (some f.name), .write " = "]
  ++ printTy rt ++ [.write ";\n\n"]

/-- `[export |declare ]const <name><fragmentVariableSuffix>: TypedDocumentNode<T, never>[ = <json> as unknown as …];` -/
def fragConstOps (fo : FullOpts) (f : FragmentDef) (exported : Bool) (js : Option String) : List POp :=
  let t := f.name ++ fo.names.fragmentTypeSuffix
  constPrefixOps exported fo.names.printValues
  ++ [.writeFor (f.name ++ fo.names.fragmentVariableSuffix) f.pos (some f.name), .write ": ", .write "TypedDocumentNode<",
      .writeFor t f.pos (some f.name), .write ", never>"]
  ++ (match js with
      | none => [.write ";\n\n"]
      | some j => [.write " = ", .write j, .write " as unknown as TypedDocumentNode<", .writeFor t f.pos (some f.name),
                   .write ", never>;\n\n"])

/-- `print_fragment_definition` of the type printer; `exported` = the fragment is in the document's own file -/
def opTypeFragmentOps (fo : FullOpts) (S : Schema) (D : Doc) (docFile : Nat) (f : FragmentDef) : Except OpErr (List POp) :=
  match resultTy fo.ns S D (.frag f) with
  | .error e => .error e
  | .ok rt =>
    match optRuntime fo.names.printValues D (.frag f) with
    | .error e => .error e
    | .ok js => .ok (fragDeclOps fo f (docFile == f.pos.file) rt ++ fragConstOps fo f (docFile == f.pos.file) js)

/-- `document.definitions.iter().filter(OperationDefinition).count()` -/
def operationCount : Doc → Nat
  | [] => 0
  | .op _ :: r => operationCount r + 1
  | _ :: r => operationCount r

/-- the `for d in document.definitions` loop of `OperationPrinter::print_document` with the type visitor; `D` = the whole
    document (fragment table, fuel), `sps` = the positions of the operations' selection sets, in order -/
def opTypeDefsOps (fo : FullOpts) (S : Schema) (D : Doc) (docFile count : Nat) : Doc → List Pos → Except OpErr (List POp)
  | [], _ => .ok []
  | .op op :: rest, sps =>
    match opTypeOperationOps fo S D count op (sps.headD {}) with
    | .error e => .error e
    | .ok a => match opTypeDefsOps fo S D docFile count rest sps.tail with
      | .error e => .error e
      | .ok r => .ok (a ++ r)
  | .frag f :: rest, sps =>
    match opTypeFragmentOps fo S D docFile f with
    | .error e => .error e
    | .ok a => match opTypeDefsOps fo S D docFile count rest sps with
      | .error e => .error e
      | .ok r => .ok (a ++ r)
  | .imp _ :: rest, sps => opTypeDefsOps fo S D docFile count rest sps

/-- `print_types_for_operation_document`: EVERY call on the writer, in order (`error` = the printer panics).
    `docFile` = `document.position.file`. -/
def opTypeOps (fo : FullOpts) (S : Schema) (D : Doc) (docFile : Nat) (sps : List Pos) : Except OpErr (List POp) :=
  match opTypeDefsOps fo S D docFile (operationCount D) D sps with
  | .error e => .error e
  | .ok r => .ok (opTypeHeaderOps fo ++ r)

/-- `[export ]const <name> = <json>;` -/
def jsConstOps (exported : Bool) (text : String) (p : Pos) (n : Option String) (js : String) : List POp :=
  exportKw exported ++ [.write "const ", .writeFor text p n, .write " = ", .write js, .write ";\n\n"]

/-- the loop with the visitor of the JavaScript module (header and trailer print nothing) -/
def opJsDefsOps (fo : FullOpts) (D : Doc) (docFile count : Nat) : Doc → Except OpErr (List POp)
  | [] => .ok []
  | .op op :: rest =>
    match runtimeText D (.op op) with
    | .error e => .error e
    | .ok js => match opJsDefsOps fo D docFile count rest with
      | .error e => .error e
      | .ok r =>
        .ok (jsConstOps fo.namedExport (operationVariableName fo.names op) (namePosOf op).1 (namePosOf op).2 js
             ++ (if fo.defaultExport && count == 1 then defaultExportOps fo op else []) ++ r)
  | .frag f :: rest =>
    match runtimeText D (.frag f) with
    | .error e => .error e
    | .ok js => match opJsDefsOps fo D docFile count rest with
      | .error e => .error e
      | .ok r =>
        .ok (jsConstOps (docFile == f.pos.file) (f.name ++ fo.names.fragmentVariableSuffix) f.pos (some f.name) js ++ r)
  | .imp _ :: rest => opJsDefsOps fo D docFile count rest

/-- `print_js_for_operation_document`: EVERY call on the writer, in order -/
def opJsOps (fo : FullOpts) (D : Doc) (docFile : Nat) : Except OpErr (List POp) :=
  opJsDefsOps fo D docFile (operationCount D) D

end NitroVerif.PrintMap
