/-
Model of the resolvers declaration file printer (without plugins):
  crates/printer/src/resolver_type_printer/printer.rs   (print_document)
  crates/printer/src/resolver_type_printer/visitor.rs   (get_ts_type_for_resolver_output, get_resolver_type, …)
  crates/printer/src/resolver_type_printer/options.rs   (defaults: Resolvers, ResolverOutput, Schema, schema_source "")
as a function (resolved document) ↦ `Ts.File` in print→parse normal form.
The `ts_types` HashMap of the Rust code is only looked up, never iterated. Core Lean only.
-/
import NitroVerif.Model.SchemaDecls
namespace NitroVerif.ResolverDecls
open NitroVerif.Gql NitroVerif.Ts NitroVerif.DeclCfg NitroVerif.SchemaDecls

def schemaNs : String := "Schema"
def schemaSource : String := ""

def resolverText : String :=
  "<Parent, Args, Context, Result> = (parent: Parent, args: Args, context: Context, info: GraphQLResolveInfo) => Result | Promise<Result>"
def typeResolverText : String :=
  "<Obj, Context, Result> = (object: Obj, context: Context, info: GraphQLResolveInfo) => Result | Promise<Result>"

/-- `get_ts_type_for_resolver_output` -/
def resolverOutputType (s : Schema) (td : TypeDef) : Ty :=
  let base : Ty := .qref [schemaNs, Target.resolverOutput.name, td.name]
  match td.kind with
  | .object => .app (.ref "Omit") [base, .strLit "__typename"]
  | .interface => tsUnion ((s.objectImplementers td.name).map .ref)
  | .union => tsUnion (td.members.map fun m => .ref m.1)
  | _ => base

/-- `arguments_definition_to_ts`: `into_readonly` of an object type marks its FIELDS readonly and does not
    descend into the field types, so list arguments stay mutable arrays -/
def argsType (args : List InputValueDef) : Ty :=
  .obj (args.map fun a =>
    (a.name, true, false, tsOf (fun n => .qref [schemaNs, Target.resolverInput.name, n]) false a.ty))

/-- the `__Resolver<Parent, Args, Context, Result>` of one field -/
def fieldResolver (parent : Name) (f : FieldDef) : Ty :=
  .app (.ref "__Resolver") [.ref parent, argsType f.args, .ref "Context", tsOf .ref false f.ty]

/-- the `{ __resolveType: __TypeResolver<Parents, Context, Names> }` of an abstract type over `possible` -/
def typeResolver (possible : List Name) : Ty :=
  .obj [("__resolveType", false, false,
    .app (.ref "__TypeResolver") [tsUnion (possible.map .ref), .ref "Context", tsUnion (possible.map .strLit)])]

/-- `get_resolver_type` -/
def resolverType (s : Schema) (td : TypeDef) : Option Ty :=
  match td.kind with
  | .object => some (.obj (td.fields.map fun f => (f.name, false, false, fieldResolver td.name f)))
  | .interface => some (typeResolver (s.objectImplementers td.name))
  | .union => some (typeResolver (td.members.map (·.1)))
  | _ => none

def isEmptyObject : Ty → Bool
  | .obj [] => true
  | _ => false

/-- the `Resolvers<Context>` record -/
def rootResolvers (s : Schema) (tds : List TypeDef) : Ty :=
  .obj (tds.filterMap fun td =>
    match resolverType s td with
    | some t => some (td.name, false, isEmptyObject t, t)
    | none => none)

def resolversFile (_c : Cfg) (doc : TsDoc) : File :=
  let s : Schema := ⟨doc⟩
  let tds := typeDefsOf doc
  let outs := tds.filter (·.kind != .input)
  [.import "graphql" true (.named [("GraphQLResolveInfo", "GraphQLResolveInfo")]),
   .import schemaSource true (.star schemaNs),
   .rawType false "__Resolver" resolverText,
   .rawType false "__TypeResolver" typeResolverText]
  ++ outs.map (fun td => .type false td.name [] (resolverOutputType s td))
  ++ [.type true "Resolvers" [("Context", none)] (rootResolvers s tds),
      .type true "ResolverOutput" [("T", some (tsUnion (outs.map fun td => .strLit td.name)))]
        (.index (.obj (outs.map fun td => (td.name, false, false, .ref td.name))) (.ref "T"))]

end NitroVerif.ResolverDecls
