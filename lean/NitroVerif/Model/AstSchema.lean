/-
Models of `crates/semantics/src/ast_to_type_system.rs` (`astToSchema`) and `type_system_to_ast.rs` (`schemaToAst`).

`astToSchema` walks the definitions of a (resolved) type-system document in order: a schema definition sets the
description and overwrites the root names it lists (the root-types node is created by the FIRST schema definition
and keeps its position); type and directive definitions are `extend`ed (first definition of a name wins).
Deprecation = the first `@deprecated` directive, `reason` if it is a string literal, else "No longer supported".
Default values are kept as `value.to_string()` (no escaping — `Display for Value`).

`schemaToAst` emits ONE schema definition (built-in position, the roots that are set, in query/mutation/
subscription order) followed by the type definitions in `iter_types` order. It drops: directive definitions,
deprecations (no `@deprecated` directive is re-created), default-value literals (replaced by `null`).
Core Lean only; structurally recursive.
-/
import NitroVerif.Gql.Ast
import NitroVerif.Model.SchemaIR
namespace NitroVerif.AstSchema
open NitroVerif.Gql NitroVerif.SchemaIR

/-! ### `Display for Value` (crates/ast/src/value.rs) -/
mutual
def display : Value → String
  | .var n _ => "$" ++ n
  | .int s _ => s
  | .float s _ => s
  | .str s _ => "\"" ++ s ++ "\""
  | .bool b _ => if b then "true" else "false"
  | .null _ => "null"
  | .enum n _ => n
  | .list vs _ => "[" ++ displayList vs ++ "]"
  | .obj fs _ => "{" ++ displayFields fs ++ "}"
def displayList : List Value → String
  | [] => ""
  | [v] => display v
  | v :: w :: r => display v ++ "," ++ displayList (w :: r)
def displayFields : List (Name × Pos × Value) → String
  | [] => ""
  | [(k, _, v)] => k ++ ": " ++ display v
  | (k, _, v) :: w :: r => k ++ ": " ++ display v ++ "," ++ displayFields (w :: r)
end

def convType : GType → IType
  | .named n _ => .named n
  | .list t _ => .list (convType t)
  | .nonNull t => .nonNull (convType t)

/-- `convert_deprecation` -/
def deprecationOf (dirs : List Directive) : Option String :=
  match dirs.find? (·.name == "deprecated") with
  | none => none
  | some d =>
    match d.args.find? (·.1 == "reason") with
    | some (_, _, .str s _) => some s
    | _ => some "No longer supported"

def convIV (v : InputValueDef) : IInputValue :=
  { name := v.name, desc := v.desc, ty := convType v.ty, default := v.default.map display,
    deprecation := deprecationOf v.dirs }

def convField (f : FieldDef) : IField :=
  { name := f.name, desc := f.desc, ty := convType f.ty, args := f.args.map convIV,
    deprecation := deprecationOf f.dirs }

def convMember (m : EnumValueDef) : IEnumMember :=
  { name := m.name, desc := m.desc, deprecation := deprecationOf m.dirs }

def convKind : TypeKind → IKind
  | .scalar => .scalar | .object => .object | .interface => .interface
  | .union => .union | .enum => .enum | .input => .input

/-- `convert_type_definition`: only the components of the definition's kind are read -/
def convTypeDef (t : TypeDef) : ITypeDef :=
  match t.kind with
  | .scalar => { kind := .scalar, name := t.name, desc := t.desc }
  | .object => { kind := .object, name := t.name, desc := t.desc, fields := t.fields.map convField,
                 interfaces := t.implements.map (·.1) }
  | .interface => { kind := .interface, name := t.name, desc := t.desc, fields := t.fields.map convField,
                    interfaces := t.implements.map (·.1) }
  | .union => { kind := .union, name := t.name, desc := t.desc, possible := t.members.map (·.1) }
  | .enum => { kind := .enum, name := t.name, desc := t.desc, members := t.values.map convMember }
  | .input => { kind := .input, name := t.name, desc := t.desc, inputs := t.inputs.map convIV }

def convDirectiveDef (d : DirectiveDef) : IDirectiveDef :=
  { name := d.name, desc := d.desc, locations := d.locations, args := d.args.map convIV, repeatable := d.repeatable }

def convOpKind : OpKind → OpK
  | .query => .query | .mutation => .mutation | .subscription => .subscription

def setRoots (r : Roots) : List (OpKind × Name × Pos) → Roots
  | [] => r
  | (k, n, _) :: rest => setRoots (r.set (convOpKind k) n) rest

/-- builder state: the schema so far + whether `set_root_types` was called already -/
structure B where
  s : Schema := {}
  rootsNode : Bool := false
  deriving Inhabited

def step (b : B) : TsItem → B
  | .schemaDef d =>
    let s := b.s
    let s := match d.desc with
      | some x => { s with desc := some x }
      | none => s
    -- `set_root_types(def.position)`: the node (hence its position) is created by the first call only
    let s := if b.rootsNode then s else { s with explicitRoots := !d.pos.builtin }
    { s := { s with roots := setRoots s.roots d.roots }, rootsNode := true }
  | .typeDef t => { b with s := { b.s with types := extendTypes b.s.types [convTypeDef t] } }
  | .directiveDef d => { b with s := { b.s with directives := extendDirectives b.s.directives [convDirectiveDef d] } }
  -- a resolved document has no extensions
  | .schemaExt _ => b
  | .typeExt _ => b

/-- `ast_to_type_system` -/
def astToSchema (doc : TsDoc) : Schema := (doc.foldl step {}).s

/-! ### `type_system_to_ast` -/

def unconvType : IType → GType
  | .named n => .named n {builtin := true}
  | .list t => .list (unconvType t) {builtin := true}
  | .nonNull t => .nonNull (unconvType t)

def bpos : Pos := { builtin := true }

def unconvIV (v : IInputValue) : InputValueDef :=
  { desc := v.desc, name := v.name, pos := bpos, ty := unconvType v.ty,
    default := v.default.map fun _ => Value.null bpos, dirs := [] }

def unconvField (f : IField) : FieldDef :=
  { desc := f.desc, name := f.name, pos := bpos, args := f.args.map unconvIV, ty := unconvType f.ty, dirs := [] }

def unconvMember (m : IEnumMember) : EnumValueDef := { desc := m.desc, name := m.name, pos := bpos, dirs := [] }

def unconvKind : IKind → TypeKind
  | .scalar => .scalar | .object => .object | .interface => .interface
  | .union => .union | .enum => .enum | .input => .input

def unconvTypeDef (t : ITypeDef) : TypeDef :=
  let base : TypeDef := { kind := unconvKind t.kind, desc := t.desc, name := t.name, namePos := bpos, pos := bpos }
  match t.kind with
  | .scalar => base
  | .object | .interface => { base with implements := t.interfaces.map (·, bpos), fields := t.fields.map unconvField }
  | .union => { base with members := t.possible.map (·, bpos) }
  | .enum => { base with values := t.members.map unconvMember }
  | .input => { base with inputs := t.inputs.map unconvIV }

def rootEntries (r : Roots) : List (OpKind × Name × Pos) :=
  (match r.query with | some n => [(OpKind.query, n, bpos)] | none => []) ++
  (match r.mutation with | some n => [(OpKind.mutation, n, bpos)] | none => []) ++
  (match r.subscription with | some n => [(OpKind.subscription, n, bpos)] | none => [])

/-- `type_system_to_ast` -/
def schemaToAst (s : Schema) : TsDoc :=
  TsItem.schemaDef { desc := s.desc, dirs := [], roots := rootEntries s.roots, pos := bpos }
    :: s.types.map fun t => TsItem.typeDef (unconvTypeDef t)

end NitroVerif.AstSchema
