/-
Model of the Variables type of an operation:
  crates/printer/src/operation_type_printer/type_printer.rs  (get_type_for_variable_definitions)
  crates/printer/src/ts_types/type_to_ts_type.rs             (get_ts_type_of_type)
  crates/printer/src/ts_types/ts_types_util.rs               (ts_intersection, ts_union)
in print→parse normal form. `ts_intersection` of the one-field object types merges them into ONE object type
(all members are `TSType::Object`), so the result is always a single record; each field is readonly, optional iff
the variable's type is nullable and `allowUndefinedAsOptionalInput` is on (then `| undefined` is appended), and
refers to `Schema.__OperationInput.<Name>` (arrays are NOT readonly here: `into_readonly` is not applied).
Core Lean only.
-/
import NitroVerif.Model.SchemaDecls
namespace NitroVerif.VarTypes
open NitroVerif.Gql NitroVerif.Ts NitroVerif.DeclCfg NitroVerif.SchemaDecls

/-- `options.schema_root_namespace` (default of `OperationTypePrinterOptions`) -/
def schemaNs : String := "Schema"

def varLeaf (n : Name) : Ty := .qref [schemaNs, Target.operationInput.name, n]

def varField (c : Cfg) (d : VarDef) : Field :=
  let opt := !d.ty.isNonNull && c.optionalInput
  (d.name, true, opt,
    if opt then .union [tsCore varLeaf false d.ty, .prim "null", .prim "undefined"] else tsOf varLeaf false d.ty)

/-- `get_type_for_variable_definitions` -/
def varsTs (c : Cfg) (vars : List VarDef) : Ty := .obj (vars.map (varField c))

end NitroVerif.VarTypes
