/-
Model of the Variables type of an operation:
  crates/printer/src/operation_type_printer/type_printer.rs  (get_type_for_variable_definitions)
  crates/printer/src/ts_types/type_to_ts_type.rs             (get_ts_type_of_type)
  crates/printer/src/ts_types/ts_types_util.rs               (ts_intersection, ts_union)
in print→parse normal form. `ts_intersection` of the one-field object types merges them into ONE object type
(all members are `TSType::Object`), so the result is always a single record; each field is readonly, optional iff
the variable's type is nullable and `allowUndefinedAsOptionalInput` is on (then `| undefined` is appended), and
refers to `Schema.__OperationInput.<Name>` (arrays are NOT readonly here: `into_readonly` is not applied).
Core Lean only.
-/
import NitroVerif.Model.SchemaDecls
namespace NitroVerif.VarTypes
open NitroVerif.Gql NitroVerif.Ts NitroVerif.DeclCfg NitroVerif.SchemaDecls

/-- `options.schema_root_namespace` (default of `OperationTypePrinterOptions`) -/
def schemaNs : String := "Schema"

def varLeaf (n : Name) : Ty := .qref [schemaNs, Target.operationInput.name, n]

def varFieldL (leaf : Name → Ty) (optionalInput : Bool) (d : VarDef) : Field :=
  let opt := !d.ty.isNonNull && optionalInput
  (d.name, true, opt, optFieldTy leaf false opt d.ty)

def varsTsL (leaf : Name → Ty) (optionalInput : Bool) (vars : List VarDef) : Ty :=
  .obj (vars.map (varFieldL leaf optionalInput))

/-- `get_type_for_variable_definitions` -/
def varsTs (c : Cfg) (vars : List VarDef) : Ty := varsTsL varLeaf c.optionalInput vars

end NitroVerif.VarTypes
