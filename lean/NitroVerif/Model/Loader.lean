/-
Model of crates/graphql-loader/src/{main.rs, tasks.rs, loader.rs}: the loader's exported calls as a state machine.

  St   = (next task id, live tasks, RESULT cell, abstract heap of leaked source buffers, dead flag)
  Task = (root file name, loaded files : path ↦ document, source_drop_list)
  step : St → Op → St × Resp

Parsing (`parse_operation_document` + `resolve_operation_extensions`), path resolution
(`resolve_relative_path`) and emission (`resolve_operation_imports` + `print_js`, for the fixed default
config) are parameters (`Env`), so the theorems hold for every parser / printer.
`HashMap`s are association lists that are only looked up / iterated as sets.
The heap is a ghost: it records, for each `Box::leak`ed source buffer, who owns it, how often it was
freed, whether a parsed document still borrows it, and whether a free was illegal (`bad`).
A trap (Rust panic: wasm `unreachable`, natively an abort because the ABI functions are `extern "C"`)
makes the instance unusable: `dead` is absorbing.
Core Lean only.
-/
namespace NitroVerif.Loader

/-! ### association lists (models of the two `HashMap`s) -/

def lookup {K V : Type} [DecidableEq K] : List (K × V) → K → Option V
  | [], _ => none
  | (k', v) :: r, k => if k' = k then some v else lookup r k

def erase {K V : Type} [DecidableEq K] (l : List (K × V)) (k : K) : List (K × V) :=
  l.filter (fun e => decide (e.1 ≠ k))

/-- `HashMap::insert`: any previous entry of the key is replaced -/
def insert {K V : Type} [DecidableEq K] (k : K) (v : V) (l : List (K × V)) : List (K × V) :=
  (k, v) :: erase l k

/-! ### parameters -/

inductive ErrKind where
  | taskNotFound                 -- `LoaderError::TaskNotFound` ("Task not found")
  | source (code : Nat)          -- any error that comes from the supplied sources (parse, extension, import, emission)
  deriving DecidableEq, Repr

inductive EmitRes (J : Type) where
  | js (j : J)
  | err (code : Nat)
  | trap                         -- a panic inside import resolution / the printer
  deriving DecidableEq, Repr

/-- a parsed document held in `loaded_files`: its (unresolved) import paths and the source text it borrows -/
structure Doc (P S : Type) where
  imports : List P
  src : S
  deriving DecidableEq, Repr

structure Env (P S J : Type) where
  /-- `parse_operation_document` then `resolve_operation_extensions`: error code, or the import paths in order -/
  parse : S → Except Nat (List P)
  /-- `resolve_relative_path(from_file, import_path)` -/
  resolve : P → P → P
  /-- `resolve_operation_imports((root, ..), TaskOperationResolver(task))` then `print_js` -/
  emit : P → (P → Option (Doc P S)) → EmitRes J

/-! ### state -/

structure Task (P S : Type) where
  root : P
  files : List (P × Doc P S)     -- `loaded_files`
  borrows : List (P × Nat)       -- ghost: the leaked buffer that the document at each path borrows
  drops : List Nat               -- `source_drop_list` (buffer ids)
  deriving DecidableEq, Repr

/-- one leaked source buffer (ghost record) -/
structure Buf where
  id : Nat
  owner : Option Nat             -- the task whose drop list holds it; `none` = the task of a failed `initiate_task`
  freed : Nat                    -- how many times it has been freed
  borrowed : Bool                -- a live parsed document borrows it
  bad : Bool                     -- it was freed while borrowed, or by a task that does not own it
  deriving DecidableEq, Repr

/-- contents of the `RESULT` cell -/
inductive Res (P J : Type) where
  | msg (e : ErrKind)
  | files (l : List P)
  | js (j : J)
  deriving DecidableEq, Repr

structure St (P S J : Type) where
  next : Nat
  tasks : List (Nat × Task P S)
  result : Option (Res P J)
  heap : List Buf
  dead : Bool
  deriving DecidableEq, Repr

def init {P S J : Type} : St P S J := { next := 1, tasks := [], result := none, heap := [], dead := false }

inductive Call (P S : Type) where
  | initiate (f : P) (s : S)
  | required (t : Nat)
  | load (t : Nat) (f : P) (s : S)
  | emit (t : Nat)
  | free (t : Nat)
  deriving DecidableEq, Repr

inductive Op (P S : Type) where
  | call (c : Call P S)
  | getResult                    -- `get_result_ptr` / `get_result_size`
  deriving DecidableEq, Repr

/-- what the caller observes: the return value together with the RESULT text the JS side reads right after it -/
inductive Resp (P J : Type) where
  | taskId (n : Nat)             -- `initiate_task` returned n (≠ 0)
  | failed (e : ErrKind)         -- the call returned 0 / false; RESULT holds the message
  | files (l : List P)           -- `get_required_files` returned true; RESULT holds the list
  | loaded                       -- `load_file` returned true
  | js (j : J)                   -- `emit_js` returned true; RESULT holds the module
  | freed                        -- `free_task` returns nothing
  | result (r : Res P J)         -- `get_result_*`
  | trap
  deriving DecidableEq, Repr

/-! ### heap operations -/

/-- the documents borrowing these buffers are dropped -/
def unborrow (ids : List Nat) (h : List Buf) : List Buf :=
  h.map fun b => if b.id ∈ ids then { b with borrowed := false } else b

/-- `String::from_raw_parts(..)` dropped for every entry of a drop list, by task `who` -/
def freeBufs (who : Option Nat) (ids : List Nat) (h : List Buf) : List Buf :=
  h.map fun b => if b.id ∈ ids then
      { b with freed := b.freed + ids.count b.id, bad := b.bad || b.borrowed || decide (b.owner ≠ who) }
    else b

/-- result of `Task::register_file` -/
structure Reg (P S : Type) where
  task : Task P S
  heap : List Buf
  err : Option Nat

/-- `Task::register_file`: leak the source, push it on the drop list, parse, insert (dropping a replaced document) -/
def register {P S J : Type} [DecidableEq P] (env : Env P S J) (who : Option Nat) (heap : List Buf)
    (task : Task P S) (f : P) (s : S) : Reg P S :=
  match env.parse s with
  | .error c =>
    { task := { task with drops := task.drops ++ [heap.length] }
      heap := heap ++ [{ id := heap.length, owner := who, freed := 0, borrowed := false, bad := false }]
      err := some c }
  | .ok imps =>
    { task := { task with drops := task.drops ++ [heap.length],
                          files := insert f { imports := imps, src := s } task.files,
                          borrows := insert f heap.length task.borrows }
      heap := unborrow ((task.borrows.filter fun e => decide (e.1 = f)).map (·.2)) heap
              ++ [{ id := heap.length, owner := who, freed := 0, borrowed := true, bad := false }]
      err := none }

/-- `Drop for Task`: clear `loaded_files` first, then free every buffer of the drop list -/
def dropTask {P S : Type} (who : Option Nat) (heap : List Buf) (task : Task P S) : List Buf :=
  freeBufs who task.drops (unborrow (task.borrows.map (·.2)) heap)

/-! ### `get_required_files` -/

/-- resolved import targets of all loaded files, in iteration order -/
def targets {P S J : Type} (env : Env P S J) (files : List (P × Doc P S)) : List P :=
  files.flatMap fun e => e.2.imports.map (env.resolve e.1)

def addNew {P : Type} [DecidableEq P] (acc : List P) (p : P) : List P := if p ∈ acc then acc else acc ++ [p]

def requiredOf {P S J : Type} [DecidableEq P] (env : Env P S J) (files : List (P × Doc P S)) : List P :=
  ((targets env files).filter fun p => (lookup files p).isNone).foldl addNew []

/-! ### the step function -/

def stepCall {P S J : Type} [DecidableEq P] (env : Env P S J) (σ : St P S J) : Call P S → St P S J × Resp P J
  | .initiate f s =>
    match env.parse s with
    | .error c =>
      -- the task is built, registration fails, the task is dropped; no id is consumed
      let r := register env none σ.heap { root := f, files := [], borrows := [], drops := [] } f s
      ({ σ with heap := dropTask none r.heap r.task, result := some (.msg (.source c)) }, .failed (.source c))
    | .ok _ =>
      let r := register env (some σ.next) σ.heap { root := f, files := [], borrows := [], drops := [] } f s
      ({ σ with next := σ.next + 1, tasks := (σ.next, r.task) :: σ.tasks, heap := r.heap }, .taskId σ.next)
  | .required t =>
    match lookup σ.tasks t with
    | none => ({ σ with result := some (.msg .taskNotFound) }, .failed .taskNotFound)
    | some task => ({ σ with result := some (.files (requiredOf env task.files)) }, .files (requiredOf env task.files))
  | .load t f s =>
    match lookup σ.tasks t with
    | none => ({ σ with result := some (.msg .taskNotFound) }, .failed .taskNotFound)
    | some task =>
      let r := register env (some t) σ.heap task f s
      match r.err with
      | some c => ({ σ with tasks := insert t r.task σ.tasks, heap := r.heap, result := some (.msg (.source c)) },
                   .failed (.source c))
      | none => ({ σ with tasks := insert t r.task σ.tasks, heap := r.heap }, .loaded)
  | .emit t =>
    match lookup σ.tasks t with
    | none => ({ σ with result := some (.msg .taskNotFound) }, .failed .taskNotFound)
    | some task =>
      match lookup task.files task.root with
      | none => ({ σ with dead := true }, .trap)          -- `expect("Root file should be present")`
      | some _ =>
        match env.emit task.root (lookup task.files) with
        | .js j => ({ σ with result := some (.js j) }, .js j)
        | .err c => ({ σ with result := some (.msg (.source c)) }, .failed (.source c))
        | .trap => ({ σ with dead := true }, .trap)
  | .free t =>
    match lookup σ.tasks t with
    | none => (σ, .freed)
    | some task => ({ σ with tasks := erase σ.tasks t, heap := dropTask (some t) σ.heap task }, .freed)

def step {P S J : Type} [DecidableEq P] (env : Env P S J) (σ : St P S J) (op : Op P S) : St P S J × Resp P J :=
  if σ.dead then (σ, .trap)
  else match op with
    | .call c => stepCall env σ c
    | .getResult =>
      match σ.result with
      | none => ({ σ with dead := true }, .trap)          -- `r.as_ref().unwrap()` on `None`
      | some r => (σ, .result r)

/-- final state of a history -/
def runSt {P S J : Type} [DecidableEq P] (env : Env P S J) (σ : St P S J) : List (Op P S) → St P S J
  | [] => σ
  | op :: h => runSt env (step env σ op).1 h

/-- responses of a history, call by call -/
def runResps {P S J : Type} [DecidableEq P] (env : Env P S J) (σ : St P S J) : List (Op P S) → List (Resp P J)
  | [] => []
  | op :: h => (step env σ op).2 :: runResps env (step env σ op).1 h

def Live {P S J : Type} (σ : St P S J) (t : Nat) : Prop := lookup σ.tasks t ≠ none

end NitroVerif.Loader
