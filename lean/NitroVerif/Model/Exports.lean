/-
Model of the naming / export decisions of the operation printers:

  crates/printer/src/operation_base_printer/mod.rs      OperationPrinter::print_document, operation_variable_name
  crates/printer/src/operation_base_printer/options.rs  OperationBasePrinterOptions::{default, from_config}
  crates/printer/src/operation_type_printer/visitor.rs  OperationTypePrinterOptions::from_config, the visitor (declaration file)
  crates/printer/src/operation_js_printer/{visitor,options}.rs   the visitor of the JavaScript module
  crates/config-file/src/{config,parse_config}.rs       defaults of absent keys
  crates/graphql-loader/src/{js_printer,loader,tasks}.rs the loader never calls `set_current_file_of_pos`
  crates/cli/src/generate.rs                            mode → extension of the declaration file
  crates/utils/src/capitalize.rs

A printed module is abstracted to the list of its top-level statements (`Stmt`): type aliases, constants (with the index
of the definition whose document they hold), and `export { X as default }`.  The type bodies and the JSON documents
are not modelled here (C01/C02/C12); the constant carries only the *index* of the definition it was printed from.
Strings are `List Char`; every theorem quantifies over arbitrary suffix strings.  Tied to the code by `harness/src/bin/c14.rs`.
-/
namespace NitroVerif.Exports

abbrev Str := List Char

inductive Kind where
  | query | mutation | subscription
  deriving DecidableEq, Repr, Inhabited

/-- one executable definition of the (import-resolved) document, as far as naming/exporting reads it.
    `imported` = the fragment's `position.file` differs from the document's (`resolve_operation_imports` appended it). -/
inductive Def where
  | op (kind : Kind) (name : Option Str)
  | frag (name : Str) (imported : Bool)
  deriving DecidableEq, Repr, Inhabited

abbrev File := List Def

inductive Mode where
  | withLoaderTs5 | withLoaderTs4 | standaloneTs4
  deriving DecidableEq, Repr, Inhabited

/-! ## configuration -/

/-- the keys of `extensions.nitrogql.generate` the operation printers read, as they appear in the config TEXT
    (`none` = key absent, or `null` for the keys that are `Option` in config.rs) -/
structure RawCfg where
  mode : Option Mode := none
  defaultExportForOperation : Option Bool := none
  operationResultType : Option Bool := none
  variablesType : Option Bool := none
  capitalizeOperationNames : Option Bool := none
  queryVariableSuffix : Option Str := none
  mutationVariableSuffix : Option Str := none
  subscriptionVariableSuffix : Option Str := none
  fragmentVariableSuffix : Option Str := none
  operationResultTypeSuffix : Option Str := none
  variablesTypeSuffix : Option Str := none
  fragmentTypeSuffix : Option Str := none
  deriving Repr, Inhabited

/-- `nitrogql_config_file::Config.generate` (the part read here): `mode` and the `export.*` flags are plain values with
    serde defaults, the `name.*` keys stay `Option` -/
structure Config where
  mode : Mode
  defaultExportForOperation : Bool
  operationResultType : Bool
  variablesType : Bool
  capitalizeOperationNames : Option Bool
  queryVariableSuffix : Option Str
  mutationVariableSuffix : Option Str
  subscriptionVariableSuffix : Option Str
  fragmentVariableSuffix : Option Str
  operationResultTypeSuffix : Option Str
  variablesTypeSuffix : Option Str
  fragmentTypeSuffix : Option Str
  deriving Repr, Inhabited

/-- `parse_config`: serde defaults (`GenerateMode::default`, `GenerateExportConfig::default`) -/
def Config.parse (r : RawCfg) : Config where
  mode := r.mode.getD .withLoaderTs5
  defaultExportForOperation := r.defaultExportForOperation.getD true
  operationResultType := r.operationResultType.getD false
  variablesType := r.variablesType.getD false
  capitalizeOperationNames := r.capitalizeOperationNames
  queryVariableSuffix := r.queryVariableSuffix
  mutationVariableSuffix := r.mutationVariableSuffix
  subscriptionVariableSuffix := r.subscriptionVariableSuffix
  fragmentVariableSuffix := r.fragmentVariableSuffix
  operationResultTypeSuffix := r.operationResultTypeSuffix
  variablesTypeSuffix := r.variablesTypeSuffix
  fragmentTypeSuffix := r.fragmentTypeSuffix

/-- `OperationBasePrinterOptions` -/
structure BaseOptions where
  defaultExportForOperation : Bool
  namedExportForOperation : Bool
  exportInputType : Bool
  exportResultType : Bool
  capitalizeOperationNames : Bool
  queryVariableSuffix : Str
  mutationVariableSuffix : Str
  subscriptionVariableSuffix : Str
  fragmentVariableSuffix : Str
  deriving Repr, Inhabited

/-- `clone_into(&Option<T>, &mut T)` -/
def cloneInto {α} (v : Option α) (target : α) : α := v.getD target

/-- `OperationBasePrinterOptions::from_config` (over `Default::default()`) -/
def BaseOptions.fromConfig (c : Config) : BaseOptions where
  defaultExportForOperation := c.defaultExportForOperation
  namedExportForOperation := !c.defaultExportForOperation
  exportInputType := c.variablesType
  exportResultType := c.operationResultType
  capitalizeOperationNames := cloneInto c.capitalizeOperationNames true
  queryVariableSuffix := cloneInto c.queryVariableSuffix "Query".toList
  mutationVariableSuffix := cloneInto c.mutationVariableSuffix "Mutation".toList
  subscriptionVariableSuffix := cloneInto c.subscriptionVariableSuffix "Subscription".toList
  fragmentVariableSuffix := cloneInto c.fragmentVariableSuffix []

/-- `OperationTypePrinterOptions` (the fields that decide statements and names) -/
structure TypeOptions where
  base : BaseOptions
  printValues : Bool
  variablesTypeSuffix : Str
  operationResultTypeSuffix : Str
  fragmentTypeSuffix : Str
  deriving Repr, Inhabited

/-- `OperationTypePrinterOptions::from_config` -/
def TypeOptions.fromConfig (c : Config) : TypeOptions where
  base := BaseOptions.fromConfig c
  printValues := c.mode == .standaloneTs4
  variablesTypeSuffix := cloneInto c.variablesTypeSuffix "Variables".toList
  operationResultTypeSuffix := cloneInto c.operationResultTypeSuffix "Result".toList
  fragmentTypeSuffix := cloneInto c.fragmentTypeSuffix []

/-- cli/generate.rs: `path.set_extension(match mode …)` -/
def declExtension : Mode → Str
  | .withLoaderTs5 => "d.graphql.ts".toList
  | .withLoaderTs4 => "graphql.d.ts".toList
  | .standaloneTs4 => "graphql.ts".toList

/-! ## names -/

/-- `nitrogql_utils::capitalize` on the domain of GraphQL names (`[_A-Za-z][_0-9A-Za-z]*`, grammar.pest `Name`):
    upper-case the first character, keep the rest -/
def capitalize : Str → Str
  | [] => []
  | c :: cs => c.toUpper :: cs

structure OpNames where
  operationName : Str
  operationVariableName : Str
  deriving DecidableEq, Repr, Inhabited

def suffixOf (o : BaseOptions) : Kind → Str
  | .query => o.queryVariableSuffix
  | .mutation => o.mutationVariableSuffix
  | .subscription => o.subscriptionVariableSuffix

/-- `operation_variable_name` -/
def operationVariableName (o : BaseOptions) (kind : Kind) (name : Option Str) : OpNames :=
  let capitalized :=
    if o.capitalizeOperationNames then (name.map capitalize).getD [] else name.getD []
  { operationName := capitalized, operationVariableName := capitalized ++ suffixOf o kind }

/-- the name of the constant `print_document` gives to a definition -/
def varName (o : BaseOptions) : Def → Str
  | .op k n => (operationVariableName o k n).operationVariableName
  | .frag n _ => n ++ o.fragmentVariableSuffix

/-! ## printed modules -/

inductive Stmt where
  /-- `[export] type N = …;` -/
  | typeAlias (name : Str) (exported : Bool)
  /-- `[export|declare] const N[: T][ = <document of definition doc>];` -/
  | const (name : Str) (doc : Nat) (exported : Bool) (ambient : Bool) (hasValue : Bool)
  /-- `export { L as default };` -/
  | exportDefault (localName : Str)
  deriving DecidableEq, Repr, Inhabited

abbrev Module := List Stmt

/-- `OperationPrinterVisitor` (header/trailer print no statement that is kept here: two `import type` lines) -/
structure Visitor where
  operation : OpNames → Nat → (exported exportInput exportResult : Bool) → Module
  fragment : (varName fragName : Str) → Nat → (exported : Bool) → Module
  defaultExport : OpNames → Module

def isOp : Def → Bool
  | .op _ _ => true
  | .frag _ _ => false

def operationCount (F : File) : Nat := (F.filter isOp).length

/-- the `for d in document.definitions` loop of `print_document`; `i` = index of the head definition -/
def printDefs (o : BaseOptions) (v : Visitor) (count : Nat) : Nat → File → Module
  | _, [] => []
  | i, .op k n :: rest =>
    let names := operationVariableName o k n
    v.operation names i o.namedExportForOperation o.exportInputType o.exportResultType
      ++ (if o.defaultExportForOperation && count == 1 then v.defaultExport names else [])
      ++ printDefs o v count (i + 1) rest
  | i, .frag n imported :: rest =>
    -- `exported = document.position.file == def.position.file`
    v.fragment (n ++ o.fragmentVariableSuffix) n i (!imported) ++ printDefs o v count (i + 1) rest

/-- `OperationPrinter::print_document` -/
def printDocument (o : BaseOptions) (v : Visitor) (F : File) : Module :=
  printDefs o v (operationCount F) 0 F

/-- `OperationTypePrinterVisitor` -/
def typeVisitor (t : TypeOptions) : Visitor where
  operation names i exported exportInput exportResult :=
    [ .typeAlias (names.operationName ++ t.operationResultTypeSuffix) exportResult,
      .typeAlias (names.operationName ++ t.variablesTypeSuffix) exportInput,
      .const names.operationVariableName i exported (!exported && !t.printValues) t.printValues ]
  fragment _varName fragName i exported :=
    -- the visitor recomputes the variable name from its own copy of the base options
    [ .typeAlias (fragName ++ t.fragmentTypeSuffix) exported,
      .const (fragName ++ t.base.fragmentVariableSuffix) i exported (!exported && !t.printValues) t.printValues ]
  defaultExport names := [ .exportDefault names.operationVariableName ]

/-- `OperationJSPrinterVisitor` -/
def jsVisitor : Visitor where
  operation names i exported _ _ := [ .const names.operationVariableName i exported false true ]
  fragment varName _ i exported := [ .const varName i exported false true ]
  defaultExport names := [ .exportDefault names.operationVariableName ]

/-- `print_types_for_operation_document(OperationTypePrinterOptions::from_config(c), …)`: the declaration file -/
def dts (c : Config) (F : File) : Module :=
  let t := TypeOptions.fromConfig c
  printDocument t.base (typeVisitor t) F

/-- `print_js_for_operation_document(OperationJSPrinterOptions::from_config(c), …)` on the same document -/
def js (c : Config) (F : File) : Module :=
  printDocument (BaseOptions.fromConfig c) jsVisitor F

/-- what the loader sees: every file it parses gets `Pos.file = 0` (it never calls `set_current_file_of_pos`),
    so no fragment is recognised as imported -/
def Def.asLocal : Def → Def
  | .op k n => .op k n
  | .frag n _ => .frag n false

/-- the module produced by the loader (`emit_js` → `print_js`) -/
def loaderJs (c : Config) (F : File) : Module := js c (F.map Def.asLocal)

/-! ## reading a module -/

def defaultName : Str := "default".toList

/-- all names exported by a module (types included) -/
def exports : Module → List Str
  | [] => []
  | .typeAlias n true :: r => n :: exports r
  | .typeAlias _ false :: r => exports r
  | .const n _ true _ _ :: r => n :: exports r
  | .const _ _ false _ _ :: r => exports r
  | .exportDefault _ :: r => defaultName :: exports r

/-- names under which a module exports a *value* (`export type` is not one) -/
def valueExports : Module → List Str
  | [] => []
  | .typeAlias _ _ :: r => valueExports r
  | .const n _ true _ _ :: r => n :: valueExports r
  | .const _ _ false _ _ :: r => valueExports r
  | .exportDefault _ :: r => defaultName :: valueExports r

/-- value exports as (exported name, local binding it refers to) -/
def exportRefs : Module → List (Str × Str)
  | [] => []
  | .typeAlias _ _ :: r => exportRefs r
  | .const n _ true _ _ :: r => (n, n) :: exportRefs r
  | .const _ _ false _ _ :: r => exportRefs r
  | .exportDefault l :: r => (defaultName, l) :: exportRefs r

/-- local names of the default-export statements, in order -/
def defaults : Module → List Str
  | [] => []
  | .exportDefault l :: r => l :: defaults r
  | _ :: r => defaults r

/-- the local name the default export refers to -/
def defaultOf (m : Module) : Option Str := (defaults m).head?

/-- the constants a module declares: (name, index of the definition whose document it holds) -/
def consts : Module → List (Str × Nat)
  | [] => []
  | .const n i _ _ _ :: r => (n, i) :: consts r
  | _ :: r => consts r

/-- candidates for a name among declared constants -/
def candidates (n : Str) : List (Str × Nat) → List Nat
  | [] => []
  | (m, i) :: r => if m = n then i :: candidates n r else candidates n r

/-- scope lookup: a name denotes a document iff exactly one constant of that name is declared
    (two `const` declarations of one name are an early error in an ES module / a redeclaration error in TypeScript) -/
def resolve (m : Module) (n : Str) : Option Nat :=
  match candidates n (consts m) with
  | [i] => some i
  | _ => none

/-- what each value export carries: (exported name, index of the definition whose document it is, if it resolves) -/
def carried (m : Module) : List (Str × Option Nat) :=
  (exportRefs m).map fun p => (p.1, resolve m p.2)

/-- names of all constants of the file, with the index of their definition: what both printers are expected to declare -/
def constsFrom (o : BaseOptions) : Nat → File → List (Str × Nat)
  | _, [] => []
  | i, d :: r => (varName o d, i) :: constsFrom o (i + 1) r

/-- operations of a file, as (kind, name) -/
def ops : File → List (Kind × Option Str)
  | [] => []
  | .op k n :: r => (k, n) :: ops r
  | .frag _ _ :: r => ops r

def Def.isImported : Def → Bool
  | .frag _ b => b
  | .op _ _ => false

/-- no two definitions of the file get the same constant name (decidable side condition of `C14_same_document_partial`) -/
def NoCollision (c : Config) (F : File) : Prop :=
  ((constsFrom (BaseOptions.fromConfig c) 0 F).map Prod.fst).Nodup

instance (c : Config) (F : File) : Decidable (NoCollision c F) := by
  unfold NoCollision; infer_instance

/-- reserved words that cannot be a `const` binding in an ES module (ECMAScript 2023 §12.7.2, module code) -/
def reservedWords : List Str :=
  ["await", "break", "case", "catch", "class", "const", "continue", "debugger", "default", "delete", "do", "else", "enum",
   "export", "extends", "false", "finally", "for", "function", "if", "import", "in", "instanceof", "new", "null", "return",
   "super", "switch", "this", "throw", "true", "try", "typeof", "var", "void", "while", "with", "yield", "let", "static",
   "implements", "interface", "package", "private", "protected", "public", "arguments", "eval"].map String.toList

/-- can the text be the name of a `const` binding (for names made of identifier characters)? -/
def validBinding (n : Str) : Bool := !n.isEmpty && !reservedWords.contains n

end NitroVerif.Exports
