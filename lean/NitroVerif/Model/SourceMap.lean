/-
Model of crates/sourcemap-writer (C06):

  base64_vlq/mod.rs                 → `base64Chars`, `b64Char`, `vlqRest`, `vlqEncode`, `vlqStr`
  source_writer/mapping_writer.rs   → `MState`, `addEntry` (`addEntry?` = the same with the debug-build panics)
  source_writer/name_mapper.rs      → `NState`, `mapName` (the `lru` crate is a parameter: a `Policy`)
  source_writer/utf16_len.rs        → `utf16Len`
  source_writer.rs                  → `WState`, `flushIndent`, `write`, `writeFor`, `indent`, `dedent`, `run`
  cli/src/generate.rs (FileMap)     → `fileIndices`, `sourceFiles`

Text is `List Char` everywhere (proofs are by induction, never by evaluation of `String`).
Integers: Rust `usize` values are `Nat`, `isize` values are `Int`; `x as isize` is `toIsize`.
`isize` subtraction is exact here; `addEntry?` additionally returns `none` where a debug build
panics (isize overflow of a delta, `generated_line - last_generated_line` underflow).
Core Lean only.
-/
namespace NitroVerif.SourceMap

/-! ## base64_vlq/mod.rs -/

/-- `BASE64_CHARS` (64 entries, copied in order from the Rust table) -/
def base64Chars : List Char :=
  ['A', 'B', 'C', 'D', 'E', 'F', 'G', 'H', 'I', 'J', 'K', 'L', 'M', 'N', 'O', 'P', 'Q', 'R', 'S',
   'T', 'U', 'V', 'W', 'X', 'Y', 'Z', 'a', 'b', 'c', 'd', 'e', 'f', 'g', 'h', 'i', 'j', 'k', 'l',
   'm', 'n', 'o', 'p', 'q', 'r', 's', 't', 'u', 'v', 'w', 'x', 'y', 'z', '0', '1', '2', '3', '4',
   '5', '6', '7', '8', '9', '+', '/']

/-- `BASE64_CHARS[d]` (the Rust indexing panics for d ≥ 64; `vlq_wellformed` shows it is never reached) -/
def b64Char (d : Nat) : Char := base64Chars.getD d '?'

/-- the `while value > 0` loop: 5 bits per digit, continuation bit 0b100000 iff more follows -/
def vlqRest (v : Nat) : List Nat :=
  if h : v = 0 then []
  else (if v / 32 > 0 then 32 + v % 32 else v % 32) :: vlqRest (v / 32)
termination_by v
decreasing_by omega

/-- `base64_vlq(input)` as a list of base64 digit values (each < 64).
    sign bit = `input < 0`, value = `input.unsigned_abs()`; one digit when value < 16. -/
def vlqEncode (n : Int) : List Nat :=
  let sign := if n < 0 then 1 else 0
  let v := n.natAbs
  if v < 16 then [sign + 2 * v]
  else (sign + 2 * (v % 16) + 32) :: vlqRest (v / 16)

/-- `base64_vlq(input)` as text -/
def vlqStr (n : Int) : List Char := (vlqEncode n).map b64Char

/-! ## integer conversions -/

/-- `x as isize` for a `usize` x on a 64-bit target (two's complement reinterpretation) -/
def toIsize (n : Nat) : Int :=
  if n % 2 ^ 64 < 2 ^ 63 then ((n % 2 ^ 64 : Nat) : Int) else ((n % 2 ^ 64 : Nat) : Int) - 2 ^ 64

def inIsize (x : Int) : Bool := decide (-(2 : Int) ^ 63 ≤ x) && decide (x < (2 : Int) ^ 63)

/-! ## mapping_writer.rs -/

structure Entry where
  genLine : Nat
  genCol : Nat
  origLine : Nat
  origCol : Nat
  src : Nat
  name : Option Nat
  deriving Repr, DecidableEq, Inhabited

/-- `MappingWriter` (the `last_*` fields). `log` is a ghost field (not in the Rust code): the
    entries added so far, in order; nothing computes from it. -/
structure MState where
  buf : List Char
  lastGenLine : Nat
  lastGenCol : Nat
  lastOrigLine : Nat
  lastOrigCol : Nat
  lastName : Nat
  lastSrc : Nat
  log : List Entry
  deriving Repr

def MState.init : MState := ⟨[], 0, 0, 0, 0, 0, 0, []⟩

/-- the text `add_entry` appends for entry `e` in state `st` -/
def emit (st : MState) (e : Entry) : List Char :=
  let isNewline := st.lastGenLine != e.genLine
  List.replicate (e.genLine - st.lastGenLine) ';'
  ++ (if isNewline then vlqStr (toIsize e.genCol)
      else ',' :: vlqStr (toIsize e.genCol - toIsize st.lastGenCol))
  ++ vlqStr (toIsize e.src - toIsize st.lastSrc)
  ++ vlqStr (toIsize e.origLine - toIsize st.lastOrigLine)
  ++ vlqStr (toIsize e.origCol - toIsize st.lastOrigCol)
  ++ (match e.name with
      | some n => vlqStr (toIsize n - toIsize st.lastName)
      | none => [])

/-- `MappingWriter::add_entry` -/
def addEntry (st : MState) (e : Entry) : MState :=
  { buf := st.buf ++ emit st e
    lastGenLine := e.genLine
    lastGenCol := e.genCol
    lastOrigLine := e.origLine
    lastOrigCol := e.origCol
    lastName := (match e.name with | some n => n | none => st.lastName)
    lastSrc := e.src
    log := st.log ++ [e] }

/-- where a debug build of `add_entry` panics: usize underflow of the line difference, isize overflow of a delta -/
def addEntryPanics (st : MState) (e : Entry) : Bool :=
  decide (e.genLine < st.lastGenLine)
  || (st.lastGenLine == e.genLine && !inIsize (toIsize e.genCol - toIsize st.lastGenCol))
  || !inIsize (toIsize e.src - toIsize st.lastSrc)
  || !inIsize (toIsize e.origLine - toIsize st.lastOrigLine)
  || !inIsize (toIsize e.origCol - toIsize st.lastOrigCol)
  || (match e.name with
      | some n => !inIsize (toIsize n - toIsize st.lastName)
      | none => false)

def addEntry? (st : MState) (e : Entry) : Option MState :=
  if addEntryPanics st e then none else some (addEntry st e)

/-- all entries through a fresh `MappingWriter`, then `into_buffer` -/
def encodeAll (es : List Entry) : List Char := (es.foldl addEntry MState.init).buf

/-! ## name_mapper.rs -/

/-- The cache (`lru::LruCache<String, usize>`) is abstracted by its contents (key/value pairs) and a
    *policy*: after every access with key `k` the policy rewrites the contents (re-ordering, eviction).
    The only thing the theorems assume is `Policy.Sound`: a policy never invents an entry. -/
abbrev Policy := List Char → List (List Char × Nat) → List (List Char × Nat)

def Policy.Sound (p : Policy) : Prop := ∀ k l x, x ∈ p k l → x ∈ l

structure NState where
  names : List (List Char)
  cache : List (List Char × Nat)
  deriving Repr

def NState.init : NState := ⟨[], []⟩

def cacheGet (cache : List (List Char × Nat)) (k : List Char) : Option Nat :=
  match cache with
  | [] => none
  | (k', v) :: rest => if k' = k then some v else cacheGet rest k

/-- `NameMapper::map_name` -/
def mapName (p : Policy) (st : NState) (name : List Char) : NState × Nat :=
  match cacheGet st.cache name with
  | some i => ({ st with cache := p name st.cache }, i)
  | none =>
    let i := st.names.length
    ({ names := st.names ++ [name], cache := p name ((name, i) :: st.cache) }, i)

/-- the policy of `LruCache` with capacity `NAME_MEMORY_SIZE = 10`: the accessed key moves to the
    front, the least recently used entries beyond the capacity are dropped -/
def lruPolicy : Policy := fun k l =>
  ((l.filter (fun x => x.1 = k)) ++ (l.filter (fun x => !(x.1 = k)))).take 10

/-! ## utf16_len.rs -/

def utf16Char (c : Char) : Nat := if c.toNat < 0x10000 then 1 else 2

def utf16Len : List Char → Nat
  | [] => 0
  | c :: cs => utf16Char c + utf16Len cs

/-! ## source_writer.rs -/

/-- what `HasPos` gives: `position()` and `name()` -/
structure Node where
  line : Nat
  col : Nat
  file : Nat
  builtin : Bool
  name : Option (List Char)
  deriving Repr, DecidableEq

/-- `SourceWriter`; `indent_str` is always `" ".repeat(indent)` and is not stored -/
structure WState where
  buf : List Char
  mapping : MState
  names : NState
  mapper : Option (List Nat)
  indent : Nat
  pending : Bool
  line : Nat
  col : Nat
  deriving Repr

def WState.init : WState := ⟨[], MState.init, NState.init, none, 0, false, 0, 0⟩

/-- `chunk.split('\n')` (generic separator) — never returns the empty list -/
def splitOn (sep : Char) : List Char → List (List Char)
  | [] => [[]]
  | c :: cs =>
    if c = sep then [] :: splitOn sep cs
    else match splitOn sep cs with
      | [] => [[c]]
      | l :: ls => (c :: l) :: ls

def flushIndent (st : WState) : WState :=
  if st.pending then
    { st with buf := st.buf ++ List.replicate st.indent ' ', col := st.col + st.indent, pending := false }
  else st

/-- the part of the loop body in `write` that handles one line of the chunk -/
def writeLine (st : WState) (l : List Char) : WState :=
  if l.isEmpty then st
  else
    let st := flushIndent st
    { st with buf := st.buf ++ l, col := st.col + utf16Len l }

/-- the `idx > 0` part of the loop body in `write` -/
def newline (st : WState) : WState :=
  { st with buf := st.buf ++ ['\n'], pending := true, line := st.line + 1, col := 0 }

def writeLines (st : WState) : List (List Char) → WState
  | [] => st
  | l :: ls => writeLines (writeLine (newline st) l) ls

/-- `SourceWriter::write` -/
def write (st : WState) (chunk : List Char) : WState :=
  match splitOn '\n' chunk with
  | [] => st
  | l :: ls => writeLines (writeLine st l) ls

def wAddEntry (st : WState) (e : Entry) : WState := { st with mapping := addEntry st.mapping e }

/-- `SourceWriter::write_for`; `none` = the index panic of `map[original_pos.file]` -/
def writeFor (p : Policy) (st : WState) (chunk : List Char) (node : Node) : Option WState :=
  if node.builtin then some (write st chunk)
  else
    let fileIndex? : Option Nat := match st.mapper with
      | none => some node.file
      | some m => m[node.file]?
    match fileIndex? with
    | none => none
    | some fileIndex =>
      match node.name with
      | some nm =>
        let (ns, idx) := mapName p st.names nm
        let st := flushIndent { st with names := ns }
        let st := wAddEntry st ⟨st.line, st.col, node.line, node.col, fileIndex, some idx⟩
        let st := write st chunk
        some (wAddEntry st ⟨st.line, st.col, node.line, node.col + utf16Len nm, fileIndex, none⟩)
      | none =>
        let st := wAddEntry st ⟨st.line, st.col, node.line, node.col, fileIndex, none⟩
        some (write st chunk)

inductive Op where
  | write (chunk : List Char)
  | writeFor (chunk : List Char) (node : Node)
  | indent
  | dedent
  | setMapper (m : List Nat)
  deriving Repr

def step (p : Policy) (st : WState) : Op → Option WState
  | .write c => some (write st c)
  | .writeFor c n => writeFor p st c n
  | .indent => some { st with indent := st.indent + 2 }
  | .dedent => some { st with indent := st.indent - 2 }
  | .setMapper m => some { st with mapper := some m }

def run (p : Policy) (st : WState) : List Op → Option WState
  | [] => some st
  | op :: ops => match step p st op with
    | none => none
    | some st' => run p st' ops

/-- the (line, column) cursor at the end of a text: lines are separated by '\n', columns count UTF-16 units -/
def cursorFrom (lc : Nat × Nat) : List Char → Nat × Nat
  | [] => lc
  | c :: cs => if c = '\n' then cursorFrom (lc.1 + 1, 0) cs else cursorFrom (lc.1, lc.2 + utf16Char c) cs

def cursorOf (s : List Char) : Nat × Nat := cursorFrom (0, 0) s

/-! ## cli/src/generate.rs : FileMap -/

/-- `usize::MAX`, the "not a source of this output" marker of `FileMap::file_indices` -/
def usizeMax : Nat := 2 ^ 64 - 1

/-- the `.map(|(idx, (_, _, kind))| …)` closure over `FileStore::iter()` (schema files first, then
    operation files) with its mutable counter `next_source_index`; `idx` = current file-store index,
    `r` = files left. `used` = file-store indices of the operation files the document's definitions
    come from (the file itself and the files its fragments are imported from). -/
def fileIndicesOpGo (nSchema : Nat) (used : List Nat) : Nat → Nat → Nat → List Nat
  | _, _, 0 => []
  | idx, next, r + 1 =>
    if idx < nSchema then idx :: fileIndicesOpGo nSchema used (idx + 1) next r
    else if used.contains idx then next :: fileIndicesOpGo nSchema used (idx + 1) (next + 1) r
    else usizeMax :: fileIndicesOpGo nSchema used (idx + 1) next r

/-- `file_indices` for the declaration file of an operation document (after the repair 777cac3;
    before it only the document's own file was kept and imported files were mapped to `usize::MAX`). -/
def fileIndicesOp (nSchema nOps : Nat) (used : List Nat) : List Nat :=
  fileIndicesOpGo nSchema used 0 nSchema (nSchema + nOps)

/-- the pinned behaviour before the repair: only `own` is kept -/
def fileIndicesOpOld (nSchema nOps own : Nat) : List Nat :=
  (List.range (nSchema + nOps)).map fun idx =>
    if idx < nSchema then idx else if idx = own then nSchema else usizeMax

/-- `fileIndices` for the schema / resolvers output -/
def fileIndicesSchema (nSchema nOps : Nat) : List Nat :=
  (List.range (nSchema + nOps)).map fun idx => if idx < nSchema then idx else usizeMax

/-- `source_files` of `write_file_and_sourcemap`: file-store indices kept, in store order -/
def sourceFilesGo : Nat → List Nat → List Nat
  | _, [] => []
  | idx, m :: ms => if m = usizeMax then sourceFilesGo (idx + 1) ms else idx :: sourceFilesGo (idx + 1) ms

def sourceFiles (fileIndices : List Nat) : List Nat := sourceFilesGo 0 fileIndices

end NitroVerif.SourceMap
