/-
PEG interpreter: an executable model of the parser that `pest_generator` 2.7 generates from a grammar
(`pest_generator/src/generator.rs`) running on `pest`'s `ParserState` (`pest/src/parser_state.rs`).
The grammar it runs is GENERATED (`Gen/Grammar.lean`, by `translate/pest2lean.py` from grammar.pest).

Faithful points (each read off the two files above):
* code generation is static per rule: the body of an `@`/`$` rule (and of WHITESPACE / COMMENT) is generated
  by `generate_expr_atomic` (no `skip` calls, `e*` = `repeat(e)`), the body of every other rule by
  `generate_expr` (`a ~ b` = `sequence(a, skip, b)`, `e*` = `sequence(optional(e (sequence(skip, e))*))`);
  the flag `sk` below is that static choice;
* `skip` does something only when the DYNAMIC atomicity is NonAtomic:
  `sequence(WHITESPACE* (COMMENT WHITESPACE*)*)`;
* `state.rule(R, f)`: a Start/End token pair (here: one `Pair` node with the tokens produced by `f` as
  children) iff lookahead = None and the atomicity seen by `rule` is not Atomic; otherwise the inner tokens
  stay where they are (they become children of the nearest enclosing emitting rule);
  `@` = `rule(R, atomic(Atomic, body))`, `$` = `atomic(CompoundAtomic, rule(R, body))`,
  `!` = `atomic(NonAtomic, rule(R, body))`, `_` = body; WHITESPACE/COMMENT run `atomic(Atomic, body)`;
* `lookahead`: None/Positive → Negative under `!`, Negative → Positive under `!`; `&` keeps Negative;
  position restored, no tokens inside;
* failure leaves the position where it was (`sequence` restores; every other combinator relies on that);
* error position: `attempt_pos` is the maximal start position of a rule whose failure (or, under negative
  lookahead, success) is `track`ed; `track` does nothing when the atomicity seen by `rule` is Atomic.
  (The `pos_attempts`/`neg_attempts` lists only feed the message, never the position: the early return of
  `track` requires `attempt_pos = pos` already.)
* `e+` is `e ~ e*` and `e{n}` is `e ~ … ~ e` (pest_meta's unroller without `grammar-extras`). The other
  pest_meta optimizer passes (rotater, concatenator, factorizer, lister, skipper) rewrite an expression
  into one with the same result, tokens and tracked positions (they only avoid re-running a deterministic
  common prefix), so the un-optimized grammar is interpreted; K compares the result on every text.

Offsets are counted in code points (the input is a `List Char`); pest counts bytes but only ever converts
them to (line, column-in-code-points) or to the text of a span, which are the same in both countings.

Everything is structurally recursive on `fuel` (depth bound), so the kernel can evaluate it.
-/
namespace NitroVerif.Peg

abbrev RuleId := Nat

inductive RuleKind where
  | normal | silent | atomic | compound | nonAtomic
  deriving DecidableEq, Repr, Inhabited

inductive Expr where
  | str (s : List Char)
  | insens (s : List Char)
  | range (lo hi : Char)
  | any
  | soi
  | eoi
  | seq (a b : Expr)
  | choice (a b : Expr)
  | star (e : Expr)
  | plus (e : Expr)
  | opt (e : Expr)
  | rep (n : Nat) (e : Expr)
  | not (e : Expr)
  | and (e : Expr)
  | call (r : RuleId)
  deriving Repr, Inhabited

/-- a matched rule: `(rule, start, end, children)`; offsets in code points -/
inductive Pair where
  | mk (rule : RuleId) (start stop : Nat) (children : List Pair)
  deriving Repr, Inhabited

namespace Pair
def rule : Pair → RuleId | mk r _ _ _ => r
def start : Pair → Nat | mk _ s _ _ => s
def stop : Pair → Nat | mk _ _ e _ => e
def children : Pair → List Pair | mk _ _ _ c => c
end Pair

inductive Atomicity where
  | nonAtomic | atomic | compound
  deriving DecidableEq, Repr, Inhabited

inductive Look where
  | none | pos | neg
  deriving DecidableEq, Repr, Inhabited

/-- the grammar as the interpreter sees it: a lookup function and the two implicitly skipped rules -/
structure G where
  look : RuleId → Option (RuleKind × Expr)
  ws : Option RuleId
  cm : Option RuleId

/-- lookup in a rule table whose i-th entry has id i (the generated table; `Gen.grammar_dense`) -/
def lookList (g : List (RuleId × RuleKind × Expr)) (r : RuleId) : Option (RuleKind × Expr) :=
  match g[r]? with
  | some (_, k, e) => some (k, e)
  | none => none

def G.ofList (g : List (RuleId × RuleKind × Expr)) (ws cm : Option RuleId) : G :=
  { look := lookList g, ws, cm }

/-- same table, array-backed (O(1) lookup for the compiled driver); `G.ofArray_look` ties it to `ofList` -/
def G.ofArray (g : Array (RuleId × RuleKind × Expr)) (ws cm : Option RuleId) : G :=
  { look := fun r => match g[r]? with
      | some (_, k, e) => some (k, e)
      | none => none,
    ws, cm }

theorem G.ofArray_look (g : List (RuleId × RuleKind × Expr)) (ws cm : Option RuleId) (r : RuleId) :
    (G.ofArray g.toArray ws cm).look r = (G.ofList g ws cm).look r := by
  simp [G.ofArray, G.ofList, lookList]

/-- `skip` of the generated parser (generator.rs `generate_skip`), as an expression run with `sk = false` -/
def G.skipExpr (g : G) : Option Expr :=
  match g.ws, g.cm with
  | none, none => none
  | some w, none => some (.star (.call w))
  | none, some c => some (.star (.call c))
  | some w, some c => some (.seq (.star (.call w)) (.star (.seq (.call c) (.star (.call w)))))

/-- cursor: offset and the input from there on (`rest = input.drop pos`) -/
structure Cur where
  pos : Nat
  rest : List Char
  deriving Repr, Inhabited

/-- monotone trace: pest's `attempt_pos` and a count of rule calls -/
structure Tr where
  att : Nat := 0
  steps : Nat := 0
  deriving Repr, Inhabited

inductive Out where
  | ok (c : Cur) (ps : List Pair)
  | fail
  /-- the depth bound was hit (never on the inputs K runs; reported as such by the driver) -/
  | oof
  deriving Repr, Inhabited

def matchStr : List Char → List Char → Option (List Char)
  | [], r => some r
  | _ :: _, [] => none
  | c :: cs, d :: r => if c = d then matchStr cs r else none

def asciiLower (c : Char) : Char :=
  if 'A' ≤ c ∧ c ≤ 'Z' then Char.ofNat (c.toNat + 32) else c

/-- `match_insensitive`: ASCII case-insensitive -/
def matchInsens : List Char → List Char → Option (List Char)
  | [], r => some r
  | _ :: _, [] => none
  | c :: cs, d :: r => if asciiLower c = asciiLower d then matchInsens cs r else none

/-- `e{n}` unrolled -/
def unroll : Nat → Expr → Expr
  | 0, e => e
  | 1, e => e
  | n + 2, e => .seq e (unroll (n + 1) e)

def lookNot : Look → Look
  | .none => .neg | .pos => .neg | .neg => .pos
def lookAnd : Look → Look
  | .none => .pos | .pos => .pos | .neg => .neg

/-- `ParserState::track`, position part -/
def track (tr : Tr) (seen : Atomicity) (pos : Nat) : Tr :=
  if seen = .atomic then tr else { tr with att := max tr.att pos }

/-- result of `state.rule(r, f)` given the result of `f` -/
def ruleWrap (r : RuleId) (seen : Atomicity) (la : Look) (c : Cur) (res : Tr × Out) : Tr × Out :=
  match res with
  | (tr, .ok c' ps) =>
    (if la = .neg then track tr seen c.pos else tr,
     .ok c' (if la = .none ∧ seen ≠ .atomic then [Pair.mk r c.pos c'.pos ps] else ps))
  | (tr, .fail) => (if la ≠ .neg then track tr seen c.pos else tr, .fail)
  | (tr, .oof) => (tr, .oof)

mutual
/-- evaluate an expression. `sk`: the enclosing rule body was generated by `generate_expr` (with skip calls) -/
def eval (g : G) : Nat → Bool → Expr → Atomicity → Look → Tr → Cur → Tr × Out
  | 0, _, _, _, _, tr, _ => (tr, .oof)
  | fuel + 1, sk, e, at_, la, tr, c =>
    match e with
    | .str s =>
      match matchStr s c.rest with
      | some r => (tr, .ok ⟨c.pos + s.length, r⟩ [])
      | none => (tr, .fail)
    | .insens s =>
      match matchInsens s c.rest with
      | some r => (tr, .ok ⟨c.pos + s.length, r⟩ [])
      | none => (tr, .fail)
    | .range lo hi =>
      match c.rest with
      | d :: r => if lo ≤ d ∧ d ≤ hi then (tr, .ok ⟨c.pos + 1, r⟩ []) else (tr, .fail)
      | [] => (tr, .fail)
    | .any =>
      match c.rest with
      | _ :: r => (tr, .ok ⟨c.pos + 1, r⟩ [])
      | [] => (tr, .fail)
    | .soi => if c.pos = 0 then (tr, .ok c []) else (tr, .fail)
    | .eoi => match c.rest with
      | [] => (tr, .ok c [])
      | _ :: _ => (tr, .fail)
    | .seq a b =>
      match eval g fuel sk a at_ la tr c with
      | (tr1, .ok c1 p1) =>
        match doSkip g fuel sk at_ la tr1 c1 with
        | (tr2, .ok c2 p2) =>
          match eval g fuel sk b at_ la tr2 c2 with
          | (tr3, .ok c3 p3) => (tr3, .ok c3 (p1 ++ p2 ++ p3))
          | r => r
        | r => r
      | r => r
    | .choice a b =>
      match eval g fuel sk a at_ la tr c with
      | (tr1, .fail) => eval g fuel sk b at_ la tr1 c
      | r => r
    | .opt a =>
      match eval g fuel sk a at_ la tr c with
      | (tr1, .fail) => (tr1, .ok c [])
      | r => r
    | .star a =>
      if sk then
        -- sequence(optional(a.and_then(repeat(sequence(skip.and_then(a))))))
        match eval g fuel sk a at_ la tr c with
        | (tr1, .ok c1 p1) =>
          match starRest g fuel a at_ la tr1 c1 with
          | (tr2, .ok c2 p2) => (tr2, .ok c2 (p1 ++ p2))
          | r => r
        | (tr1, .fail) => (tr1, .ok c [])
        | r => r
      else
        -- repeat(a)
        match eval g fuel sk a at_ la tr c with
        | (tr1, .ok c1 p1) =>
          match eval g fuel sk (.star a) at_ la tr1 c1 with
          | (tr2, .ok c2 p2) => (tr2, .ok c2 (p1 ++ p2))
          | r => r
        | (tr1, .fail) => (tr1, .ok c [])
        | r => r
    | .plus a => eval g fuel sk (.seq a (.star a)) at_ la tr c
    | .rep n a => eval g fuel sk (unroll n a) at_ la tr c
    | .not a =>
      match eval g fuel sk a at_ (lookNot la) tr c with
      | (tr1, .ok _ _) => (tr1, .fail)
      | (tr1, .fail) => (tr1, .ok c [])
      | r => r
    | .and a =>
      match eval g fuel sk a at_ (lookAnd la) tr c with
      | (tr1, .ok _ _) => (tr1, .ok c [])
      | r => r
    | .call r => callRule g fuel r at_ la tr c

/-- `super::hidden::skip(state)` where the code generator put it -/
def doSkip (g : G) : Nat → Bool → Atomicity → Look → Tr → Cur → Tr × Out
  | 0, _, _, _, tr, _ => (tr, .oof)
  | fuel + 1, sk, at_, la, tr, c =>
    if sk ∧ at_ = .nonAtomic then
      match g.skipExpr with
      | some e => eval g fuel false e at_ la tr c
      | none => (tr, .ok c [])
    else (tr, .ok c [])

/-- `repeat(sequence(skip.and_then(a)))` (the tail of `a*` in a rule generated with skip calls) -/
def starRest (g : G) : Nat → Expr → Atomicity → Look → Tr → Cur → Tr × Out
  | 0, _, _, _, tr, _ => (tr, .oof)
  | fuel + 1, a, at_, la, tr, c =>
    match doSkip g fuel true at_ la tr c with
    | (tr1, .ok c1 p1) =>
      match eval g fuel true a at_ la tr1 c1 with
      | (tr2, .ok c2 p2) =>
        match starRest g fuel a at_ la tr2 c2 with
        | (tr3, .ok c3 p3) => (tr3, .ok c3 (p1 ++ p2 ++ p3))
        | r => r
      | (tr2, .fail) => (tr2, .ok c [])
      | r => r
    | (tr1, .fail) => (tr1, .ok c [])
    | r => r

/-- a call of rule `r` (generator.rs `generate_rule`) -/
def callRule (g : G) : Nat → RuleId → Atomicity → Look → Tr → Cur → Tr × Out
  | 0, _, _, _, tr, _ => (tr, .oof)
  | fuel + 1, r, at_, la, tr, c =>
    match g.look r with
    | none => (tr, .fail)
    | some (kind, body) =>
      let tr := { tr with steps := tr.steps + 1 }
      let special := g.ws = some r ∨ g.cm = some r
      match kind with
      | .silent =>
        if special then eval g fuel false body .atomic la tr c
        else eval g fuel true body at_ la tr c
      | .normal =>
        if special then ruleWrap r at_ la c (eval g fuel false body .atomic la tr c)
        else ruleWrap r at_ la c (eval g fuel true body at_ la tr c)
      | .atomic => ruleWrap r at_ la c (eval g fuel false body .atomic la tr c)
      | .compound => ruleWrap r .compound la c (eval g fuel false body .compound la tr c)
      | .nonAtomic => ruleWrap r .nonAtomic la c (eval g fuel true body .nonAtomic la tr c)
end

/-- result of `Parser::parse(rule, input)` -/
inductive ParseResult where
  | pairs (ps : List Pair)
  /-- `Err(Error::new_from_pos(…, attempt_pos))` -/
  | error (attemptPos : Nat)
  | outOfFuel
  deriving Repr, Inhabited

/-- `pest::state(input, |s| rules::r(s))`, with the trace -/
def runTr (g : G) (fuel : Nat) (r : RuleId) (input : List Char) : Tr × ParseResult :=
  match callRule g fuel r .nonAtomic .none {} ⟨0, input⟩ with
  | (tr, .ok _ ps) => (tr, .pairs ps)
  | (tr, .fail) => (tr, .error tr.att)
  | (tr, .oof) => (tr, .outOfFuel)

def parse (g : G) (fuel : Nat) (r : RuleId) (input : List Char) : ParseResult :=
  (runTr g fuel r input).2

/-- the signature of DESIGN Appendix B: run rule `r` on `input` from `offset` under atomicity `at_` -/
def run (g : G) (fuel : Nat) (r : RuleId) (input : List Char) (offset : Nat) (at_ : Atomicity) :
    Option (Nat × List Pair) :=
  match callRule g fuel r at_ .none {} ⟨offset, input.drop offset⟩ with
  | (_, .ok c ps) => some (c.pos, ps)
  | _ => none

/-- a depth bound that is ample for every input (the recursion depth of the interpreter is linear in the
    input length: each loop iteration and each nested rule consumes at least one character or is one of
    boundedly many nested nullable/alternative steps) -/
def defaultFuel (input : List Char) : Nat := 64 * input.length + 4096

/-! ### positions and text -/

/-- `Pair::line_col` / `Position::line_col` made 0-based: (number of '\n' before the offset, number of code
    points since the last one). Both pest functions compute this (the `\r\n` special case of
    `Position::line_col` gives the same numbers). -/
def lineColFrom : List Char → Nat → Nat → Nat → Nat × Nat
  | _, 0, l, c => (l, c)
  | [], _ + 1, l, c => (l, c)
  | ch :: r, n + 1, l, c => if ch = '\n' then lineColFrom r n (l + 1) 0 else lineColFrom r n l (c + 1)

def lineCol (input : List Char) (off : Nat) : Nat × Nat := lineColFrom input off 0 0

/-- inverse direction: the offset of a (line, column) -/
def offsetOfFrom : List Char → Nat → Nat → Nat → Option Nat
  | r, 0, col, acc => if col ≤ (r.takeWhile (· ≠ '\n')).length then some (acc + col) else none
  | [], _ + 1, _, _ => none
  | ch :: r, l + 1, col, acc => if ch = '\n' then offsetOfFrom r l col (acc + 1) else offsetOfFrom r (l + 1) col (acc + 1)

def offsetOf (input : List Char) (lc : Nat × Nat) : Option Nat := offsetOfFrom input lc.1 lc.2 0

/-- `Pair::as_str` -/
def slice (input : List Char) (start stop : Nat) : List Char := (input.drop start).take (stop - start)

/-- table of `lineCol input off` for `off = 0 … input.length` (one pass; used by the builders) -/
def lineColTableFrom : List Char → Nat → Nat → Array (Nat × Nat) → Array (Nat × Nat)
  | [], l, c, acc => acc.push (l, c)
  | ch :: r, l, c, acc =>
    if ch = '\n' then lineColTableFrom r (l + 1) 0 (acc.push (l, c)) else lineColTableFrom r l (c + 1) (acc.push (l, c))

def lineColTable (input : List Char) : Array (Nat × Nat) := lineColTableFrom input 0 0 #[]

end NitroVerif.Peg
