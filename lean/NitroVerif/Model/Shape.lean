/-
Reflection for C08 (DESIGN §4-C08): which child sequences can a rule of the GENERATED grammar produce, and do the
builders' positional matchers accept all of them?

* `Re` — regular expressions over rule ids; `ruleShape g r` over-approximates the sequences of child rules of a
  pair of rule `r` that `Peg.callRule` can emit: terminals and everything under a lookahead are ε, a call of a
  rule that yields a token in the current atomicity is a symbol, every other call is inlined (silent rules,
  rules called in an Atomic context); the implicit `skip` is inlined where the code generator puts it.
  It follows the same case analysis as `Peg.eval` / `Peg.callRule` / `Peg.ruleWrap`.
* `Auto` — the builders' matchers as deterministic automata (a missing transition = the Rust code panics):
  `parts!` (state = the items still to be matched), `only_child` + dispatch, `all_children`, the
  `ImplementsInterfaces` loop.
* `post` — abstract interpretation of a `Re` by an automaton on SETS of states (`none` = some word can panic),
  `star` by bounded iteration with a final closure check; `accepts` = every state reachable at the end of a word is
  final. Everything is structurally recursive, so the kernel evaluates `accepts (pattern r) (ruleShape grammar r)`.
-/
import NitroVerif.Gen.Parts
namespace NitroVerif.Shape
open NitroVerif.Peg NitroVerif.Gen.Parts

inductive Re where
  | eps
  | sym (r : RuleId)
  | seq (a b : Re)
  | alt (a b : Re)
  | star (a : Re)
  /-- unknown (every word): the depth bound of `ruleShape` was hit -/
  | top
  deriving Repr, Inhabited, DecidableEq

def mkSeq : Re → Re → Re
  | .eps, b => b
  | a, .eps => a
  | a, b => .seq a b

def mkAlt (a b : Re) : Re := if a = b then a else .alt a b

def mkStar : Re → Re
  | .eps => .eps
  | .star a => .star a
  | a => .star a

mutual
/-- child-rule sequences an expression can contribute, in a rule body generated with (`sk`) or without skip
    calls, under dynamic atomicity `at_` -/
def exprShape (g : G) : Nat → Bool → Atomicity → Expr → Re
  | 0, _, _, _ => .top
  | fuel + 1, sk, at_, e =>
    match e with
    | .str _ | .insens _ | .range _ _ | .any | .soi | .eoi => .eps
    | .seq a b => mkSeq (exprShape g fuel sk at_ a) (mkSeq (skipShape g fuel sk at_) (exprShape g fuel sk at_ b))
    | .choice a b => mkAlt (exprShape g fuel sk at_ a) (exprShape g fuel sk at_ b)
    | .opt a => mkAlt (exprShape g fuel sk at_ a) .eps
    | .star a =>
      if sk then
        let A := exprShape g fuel sk at_ a
        mkAlt (mkSeq A (mkStar (mkSeq (skipShape g fuel true at_) A))) .eps
      else mkStar (exprShape g fuel sk at_ a)
    | .plus a => exprShape g fuel sk at_ (.seq a (.star a))
    | .rep n a => exprShape g fuel sk at_ (unroll n a)
    | .not _ | .and _ => .eps
    | .call r => callShape g fuel r at_
def skipShape (g : G) : Nat → Bool → Atomicity → Re
  | 0, _, _ => .top
  | fuel + 1, sk, at_ =>
    if sk ∧ at_ = .nonAtomic then
      match g.skipExpr with
      | some e => exprShape g fuel false at_ e
      | none => .eps
    else .eps
def callShape (g : G) : Nat → RuleId → Atomicity → Re
  | 0, _, _ => .top
  | fuel + 1, r, at_ =>
    match g.look r with
    | none => .eps
    | some (kind, body) =>
      let special := g.ws = some r ∨ g.cm = some r
      match kind with
      | .silent =>
        if special then exprShape g fuel false .atomic body else exprShape g fuel true at_ body
      | .normal =>
        if at_ = .atomic then exprShape g fuel (if special then false else true) .atomic body else .sym r
      | .atomic => if at_ = .atomic then exprShape g fuel false .atomic body else .sym r
      | .compound => .sym r
      | .nonAtomic => .sym r
end

def shapeFuel : Nat := 200

/-- children of an emitted pair of rule `r`. A pair of a normal rule is emitted only when the atomicity seen by
    `rule()` is not Atomic, i.e. NonAtomic or CompoundAtomic: the shape is the union of the two (for this grammar
    they are the same expression, `mkAlt a a = a`). -/
def ruleShape (g : G) (r : RuleId) : Re :=
  match g.look r with
  | none => .eps
  | some (kind, body) =>
    let special := g.ws = some r ∨ g.cm = some r
    match kind with
    | .silent => .eps
    | .normal =>
      if special then exprShape g shapeFuel false .atomic body
      else mkAlt (exprShape g shapeFuel true .nonAtomic body) (exprShape g shapeFuel true .compound body)
    | .atomic => exprShape g shapeFuel false .atomic body
    | .compound => exprShape g shapeFuel false .compound body
    | .nonAtomic => exprShape g shapeFuel true .nonAtomic body

/-! ### matchers as automata -/

structure Auto (σ : Type) where
  step : σ → RuleId → Option σ
  final : σ → Bool
  /-- bound on the number of distinct states (iterations of `star`) -/
  size : Nat

def Auto.run {σ} (A : Auto σ) : σ → List RuleId → Option σ
  | s, [] => some s
  | s, a :: w => match A.step s a with
    | some t => A.run t w
    | none => none

/-- the matcher does not panic on the word -/
def Auto.ok {σ} (A : Auto σ) (s : σ) (w : List RuleId) : Bool :=
  match A.run s w with
  | some t => A.final t
  | none => false

/-- `parts!`: state = items still to be matched -/
def partsStep : List Item → RuleId → Option (List Item)
  | [], _ => some []
  | .req r :: is, a => if a = r then some is else none
  | .opt r :: is, a => if a = r then some is else partsStep is a

def partsFinal : List Item → Bool
  | [] => true
  | .req _ :: _ => false
  | .opt _ :: is => partsFinal is

def partsAuto (n : Nat) : Auto (List Item) := { step := partsStep, final := partsFinal, size := n + 2 }

/-- `only_child()` + dispatch: state 0 = no child yet, 1 = one child -/
def onlyAuto (allowed : List RuleId) : Auto Nat :=
  { step := fun s a => if s = 0 ∧ (allowed.isEmpty ∨ allowed.contains a) then some 1 else none,
    final := fun s => s = 1, size := 3 }

def allAuto (r : RuleId) : Auto Nat :=
  { step := fun _ a => if a = r then some 0 else none, final := fun _ => true, size := 2 }

def headAuto (h r : RuleId) : Auto Nat :=
  { step := fun s a => if s = 0 then (if a = h then some 1 else none) else (if a = r then some 1 else none),
    final := fun s => s = 1, size := 3 }

/-- the concrete meaning of a pattern on a word of child rules: the Rust matcher does not panic -/
def _root_.NitroVerif.Gen.Parts.Pattern.matches : Pattern → List RuleId → Bool
  | .parts items, w => (partsAuto items.length).ok items w
  | .onlyChild allowed, w => (onlyAuto allowed).ok 0 w
  | .allChildren r, w => (allAuto r).ok 0 w
  | .headThenAll h r, w => (headAuto h r).ok 0 w
  | .anyChildren, _ => true

/-! ### abstract interpretation -/

def insert {σ} [DecidableEq σ] (s : σ) (S : List σ) : List σ := if S.contains s then S else S ++ [s]

def union {σ} [DecidableEq σ] (S T : List σ) : List σ := T.foldl (fun acc t => insert t acc) S

def subset {σ} [DecidableEq σ] (S T : List σ) : Bool := S.all fun s => T.contains s

def stepAll {σ} [DecidableEq σ] (A : Auto σ) (a : RuleId) : List σ → Option (List σ)
  | [] => some []
  | s :: S =>
    match A.step s a, stepAll A a S with
    | some t, some T => some (insert t T)
    | _, _ => none

/-- iterate `T ← T ∪ f T` until `f T ⊆ T` (at most `n` more rounds); `none` if `f` fails or no closure in time -/
def iter {σ} [DecidableEq σ] (f : List σ → Option (List σ)) : Nat → List σ → Option (List σ)
  | 0, T => match f T with
    | some U => if subset U T then some T else none
    | none => none
  | n + 1, T => match f T with
    | some U => if subset U T then some T else iter f n (union T U)
    | none => none

/-- set of states after any word of `e` from any state of `S`; `none` = some word makes the matcher panic -/
def post {σ} [DecidableEq σ] (A : Auto σ) : Re → List σ → Option (List σ)
  | .eps, S => some S
  | .sym a, S => stepAll A a S
  | .seq a b, S => match post A a S with
    | some T => post A b T
    | none => none
  | .alt a b, S => match post A a S, post A b S with
    | some T, some U => some (union T U)
    | _, _ => none
  | .star a, S => iter (post A a) A.size S
  | .top, _ => none

def acceptsA {σ} [DecidableEq σ] (A : Auto σ) (s0 : σ) (e : Re) : Bool :=
  match post A e [s0] with
  | some T => T.all A.final
  | none => false

/-- the builders' matcher `p` accepts every child sequence in `e` -/
def accepts (p : Pattern) (e : Re) : Bool :=
  match p with
  | .parts items => acceptsA (partsAuto items.length) items e
  | .onlyChild allowed => acceptsA (onlyAuto allowed) 0 e
  | .allChildren r => acceptsA (allAuto r) 0 e
  | .headThenAll h r => acceptsA (headAuto h r) 0 e
  | .anyChildren => true

/-! ### membership test (Brzozowski derivatives) — used by the driver to check on every parsed text that the
    children of every pair are in the shape of its rule -/

def nullable : Re → Bool
  | .eps => true
  | .sym _ => false
  | .seq a b => nullable a && nullable b
  | .alt a b => nullable a || nullable b
  | .star _ => true
  | .top => true

/-- `none` = ∅ -/
def deriv (x : RuleId) : Re → Option Re
  | .eps => none
  | .sym a => if a = x then some .eps else none
  | .seq a b =>
    let l := (deriv x a).map fun d => mkSeq d b
    let r := if nullable a then deriv x b else none
    match l, r with
    | some l, some r => some (.alt l r)
    | some l, none => some l
    | none, r => r
  | .alt a b =>
    match deriv x a, deriv x b with
    | some l, some r => some (.alt l r)
    | some l, none => some l
    | none, r => r
  | .star a => (deriv x a).map fun d => mkSeq d (.star a)
  | .top => some .top

def matchesRe : Re → List RuleId → Bool
  | e, [] => nullable e
  | e, x :: w => match deriv x e with
    | some d => matchesRe d w
    | none => false

end NitroVerif.Shape
