/-!
# Model of the nitrogql command line driver (C18)

Executable model of `crates/cli/src/main.rs` (`run_cli`, `run_cli_impl`, `run_command`, `CommandError`),
`check.rs` (`run_check`, `check_impl`, `resolve_schema`, `resolve_operations`), `generate.rs` (`run_generate`,
`write_file_and_sourcemap`, `write_file_without_sourcemap`), `output/mod.rs` (`CliOutput`, the three renderers),
`file_store.rs` (`add_file`, `get_file`) and `crates/error/src/lib.rs` (`print_positioned_error`,
`message_for_line`) together with `crates/utils/src/chars.rs` (`first_non_space_byte_index`, `skip_chars`).

The model is a pure function from the *stage results* of one project run (what the parser, the extension /
import resolvers, the checkers, the schema printer and the file system answered) to the observable outcome
(exit code, command error, diagnostics, files written, files listed).  It is tied to the real binary by the
correspondence check `harness/src/bin/c18.rs`.  Core Lean only.

What is NOT modelled: panics of the printers (C08), config loading, glob expansion, plugins, introspection /
JavaScript schema files; an I/O error after `File::create` succeeded (disk full while writing).
-/
namespace NitroVerif.Cli

/-! ## positions, file store -/

inductive FileKind where
  | schema | operation
  deriving DecidableEq, Repr

/-- `nitrogql_ast::base::Pos` -/
structure Pos where
  line : Nat
  col : Nat
  file : Nat
  builtin : Bool
  deriving DecidableEq, Repr

/-- `FileStore`, contents abstracted away: only how many files of each kind were added -/
structure FileStore where
  schemaLen : Nat
  opLen : Nat
  deriving DecidableEq, Repr

namespace FileStore

def empty : FileStore := ⟨0, 0⟩

/-- `FileStore::add_file`: the new store and the index it returns; `none` = the `panic!`
    ("Cannot add schema file after operation file is added") -/
def addFile (fs : FileStore) : FileKind → Option (FileStore × Nat)
  | .schema => if fs.opLen ≠ 0 then none else some ({ fs with schemaLen := fs.schemaLen + 1 }, fs.schemaLen)
  | .operation => some ({ fs with opLen := fs.opLen + 1 }, fs.schemaLen + (fs.opLen + 1) - 1)

/-- `FileStore::get_file`: kind of the file at a global index and its index inside its own list -/
def getFile (fs : FileStore) (i : Nat) : Option (FileKind × Nat) :=
  if i < fs.schemaLen then some (.schema, i)
  else if i - fs.schemaLen < fs.opLen then some (.operation, i - fs.schemaLen)
  else none

def size (fs : FileStore) : Nat := fs.schemaLen + fs.opLen

end FileStore

/-! ## stage results (the input of the model) -/

/-- one error as a stage returns it: main position, positions of the additional notes, and an opaque tag that
    identifies the message text (the harness keeps the table) -/
structure Diag where
  pos : Pos
  extra : List Pos
  tag : Nat
  deriving DecidableEq, Repr

/-- result of parsing one file: `Pos::new` fills in the file index the CLI set with `set_current_file_of_pos` -/
inductive ParseRes where
  | ok
  | err (line col tag : Nat)
  deriving DecidableEq, Repr

inductive IoRes where
  | ok
  /-- `create_dir_all` / `File::create` of the output fails (e.g. the path is a directory) -/
  | mainFails
  /-- the output was written, writing `<output>.map` fails -/
  | mapFails
  deriving DecidableEq, Repr

structure OpFile where
  parse : ParseRes
  /-- `resolve_operation_extensions` -/
  ext : Option Diag
  /-- `resolve_operation_imports` -/
  imp : Option Diag
  /-- `check_operation_document` -/
  check : List Diag
  /-- writing the declaration file of this operation file -/
  io : IoRes
  deriving DecidableEq, Repr

inductive Cmd where
  | check | generate
  | other (n : Nat)
  deriving DecidableEq, Repr

inductive Mode where
  | withLoaderTs50 | withLoaderTs40 | standaloneTs40
  deriving DecidableEq, Repr

/-- extension given to the declaration file of `x.graphql` (`path.set_extension`) -/
def Mode.declExt : Mode → String
  | .withLoaderTs50 => "d.graphql.ts"
  | .withLoaderTs40 => "graphql.d.ts"
  | .standaloneTs40 => "graphql.ts"

structure GenOpts where
  schemaOutput : Bool
  moduleSpecifier : Bool
  /-- `emitSchemaRuntime` is set and the schema output's file name ends with `.d.ts` -/
  runtimeToDts : Bool
  serverOutput : Bool
  resolversOutput : Bool
  mode : Mode
  deriving DecidableEq, Repr

structure Run where
  cmds : List Cmd
  schemaFiles : List ParseRes
  /-- `resolve_schema_extensions` (a single error) -/
  schemaExt : Option Diag
  /-- `check_type_system_document` -/
  schemaCheck : List Diag
  opFiles : List OpFile
  gen : GenOpts
  /-- `SchemaTypePrinter::print_document` fails (`ScalarTypeNotProvided`; its position is lost in the
      conversion to `PositionedError`, so the command error carries no location) -/
  schemaPrinterFails : Bool
  ioSchema : IoRes
  ioServer : IoRes
  ioResolvers : IoRes
  deriving DecidableEq, Repr

/-! ## outcome -/

/-- stage that produced a diagnostic -/
inductive Cls where
  | parseSchema | parseOperation | schemaExt | schemaCheck | opExt | opImport | opCheck
  deriving DecidableEq, Repr

/-- an entry of `CliOutput::check_errors` -/
structure CheckErr where
  kind : FileKind
  cls : Cls
  diag : Diag
  deriving DecidableEq, Repr

inductive Target where
  | schema | server | resolvers
  | op (j : Nat)
  deriving DecidableEq, Repr

/-- an output file: the file of a target, or the source map next to it (`<file name>.map`, same directory) -/
structure OutFile where
  target : Target
  isMap : Bool
  deriving DecidableEq, Repr

inductive ErrKind where
  | noCommand | parseFailed | unknownCommand | invalidCommand | checkFailed
  | optionRequired | runtimeToDts | printer | io
  deriving DecidableEq, Repr

/-- `CommandError` after `run_cli` attached the command name -/
structure CmdErr where
  command : Option Cmd
  kind : ErrKind
  deriving DecidableEq, Repr

structure Outcome where
  exit : Nat
  error : Option CmdErr
  /-- `CliOutput::commands_run` -/
  commandsRun : List Cmd
  /-- `CliOutput::check_errors` -/
  diags : List CheckErr
  /-- effects on the file system, in order -/
  written : List OutFile
  /-- `CliOutput::generated_files` -/
  listed : List OutFile
  store : FileStore
  deriving DecidableEq, Repr

/-! ## `check_impl` -/

def tagged (k : FileKind) (c : Cls) (ds : List Diag) : List CheckErr := ds.map fun d => ⟨k, c, d⟩

/-- `check_impl`: the list of errors; empty = `CheckImplOutput::Ok`.
    Stage order: schema extension resolution (one error) → schema check (all) → operation extension resolution
    of ALL files → import resolution of ALL files → operation check of ALL files; the first stage that reports
    anything ends the check. -/
def checkImpl (r : Run) : List CheckErr :=
  match r.schemaExt with
  | some d => [⟨.schema, .schemaExt, d⟩]
  | none =>
    if !r.schemaCheck.isEmpty then tagged .schema .schemaCheck r.schemaCheck
    else if !(r.opFiles.filterMap (·.ext)).isEmpty then tagged .operation .opExt (r.opFiles.filterMap (·.ext))
    else if !(r.opFiles.filterMap (·.imp)).isEmpty then tagged .operation .opImport (r.opFiles.filterMap (·.imp))
    else tagged .operation .opCheck (r.opFiles.flatMap (·.check))

/-! ## `run_generate`: the sequence of writes -/

structure Step where
  target : Target
  hasMap : Bool
  printerFails : Bool
  io : IoRes
  deriving DecidableEq, Repr

abbrev Fail := ErrKind

def opSteps : Nat → List OpFile → List Step
  | _, [] => []
  | j, f :: fs => ⟨.op j, true, false, f.io⟩ :: opSteps (j + 1) fs

/-- the writes of `run_generate`, in order: schema types (+map), server GraphQL source (no map),
    resolver types (+map), one declaration file per operation file (+map) -/
def genSteps (r : Run) : List Step :=
  (if r.gen.schemaOutput then [⟨.schema, true, r.schemaPrinterFails, r.ioSchema⟩] else []) ++
  (if r.gen.serverOutput then [⟨.server, false, false, r.ioServer⟩] else []) ++
  (if r.gen.resolversOutput then [⟨.resolvers, true, false, r.ioResolvers⟩] else []) ++
  opSteps 0 r.opFiles

/-- state threaded through the commands: `CliContext` variant + the mutable `CliOutput` + the file system -/
structure St where
  resolved : Bool
  commandsRun : List Cmd
  diags : List CheckErr
  written : List OutFile
  listed : List OutFile
  deriving DecidableEq, Repr

/-- `write_file_and_sourcemap` / `write_file_without_sourcemap` for each step; every successful write is
    followed by `cli_output.generated_file`; the first error (`?`) ends `run_generate` -/
def runSteps : List Step → St → St × Option Fail
  | [], st => (st, none)
  | s :: rest, st =>
    if s.printerFails then (st, some .printer)
    else if s.io = .mainFails then (st, some .io)
    else
      let st1 := { st with written := st.written ++ [⟨s.target, false⟩], listed := st.listed ++ [⟨s.target, false⟩] }
      if s.hasMap then
        if s.io = .mapFails then (st1, some .io)
        else runSteps rest
          { st1 with written := st1.written ++ [⟨s.target, true⟩], listed := st1.listed ++ [⟨s.target, true⟩] }
      else runSteps rest st1

/-- `run_check` -/
def runCheck (r : Run) (st : St) : St × Option Fail :=
  if st.resolved then (st, some .invalidCommand)
  else
    let st1 := { st with commandsRun := st.commandsRun ++ [Cmd.check] }
    if (checkImpl r).isEmpty then ({ st1 with resolved := true }, none)
    else ({ st1 with diags := st1.diags ++ checkImpl r }, some .checkFailed)

/-- the part of `run_generate` after the (possibly implicit) check: options, then the writes -/
def genTail (r : Run) (st1 : St) : St × Option Fail :=
  let st2 := { st1 with commandsRun := st1.commandsRun ++ [Cmd.generate] }
  if !r.gen.schemaOutput && !r.gen.moduleSpecifier then (st2, some .optionRequired)
  else if r.gen.runtimeToDts then (st2, some .runtimeToDts)
  else runSteps (genSteps r) st2

/-- `run_generate`: `if let SchemaUnresolved = context { context = run_check(context)?; }` first -/
def runGenerate (r : Run) (st : St) : St × Option Fail :=
  if st.resolved then genTail r st
  else match runCheck r st with
    | (st1, some f) => (st1, some f)
    | (st1, none) => genTail r st1

/-- `run_command` -/
def runCommand (r : Run) (c : Cmd) (st : St) : St × Option Fail :=
  match c with
  | .check => runCheck r st
  | .generate => runGenerate r st
  | .other _ => (st, some .unknownCommand)

/-- the `for command in args.commands` loop: the first failing command ends it and names the error -/
def runCommands (r : Run) : List Cmd → St → St × Option CmdErr
  | [], st => (st, none)
  | c :: cs, st =>
    match runCommand r c st with
    | (st1, some f) => (st1, some ⟨some c, f⟩)
    | (st1, none) => runCommands r cs st1

/-! ## loading and parsing the input files -/

/-- parse errors of a list of files whose first file gets index `base` (`set_current_file_of_pos(file_idx)`
    before each parse, so that `Pos::new` carries the index `add_file` returned) -/
def parseErrs (k : FileKind) (c : Cls) : Nat → List ParseRes → List CheckErr
  | _, [] => []
  | i, .ok :: rest => parseErrs k c (i + 1) rest
  | i, .err l col t :: rest => ⟨k, c, ⟨⟨l, col, i, false⟩, [], t⟩⟩ :: parseErrs k c (i + 1) rest

/-- adding `n` files of one kind -/
def addFiles (k : FileKind) : Nat → FileStore → Option FileStore
  | 0, fs => some fs
  | n + 1, fs => match fs.addFile k with
    | some (fs1, _) => addFiles k n fs1
    | none => none

def St.init : St := ⟨false, [], [], [], []⟩

def outcomeOf (st : St) (e : Option CmdErr) (fs : FileStore) : Outcome :=
  { exit := if e.isSome then 1 else 0, error := e, commandsRun := st.commandsRun, diags := st.diags,
    written := st.written, listed := st.listed, store := fs }

/-- `run_cli` + `run_cli_impl`.  `none` = a panic of `add_file` (never happens, see `runCli_isSome`).
    Parse errors of ALL schema files (or, when the schema files parse, of ALL operation files) are put into
    `check_errors` and end the run with the command error `ParseFailed` (after the repairs 2c17dc5, ab3b5c0). -/
def runCli (r : Run) : Option Outcome :=
  if r.cmds.isEmpty then some (outcomeOf St.init (some ⟨none, .noCommand⟩) FileStore.empty)
  else
    match addFiles .schema r.schemaFiles.length FileStore.empty with
    | none => none
    | some fs1 =>
      let se := parseErrs .schema .parseSchema 0 r.schemaFiles
      if !se.isEmpty then some (outcomeOf { St.init with diags := se } (some ⟨none, .parseFailed⟩) fs1)
      else
        match addFiles .operation r.opFiles.length fs1 with
        | none => none
        | some fs2 =>
          let oe := parseErrs .operation .parseOperation fs1.schemaLen (r.opFiles.map (·.parse))
          if !oe.isEmpty then some (outcomeOf { St.init with diags := oe } (some ⟨none, .parseFailed⟩) fs2)
          else
            let (st, e) := runCommands r r.cmds St.init
            some (outcomeOf st e fs2)

/-! ## the three renderers (structure of what they list; texts are the harness's business) -/

/-- `file` member of a JSON diagnostic: `(!position.builtin).then(|| file_store.get_file(position.file)).flatten()` -/
def jsonFile (fs : FileStore) (p : Pos) : Option (Nat × Nat × Nat) :=
  if p.builtin then none else (fs.getFile p.file).map fun _ => (p.file, p.line, p.col)

structure JsonDiag where
  fileType : FileKind
  /-- global file index, 0-based line, 0-based column; `none` = `"file": null` -/
  file : Option (Nat × Nat × Nat)
  tag : Nat
  deriving DecidableEq, Repr

structure JsonView where
  error : Option (Option Cmd × ErrKind)
  /-- present iff `check` is among the commands run or there is any check error (parse errors) -/
  check : Option (List JsonDiag)
  /-- present iff `generate` is among the commands run -/
  generate : Option (List OutFile)
  deriving DecidableEq, Repr

def jsonView (o : Outcome) : JsonView :=
  { error := o.error.map fun e => (e.command, e.kind),
    check := if o.commandsRun.contains Cmd.check || !o.diags.isEmpty then
        some (o.diags.map fun e => ⟨e.kind, jsonFile o.store e.diag.pos, e.diag.tag⟩) else none,
    generate := if o.commandsRun.contains Cmd.generate then some o.listed else none }

/-- rdjson: one entry per check error; location = path + 1-based line/column, or empty -/
def rdjsonView (o : Outcome) : List (Option (Nat × Nat × Nat) × Nat) :=
  o.diags.map fun e => ((jsonFile o.store e.diag.pos).map fun (f, l, c) => (f, l + 1, c + 1), e.diag.tag)

/-- can `print_positioned_error` index the file store for this position (`files[position.file]`)? -/
def renderable (fs : FileStore) (p : Pos) : Bool := p.builtin || (fs.getFile p.file).isSome

def renderableDiag (fs : FileStore) (d : Diag) : Bool :=
  renderable fs d.pos && (d.pos.builtin || d.extra.all (renderable fs))

/-- human format: schema errors first, then operation errors (`partition`), then the command error;
    `none` = `print_positioned_error` panics on a file index outside the store -/
def humanView (o : Outcome) : Option (List CheckErr × List CheckErr) :=
  if o.diags.all (fun e => renderableDiag o.store e.diag) then
    some (o.diags.filter (·.kind = .schema), o.diags.filter (·.kind ≠ .schema))
  else none

/-! ## `message_for_line` at the level of characters and byte offsets -/

/-- `char::len_utf8` -/
def utf8Len (c : Char) : Nat :=
  if c.toNat < 0x80 then 1 else if c.toNat < 0x800 then 2 else if c.toNat < 0x10000 then 3 else 4

def byteLen : List Char → Nat
  | [] => 0
  | c :: cs => utf8Len c + byteLen cs

/-- `char::is_whitespace` (Unicode `White_Space`) -/
def isWs (c : Char) : Bool :=
  let n := c.toNat
  (9 ≤ n && n ≤ 13) || n == 0x20 || n == 0x85 || n == 0xA0 || n == 0x1680 || (0x2000 ≤ n && n ≤ 0x200A) ||
  n == 0x2028 || n == 0x2029 || n == 0x202F || n == 0x205F || n == 0x3000

/-- `str::lines` on the reversed current line `acc` and the rest of the text: split at `\n`, a `\r` directly
    before the `\n` is dropped, no empty last line -/
def linesAux : List Char → List Char → List (List Char)
  | acc, [] => if acc.isEmpty then [] else [acc.reverse]
  | acc, c :: rest =>
    if c = '\n' then
      (match acc with
        | a :: acc' => if a = '\r' then acc'.reverse else (a :: acc').reverse
        | [] => []) :: linesAux [] rest
    else linesAux (c :: acc) rest

def lines (s : List Char) : List (List Char) := linesAux [] s

/-- `first_non_space_byte_index(line).map(|(char_idx, _)| char_idx)` -/
def firstNonSpace : List Char → Option Nat
  | [] => none
  | c :: cs => if isWs c then (firstNonSpace cs).map (· + 1) else some 0

/-- `str::split_at(bytes).1`; `none` = the panic (offset past the end or inside a character) -/
def splitAtBytes : List Char → Nat → Option (List Char)
  | [], n => if n = 0 then some [] else none
  | c :: cs, n =>
    if n = 0 then some (c :: cs)
    else if utf8Len c ≤ n then splitAtBytes cs (n - utf8Len c) else none

/-- `skip_chars(line, chars)` -/
def skipChars (line : List Char) (n : Nat) : Option (List Char) :=
  splitAtBytes line (byteLen (line.take n))

def enumFrom : Nat → List α → List (Nat × α)
  | _, [] => []
  | i, x :: xs => (i, x) :: enumFrom (i + 1) xs

/-- `.enumerate().skip(pos.line.saturating_sub(2)).take(5)` -/
def relevantLines (ls : List (List Char)) (line : Nat) : List (Nat × List Char) :=
  ((enumFrom 0 ls).drop (line - 2)).take 5

def minList : List Nat → Option Nat
  | [] => none
  | x :: xs => match minList xs with
    | none => some x
    | some m => some (if x ≤ m then x else m)

def minIndent (rel : List (Nat × List Char)) : Option Nat :=
  minList (rel.filterMap fun p => firstNonSpace p.2)

def indent : List Char := [' ', ' ', ' ', ' ']

def natChars (n : Nat) : List Char := (toString n).toList

/-- `"{path}:{line+1}:{column+1}\n"` -/
def header (path : List Char) (p : Pos) : List Char :=
  path ++ [':'] ++ natChars (p.line + 1) ++ [':'] ++ natChars (p.col + 1) ++ ['\n']

/-- the body loop of `message_for_line`; `none` = `skip_chars` panicked -/
def renderRows (msg : List Char) (additional : Bool) (line m tcol : Nat) :
    List (Nat × List Char) → Option (List Char)
  | [] => some []
  | (no, src) :: rest =>
    match skipChars src m, renderRows msg additional line m tcol rest with
    | some t, some tail =>
      let pre := if additional then indent else []
      let spaces := List.replicate tcol ' '
      if no ≠ line then some (pre ++ t ++ ['\n'] ++ tail)
      else some (pre ++ t ++ ['\n'] ++ pre ++ spaces ++ ['^', '\n'] ++ pre ++ spaces ++ msg ++ ['\n'] ++ tail)
    | _, _ => none

/-- `message_for_line` (after the repair: the location header is printed also when no source line can be shown) -/
def messageForLine (path src : List Char) (p : Pos) (msg : List Char) (additional : Bool) : Option (List Char) :=
  let rel := relevantLines (lines src) p.line
  let pre := if additional then indent else []
  let locationOnly := pre ++ header path p ++ pre ++ msg
  if rel.all (fun q => q.1 ≠ p.line) then some locationOnly
  else match minIndent rel with
    | none => some locationOnly
    | some m =>
      -- `pos.column.saturating_sub(minimum_indent)`
      (renderRows msg additional p.line m (p.col - m) rel).map fun rows => pre ++ header path p ++ rows

/-- the additional notes of `print_positioned_error`; `none` = panic (file index outside the store, or below) -/
def renderExtras (files : List (List Char × List Char)) : List (Pos × List Char) → Option (List Char)
  | [] => some []
  | (p, m) :: rest =>
    if p.builtin then renderExtras files rest
    else match files[p.file]?, renderExtras files rest with
      | some (path, src), some tail =>
        (messageForLine path src p m true).map fun t => ['\n', '\n'] ++ t ++ tail
      | _, _ => none

/-- `print_positioned_error`; `none` = panic -/
def printPositioned (files : List (List Char × List Char)) (msg : List Char) (pos : Option Pos)
    (extras : List (Pos × List Char)) : Option (List Char) :=
  match pos with
  | none => some msg
  | some p =>
    if p.builtin then some msg
    else match files[p.file]? with
      | none => none
      | some (path, src) =>
        match messageForLine path src p msg false, renderExtras files extras with
        | some a, some b => some (a ++ b)
        | _, _ => none

end NitroVerif.Cli
