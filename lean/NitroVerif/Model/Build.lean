/-
Model of the pair → AST builders of nitrogql-parser (`crates/parser/src/parser/builder.rs`, `builder/*.rs`,
`builder/type_system/*.rs`) and of `parse_operation_document` / `parse_type_system_document`
(`crates/parser/src/parser/mod.rs`).

* Every place where the Rust code can panic is an explicit `Except Panic` result (`Panic` names the site).
* The positional matchers (`parts!`, `only_child`, `all_children`) are driven by the patterns that
  `translate/parts_patterns.py` EXTRACTS from the builder sources (`Gen/Parts.lean`): the model cannot
  drift from the source patterns.
* Positions: `to_pos` = `Pair::line_col` made 0-based (`Peg.lineCol`), text = `Pair::as_str` (`Peg.slice`);
  both are served from tables built once per input (`Ctx.ofInput`).
* Strings: `build_string_value` — escapes decoded, a surrogate pair `\uHHHH\uLLLL` combined into one supplementary
  character (fix fff8e9c; `decodeChars`), block strings returned RAW (only the `"""` delimiters are cut off; this is
  finding t of DESIGN §9). `validate_unicode_escapes` per `NormalStringValue` with a pending leading surrogate
  (`scanEscapes`, `firstBadEscape`); the pre-repair definitions are kept as `stringValueCharsOld`, `firstBadEscapeOld`.
The result vocabulary is the shared one (`Gql/Ast.lean`); only what `harness/src/gm.rs from_real_*` reads
from the Rust AST is represented (e.g. the positions of `Arguments`/`VariablesDefinition` nodes are not).
-/
import NitroVerif.Gen.Parts
import NitroVerif.Gql.Ast
namespace NitroVerif.Build
open NitroVerif.Peg NitroVerif.Gen NitroVerif.Gen.Parts NitroVerif

inductive Panic where
  /-- `parts!`: "Expected {want:?}, actual {got:?}" / "…, actual nothing" -/
  | partsExpected (want : RuleId) (got : Option RuleId)
  /-- `only_child`: "Expected 1 child of {r:?}, actual 0" -/
  | onlyChildNone (r : RuleId)
  /-- `only_child`: "Expected 1 child for {r:?}, actual 2 or more" -/
  | onlyChildMany (r : RuleId)
  /-- `all_children`: "Expected a child of {want:?}, actual {got:?}" -/
  | allChildren (want got : RuleId)
  /-- the `rule => panic!("Unexpected …")` arm of a dispatch -/
  | unexpectedRule (site : String) (r : RuleId)
  /-- "Empty document" / "Unexpected Rule" at the top -/
  | emptyDocument
  /-- `str_to_operation_type`: "Unknown operation type" -/
  | unknownOperationType
  /-- "Unknown escape sequence" -/
  | unknownEscape
  /-- `u32::from_str_radix(..).unwrap()` (more than 32 bits, empty, or not hex) -/
  | hexParse
  /-- `char::from_u32(code).expect("Invalid character code")` (surrogate or > U+10FFFF) -/
  | invalidCharCode
  /-- `build_implements_interfaces` -/
  | implementsHead
  | implementsItem
  /-- `split_at` out of range in the block-string arm / the `\u` arm -/
  | splitAt
  /-- `.chars().next().unwrap()` on an empty NormalStringCharacter -/
  | emptyChar
  /-- depth bound of the model (not a Rust panic; never reached, the driver reports it separately) -/
  | fuel
  /-- the model's own dispatch does not know a rule that the extracted pattern allows -/
  | modelBug (what : String)
  deriving Repr, Inhabited

abbrev M := Except Panic

structure Ctx where
  /-- `to_pos` of an offset -/
  pos : Nat → Gql.Pos
  /-- text between two offsets -/
  text : Nat → Nat → List Char

def Ctx.ofInput (inp : List Char) : Ctx :=
  let tbl := lineColTable inp
  let arr := inp.toArray
  { pos := fun o => match tbl[o]? with
      | some (l, c) => { line := l, col := c }
      | none => {},
    text := fun s e => (arr.extract s e).toList }

/-- the same context computed directly from the definitions (what the theorems talk about) -/
def Ctx.spec (inp : List Char) : Ctx :=
  { pos := fun o => let lc := lineCol inp o; { line := lc.1, col := lc.2 },
    text := fun s e => slice inp s e }

def toPos (ctx : Ctx) (p : Pair) : Gql.Pos := ctx.pos p.start
def asStr (ctx : Ctx) (p : Pair) : List Char := ctx.text p.start p.stop
def asString (ctx : Ctx) (p : Pair) : String := String.ofList (asStr ctx p)
def ident (ctx : Ctx) (p : Pair) : String × Gql.Pos := (asString ctx p, toPos ctx p)

/-! ### the three matchers of builder/utils.rs -/

/-- `parts!`: one result per item (`none` for an optional item that is absent) -/
def matchParts : List Item → List Pair → M (List (Option Pair))
  | [], _ => .ok []
  | .req r :: is, p :: ps =>
    if p.rule = r then (matchParts is ps).map (some p :: ·) else .error (.partsExpected r (some p.rule))
  | .req r :: _, [] => .error (.partsExpected r none)
  | .opt r :: is, p :: ps =>
    if p.rule = r then (matchParts is ps).map (some p :: ·) else (matchParts is (p :: ps)).map (none :: ·)
  | .opt _ :: is, [] => (matchParts is []).map (none :: ·)

def onlyChild (p : Pair) : M Pair :=
  match p.children with
  | [c] => .ok c
  | [] => .error (.onlyChildNone p.rule)
  | _ => .error (.onlyChildMany p.rule)

/-- `only_child()` followed by a dispatch whose arms are `allowed` (`[]`: no dispatch on the rule) -/
def onlyChildOf (allowed : List RuleId) (site : String) (p : Pair) : M Pair := do
  let c ← onlyChild p
  if allowed.isEmpty || allowed.contains c.rule then .ok c else .error (.unexpectedRule site c.rule)

def allChildrenGo (r : RuleId) : List Pair → M Unit
  | [] => .ok ()
  | c :: cs => if c.rule = r then allChildrenGo r cs else .error (.allChildren r c.rule)

def allChildren (r : RuleId) (p : Pair) : M (List Pair) := do
  allChildrenGo r p.children
  .ok p.children

/-! ### strings (builder/value.rs `build_string_value`) -/

def hexDigitVal (c : Char) : Option Nat :=
  if '0' ≤ c ∧ c ≤ '9' then some (c.toNat - 48)
  else if 'a' ≤ c ∧ c ≤ 'f' then some (c.toNat - 87)
  else if 'A' ≤ c ∧ c ≤ 'F' then some (c.toNat - 55)
  else none

def hexFold : List Char → Nat → Option Nat
  | [], acc => some acc
  | c :: cs, acc => match hexDigitVal c with
    | some d => hexFold cs (acc * 16 + d)
    | none => none

/-- hex digits → value, failing like `u32::from_str_radix` (empty, not hex, more than 32 bits) -/
def hexDigitsU32 (digits : List Char) : M Nat :=
  if digits.isEmpty then .error .hexParse
  else match hexFold digits 0 with
    | some n => if n < 4294967296 then .ok n else .error .hexParse
    | none => .error .hexParse

/-- `u32::from_str_radix(s, 16).unwrap()` (a leading `+` is accepted by the Rust function) -/
def parseHexU32 (s : List Char) : M Nat :=
  hexDigitsU32 (match s with
    | '+' :: r => r
    | _ => s)

def validScalar (n : Nat) : Bool := n < 0xD800 || (0xDFFF < n && n < 0x110000)

/-- `char::from_u32(code).expect("Invalid character code")` -/
def charFromU32 (n : Nat) : M Char :=
  if validScalar n then .ok (Char.ofNat n) else .error .invalidCharCode

def escapedChar : List Char → M Char
  | ['\\', '"'] => .ok '"'
  | ['\\', '\\'] => .ok '\\'
  | ['\\', '/'] => .ok '/'
  | ['\\', 'b'] => .ok (Char.ofNat 8)
  | ['\\', 'f'] => .ok (Char.ofNat 12)
  | ['\\', 'n'] => .ok '\n'
  | ['\\', 'r'] => .ok '\r'
  | ['\\', 't'] => .ok '\t'
  | _ => .error .unknownEscape

/-- one `StringCharacter` pair → the character it denotes -/
def decodeChar (ctx : Ctx) (sc : Pair) : M Char := do
  let ch ← onlyChildOf OC_StringCharacter "StringCharacter" sc
  if ch.rule = R.EscapedUnicodeBrace then
    let d ← onlyChildOf OC_EscapedUnicodeBrace "EscapedUnicodeBrace" ch
    charFromU32 (← parseHexU32 (asStr ctx d))
  else if ch.rule = R.EscapedUnicode4 then
    let s := asStr ctx ch
    if s.length < 2 then .error .splitAt
    else charFromU32 (← parseHexU32 (s.drop 2))
  else if ch.rule = R.EscapedCharacter then escapedChar (asStr ctx ch)
  else if ch.rule = R.NormalStringCharacter then
    match asStr ctx ch with
    | c :: _ => .ok c
    | [] => .error .emptyChar
  else .error (.modelBug "StringCharacter")

/-- `unicode4_code`: the code of a `\uXXXX` pair (`split_at(2)`, `u32::from_str_radix(.., 16).unwrap()`) -/
def unicode4Code (ctx : Ctx) (ch : Pair) : M Nat :=
  let s := asStr ctx ch
  if s.length < 2 then .error .splitAt else parseHexU32 (s.drop 2)

/-- `0xD800..=0xDBFF` -/
def isLeadSurrogate (n : Nat) : Bool := 0xD800 ≤ n && n ≤ 0xDBFF
/-- `0xDC00..=0xDFFF` -/
def isTrailSurrogate (n : Nat) : Bool := 0xDC00 ≤ n && n ≤ 0xDFFF
/-- `0x10000 + ((code - 0xD800) << 10) + (trailing - 0xDC00)` -/
def surrogatePairCode (lead trail : Nat) : Nat := 0x10000 + ((lead - 0xD800) <<< 10) + (trail - 0xDC00)

/-- `trailing_surrogate`: the code of a `\uXXXX` pair in U+DC00 … U+DFFF -/
def trailingSurrogate (ctx : Ctx) (ch : Pair) : M (Option Nat) :=
  if ch.rule ≠ R.EscapedUnicode4 then .ok none
  else do
    let c ← unicode4Code ctx ch
    .ok (if isTrailSurrogate c then some c else none)

/-- `characters.peek().and_then(trailing_surrogate)`: the peeked element is the `only_child()` of the next
    `StringCharacter` -/
def peekTrailing (ctx : Ctx) : List Pair → M (Option Nat)
  | [] => .ok none
  | sc :: _ => do
    let ch ← onlyChild sc
    trailingSurrogate ctx ch

/-- the loop of `build_string_value` over the `StringCharacter` pairs of a `NormalStringValue` (fix fff8e9c): a leading
    surrogate `\uD800`–`\uDBFF` immediately followed by a trailing surrogate `\uDC00`–`\uDFFF`, both written as `\uXXXX`,
    is ONE supplementary character; `skip = true`: the next pair is the trailing surrogate already consumed by
    `characters.next()`. Every other character is decoded by `decodeChar`. -/
def decodeChars (ctx : Ctx) : Bool → List Pair → M (List Char)
  | _, [] => .ok []
  | true, _ :: rest => decodeChars ctx false rest
  | false, sc :: rest => do
    let ch ← onlyChildOf OC_StringCharacter "StringCharacter" sc
    if ch.rule = R.EscapedUnicode4 then
      let code ← unicode4Code ctx ch
      let tr ← peekTrailing ctx rest
      match tr with
      | some t =>
        if isLeadSurrogate code then
          let c ← charFromU32 (surrogatePairCode code t)
          (c :: ·) <$> decodeChars ctx true rest
        else do
          let c ← charFromU32 code
          (c :: ·) <$> decodeChars ctx false rest
      | none => do
        let c ← charFromU32 code
        (c :: ·) <$> decodeChars ctx false rest
    else do
      let c ← decodeChar ctx sc
      (c :: ·) <$> decodeChars ctx false rest

/-- the characters of a string literal, as `build_string_value` returns them, and the position it records -/
def stringValueChars (ctx : Ctx) (p : Pair) : M (List Char × Gql.Pos) := do
  let c ← onlyChildOf OC_StringValue "StringValue" p
  let pos := toPos ctx c
  if c.rule = R.EmptyStringValue then .ok ([], pos)
  else if c.rule = R.BlockStringValue then
    let s := asStr ctx c
    -- `split_at(3)` then `split_at(end.len() - 3)`: the text between the delimiters, RAW
    if s.length < 6 then .error .splitAt
    else .ok ((s.drop 3).take (s.length - 6), pos)
  else if c.rule = R.NormalStringValue then
    -- `pair.into_inner().map(|pair| pair.only_child()).peekable()`, then the loop
    let cs ← decodeChars ctx false c.children
    .ok (cs, pos)
  else .error (.modelBug "StringValue")

/-- `build_string_value` BEFORE fix fff8e9c (every `StringCharacter` decoded on its own; kept for the witness) -/
def stringValueCharsOld (ctx : Ctx) (p : Pair) : M (List Char × Gql.Pos) := do
  let c ← onlyChildOf OC_StringValue "StringValue" p
  let pos := toPos ctx c
  if c.rule = R.EmptyStringValue then .ok ([], pos)
  else if c.rule = R.BlockStringValue then
    let s := asStr ctx c
    if s.length < 6 then .error .splitAt
    else .ok ((s.drop 3).take (s.length - 6), pos)
  else if c.rule = R.NormalStringValue then
    let cs ← c.children.mapM (decodeChar ctx)
    .ok (cs, pos)
  else .error (.modelBug "StringValue")

def buildStringValue (ctx : Ctx) (p : Pair) : M (String × Gql.Pos) := do
  let (cs, pos) ← stringValueChars ctx p
  .ok (String.ofList cs, pos)

/-! ### values, types, directives -/

def buildVariable (ctx : Ctx) (p : Pair) : M (String × Gql.Pos) := do
  let pos := toPos ctx p
  let name ← onlyChildOf OC_Variable "Variable" p
  .ok (asString ctx name, pos)

def get2 (site : String) : List (Option Pair) → M (Pair × Pair)
  | [some a, some b] => .ok (a, b)
  | _ => .error (.modelBug site)

def buildValue (ctx : Ctx) : Nat → Pair → M Gql.Value
  | 0, _ => .error .fuel
  | fuel + 1, p => do
    let c ← onlyChildOf OC_Value "Value" p
    let pos := toPos ctx c
    if c.rule = R.Variable then
      let (n, vp) ← buildVariable ctx c
      .ok (.var n vp)
    else if c.rule = R.IntValue then .ok (.int (asString ctx c) pos)
    else if c.rule = R.FloatValue then .ok (.float (asString ctx c) pos)
    else if c.rule = R.StringValue then
      let (s, sp) ← buildStringValue ctx c
      .ok (.str s sp)
    else if c.rule = R.BooleanValue then
      let kw ← onlyChildOf OC_BooleanValue "BooleanValue" c
      if kw.rule = R.KEYWORD_false then .ok (.bool false pos)
      else if kw.rule = R.KEYWORD_true then .ok (.bool true pos)
      else .error (.modelBug "BooleanValue")
    else if c.rule = R.NullValue then .ok (.null pos)
    else if c.rule = R.EnumValue then .ok (.enum (asString ctx c) pos)
    else if c.rule = R.ListValue then
      let cs ← allChildren AC_ListValue c
      let vs ← cs.mapM (buildValue ctx fuel)
      .ok (.list vs pos)
    else if c.rule = R.ObjectValue then
      let cs ← allChildren AC_ObjectValue c
      let fs ← cs.mapM fun f => do
        let (n, v) ← get2 "ObjectField" (← matchParts P_ObjectField f.children)
        let v ← buildValue ctx fuel v
        .ok ((asString ctx n, toPos ctx n, v) : Gql.Arg)
      .ok (.obj fs pos)
    else .error (.modelBug "Value")

def buildArguments (ctx : Ctx) (fuel : Nat) (p : Pair) : M (List Gql.Arg) := do
  let cs ← allChildren AC_Arguments p
  cs.mapM fun a => do
    let (n, v) ← get2 "Argument" (← matchParts P_Argument a.children)
    let v ← buildValue ctx fuel v
    .ok ((asString ctx n, toPos ctx n, v) : Gql.Arg)

def optArgs (ctx : Ctx) (fuel : Nat) : Option Pair → M (List Gql.Arg)
  | some a => buildArguments ctx fuel a
  | none => .ok []

def buildDirectives (ctx : Ctx) (fuel : Nat) (p : Pair) : M (List Gql.Directive) := do
  let cs ← allChildren AC_Directives p
  cs.mapM fun d => do
    let pos := toPos ctx d
    match ← matchParts P_Directive d.children with
    | [some name, args] =>
      let args ← optArgs ctx fuel args
      .ok { name := asString ctx name, namePos := toPos ctx name, args, pos }
    | _ => .error (.modelBug "Directive")

def optDirs (ctx : Ctx) (fuel : Nat) : Option Pair → M (List Gql.Directive)
  | some d => buildDirectives ctx fuel d
  | none => .ok []

mutual
def buildType (ctx : Ctx) : Nat → Pair → M Gql.GType
  | 0, _ => .error .fuel
  | fuel + 1, p => do
    -- `build_type_of(pair.only_child())`: the dispatch (and its panic arm) is in build_type_of
    let c ← onlyChild p
    buildTypeOf ctx fuel c
def buildTypeOf (ctx : Ctx) : Nat → Pair → M Gql.GType
  | 0, _ => .error .fuel
  | fuel + 1, p =>
    if p.rule = R.NonNullType then do
      let c ← onlyChildOf OC_NonNullType "NonNullType" p
      let t ← buildTypeOf ctx fuel c
      .ok (.nonNull t)
    else if p.rule = R.ListType then do
      let pos := toPos ctx p
      let c ← onlyChild p
      let t ← buildType ctx fuel c
      .ok (.list t pos)
    else if p.rule = R.NamedType then do
      let c ← onlyChildOf OC_NamedType "NamedType" p
      .ok (.named (asString ctx c) (toPos ctx c))
    else .error (.unexpectedRule "Type" p.rule)
end

def optDefault (ctx : Ctx) (fuel : Nat) : Option Pair → M (Option Gql.Value)
  | some dv => do
    let c ← onlyChild dv
    let v ← buildValue ctx fuel c
    .ok (some v)
  | none => .ok none

/-! ### selection sets (builder/selection_set.rs) -/

def typeConditionIdent (ctx : Ctx) (tc : Pair) : M (String × Gql.Pos) := do
  let (_, nt) ← get2 "TypeCondition" (← matchParts P_TypeCondition tc.children)
  .ok (ident ctx nt)

def buildSelectionSet (ctx : Ctx) : Nat → Pair → M (List Gql.Selection)
  | 0, _ => .error .fuel
  | fuel + 1, p => do
    let cs ← allChildren AC_SelectionSet p
    cs.mapM fun s => do
      let c ← onlyChildOf OC_Selection "Selection" s
      if c.rule = R.Field then
        match ← matchParts P_Field c.children with
        | [alias, some name, args, dirs, sel] =>
          let alias ← match alias with
            | some a => do
              let n ← onlyChildOf OC_Alias "Alias" a
              pure (some (ident ctx n))
            | none => pure none
          let args ← optArgs ctx fuel args
          let dirs ← optDirs ctx fuel dirs
          let sel ← match sel with
            | some ss => do
              let r ← buildSelectionSet ctx fuel ss
              pure (some r)
            | none => pure none
          .ok (.field alias (asString ctx name) (toPos ctx name) args dirs sel)
        | _ => .error (.modelBug "Field")
      else if c.rule = R.FragmentSpread then
        let pos := toPos ctx c
        match ← matchParts P_FragmentSpread c.children with
        | [some name, dirs] =>
          let dirs ← optDirs ctx fuel dirs
          .ok (.spread (asString ctx name) (toPos ctx name) dirs pos)
        | _ => .error (.modelBug "FragmentSpread")
      else if c.rule = R.InlineFragment then
        let pos := toPos ctx c
        match ← matchParts P_InlineFragment c.children with
        | [tc, dirs, some ss] =>
          let cond ← match tc with
            | some t => do
              let i ← typeConditionIdent ctx t
              pure (some i)
            | none => pure none
          let dirs ← optDirs ctx fuel dirs
          let sel ← buildSelectionSet ctx fuel ss
          .ok (.inline cond dirs sel pos)
        | _ => .error (.modelBug "InlineFragment")
      else .error (.modelBug "Selection")

/-! ### executable definitions (builder/operation.rs) -/

def strToOperationType (s : List Char) : M Gql.OpKind :=
  if s = "query".toList then .ok .query
  else if s = "mutation".toList then .ok .mutation
  else if s = "subscription".toList then .ok .subscription
  else .error .unknownOperationType

def buildVariableDefinition (ctx : Ctx) (fuel : Nat) (p : Pair) : M Gql.VarDef := do
  let pos := toPos ctx p
  match ← matchParts P_VariableDefinition p.children with
  | [some v, some ty, dv, dirs] =>
    let (name, _) ← buildVariable ctx v
    let ty ← buildType ctx fuel ty
    let default ← optDefault ctx fuel dv
    let dirs ← optDirs ctx fuel dirs
    .ok { name, pos, ty, default, dirs }
  | _ => .error (.modelBug "VariableDefinition")

def buildVariablesDefinition (ctx : Ctx) (fuel : Nat) (p : Pair) : M (List Gql.VarDef) := do
  let cs ← allChildren AC_VariablesDefinition p
  cs.mapM (buildVariableDefinition ctx fuel)

def buildExecutableDefinition (ctx : Ctx) (fuel : Nat) (p : Pair) : M Gql.ExecDef := do
  let c ← onlyChildOf OC_ExecutableDefinition "ExecutableDefinition" p
  let pos := toPos ctx c
  if c.rule = R.OperationDefinition then
    match ← matchParts P_OperationDefinition c.children with
    | [opTy, name, vars, dirs, some ss] =>
      -- `OperationType opt`: absent for the anonymous-query shorthand
      let kind ← match opTy with
        | some t => strToOperationType (asStr ctx t)
        | none => pure .query
      let vars ← match vars with
        | some v => buildVariablesDefinition ctx fuel v
        | none => pure []
      let dirs ← optDirs ctx fuel dirs
      let sel ← buildSelectionSet ctx fuel ss
      .ok (.op { kind, name := name.map (ident ctx), vars, dirs, sel, pos })
    | _ => .error (.modelBug "OperationDefinition")
  else if c.rule = R.FragmentDefinition then
    match ← matchParts P_FragmentDefinition c.children with
    | [some _, some name, some tc, dirs, some ss] =>
      let (cond, condPos) ← typeConditionIdent ctx tc
      let dirs ← optDirs ctx fuel dirs
      let sel ← buildSelectionSet ctx fuel ss
      .ok (.frag { name := asString ctx name, namePos := toPos ctx name, cond, condPos, dirs, sel, pos })
    | _ => .error (.modelBug "FragmentDefinition")
  else if c.rule = R.ext_ImportStatement then
    -- "pair becomes ext_ImportStatementContent": plain only_child, the parts! below checks the shape
    let inner ← onlyChild c
    match ← matchParts P_ext_ImportStatementContent inner.children with
    | [some _, some targets, some _, some path] =>
      let ts := targets.children.map fun t =>
        if t.rule = R.Name then some (ident ctx t) else none
      let (path, _) ← buildStringValue ctx path
      .ok (.imp { targets := ts, path, pos })
    | _ => .error (.modelBug "ext_ImportStatementContent")
  else .error (.modelBug "ExecutableDefinition")

/-! ### type system (builder/type_system/*.rs) -/

def buildDescription (ctx : Ctx) (p : Pair) : M String := do
  let c ← onlyChildOf OC_Description "Description" p
  let (s, _) ← buildStringValue ctx c
  .ok s

def optDesc (ctx : Ctx) : Option Pair → M (Option String)
  | some d => do
    let s ← buildDescription ctx d
    .ok (some s)
  | none => .ok none

def buildInputValueDefinition (ctx : Ctx) (fuel : Nat) (p : Pair) : M Gql.InputValueDef := do
  match ← matchParts P_InputValueDefinition p.children with
  | [desc, some name, some ty, dv, dirs] =>
    let desc ← optDesc ctx desc
    let ty ← buildType ctx fuel ty
    let default ← optDefault ctx fuel dv
    let dirs ← optDirs ctx fuel dirs
    .ok { desc, name := asString ctx name, pos := toPos ctx name, ty, default, dirs }
  | _ => .error (.modelBug "InputValueDefinition")

def buildArgumentsDefinition (ctx : Ctx) (fuel : Nat) (p : Pair) : M (List Gql.InputValueDef) := do
  let cs ← allChildren AC_ArgumentsDefinition p
  cs.mapM (buildInputValueDefinition ctx fuel)

def buildInputFieldsDefinition (ctx : Ctx) (fuel : Nat) (p : Pair) : M (List Gql.InputValueDef) := do
  let cs ← allChildren AC_InputFieldsDefinition p
  cs.mapM (buildInputValueDefinition ctx fuel)

def buildFieldsDefinition (ctx : Ctx) (fuel : Nat) (p : Pair) : M (List Gql.FieldDef) := do
  let cs ← allChildren AC_FieldsDefinition p
  cs.mapM fun f => do
    match ← matchParts P_FieldDefinition f.children with
    | [desc, some name, args, some ty, dirs] =>
      let desc ← optDesc ctx desc
      let args ← match args with
        | some a => buildArgumentsDefinition ctx fuel a
        | none => pure []
      let ty ← buildType ctx fuel ty
      let dirs ← optDirs ctx fuel dirs
      .ok { desc, name := asString ctx name, pos := toPos ctx name, args, ty, dirs }
    | _ => .error (.modelBug "FieldDefinition")

def buildEnumValueDefinition (ctx : Ctx) (fuel : Nat) (p : Pair) : M Gql.EnumValueDef := do
  match ← matchParts P_EnumValueDefinition p.children with
  | [desc, some v, dirs] =>
    let desc ← optDesc ctx desc
    let dirs ← optDirs ctx fuel dirs
    .ok { desc, name := asString ctx v, pos := toPos ctx v, dirs }
  | _ => .error (.modelBug "EnumValueDefinition")

def buildImplementsInterfaces (ctx : Ctx) (p : Pair) : M (List (String × Gql.Pos)) :=
  match p.children with
  | [] => .error .implementsHead
  | h :: rest =>
    if h.rule ≠ R.KEYWORD_implements then .error .implementsHead
    else rest.mapM fun n => if n.rule ≠ R.NamedType then .error .implementsItem else .ok (ident ctx n)

def optImplements (ctx : Ctx) : Option Pair → M (List (String × Gql.Pos))
  | some i => buildImplementsInterfaces ctx i
  | none => .ok []

def namedTypeIdents (ctx : Ctx) (r : RuleId) : Option Pair → M (List (String × Gql.Pos))
  | some m => do
    let cs ← allChildren r m
    .ok (cs.map (ident ctx))
  | none => .ok []

def optFields (ctx : Ctx) (fuel : Nat) : Option Pair → M (List Gql.FieldDef)
  | some f => buildFieldsDefinition ctx fuel f
  | none => .ok []

def optEnumValues (ctx : Ctx) (fuel : Nat) : Option Pair → M (List Gql.EnumValueDef)
  | some v => do
    let cs ← allChildren AC_EnumValuesDefinition v
    cs.mapM (buildEnumValueDefinition ctx fuel)
  | none => .ok []

def optInputFields (ctx : Ctx) (fuel : Nat) : Option Pair → M (List Gql.InputValueDef)
  | some f => buildInputFieldsDefinition ctx fuel f
  | none => .ok []

/-- the six type definitions; `desc`/`kw`/`name` are the leading items every pattern has -/
def buildTypeDefinition (ctx : Ctx) (fuel : Nat) (p : Pair) : M Gql.TypeDef := do
  let c ← onlyChildOf OC_TypeDefinition "TypeDefinition" p
  if c.rule = R.ScalarTypeDefinition then
    match ← matchParts P_ScalarTypeDefinition c.children with
    | [desc, some kw, some name, dirs] =>
      let desc ← optDesc ctx desc
      let dirs ← optDirs ctx fuel dirs
      .ok { kind := .scalar, desc, name := asString ctx name, namePos := toPos ctx name, dirs, pos := toPos ctx kw }
    | _ => .error (.modelBug "ScalarTypeDefinition")
  else if c.rule = R.ObjectTypeDefinition then
    match ← matchParts P_ObjectTypeDefinition c.children with
    | [desc, some kw, some name, impl, dirs, fields] =>
      let desc ← optDesc ctx desc
      let implements ← optImplements ctx impl
      let dirs ← optDirs ctx fuel dirs
      let fields ← optFields ctx fuel fields
      .ok { kind := .object, desc, name := asString ctx name, namePos := toPos ctx name, implements, dirs, fields,
            pos := toPos ctx kw }
    | _ => .error (.modelBug "ObjectTypeDefinition")
  else if c.rule = R.InterfaceTypeDefinition then
    match ← matchParts P_InterfaceTypeDefinition c.children with
    | [desc, some kw, some name, impl, dirs, fields] =>
      let desc ← optDesc ctx desc
      let implements ← optImplements ctx impl
      let dirs ← optDirs ctx fuel dirs
      let fields ← optFields ctx fuel fields
      .ok { kind := .interface, desc, name := asString ctx name, namePos := toPos ctx name, implements, dirs, fields,
            pos := toPos ctx kw }
    | _ => .error (.modelBug "InterfaceTypeDefinition")
  else if c.rule = R.UnionTypeDefinition then
    match ← matchParts P_UnionTypeDefinition c.children with
    | [desc, some kw, some name, dirs, members] =>
      let desc ← optDesc ctx desc
      let dirs ← optDirs ctx fuel dirs
      let members ← namedTypeIdents ctx AC_UnionMemberTypes members
      .ok { kind := .union, desc, name := asString ctx name, namePos := toPos ctx name, dirs, members, pos := toPos ctx kw }
    | _ => .error (.modelBug "UnionTypeDefinition")
  else if c.rule = R.EnumTypeDefinition then
    match ← matchParts P_EnumTypeDefinition c.children with
    | [desc, some kw, some name, dirs, values] =>
      let desc ← optDesc ctx desc
      let dirs ← optDirs ctx fuel dirs
      let values ← optEnumValues ctx fuel values
      .ok { kind := .enum, desc, name := asString ctx name, namePos := toPos ctx name, dirs, values, pos := toPos ctx kw }
    | _ => .error (.modelBug "EnumTypeDefinition")
  else if c.rule = R.InputObjectTypeDefinition then
    match ← matchParts P_InputObjectTypeDefinition c.children with
    | [desc, some kw, some name, dirs, fields] =>
      let desc ← optDesc ctx desc
      let dirs ← optDirs ctx fuel dirs
      let inputs ← optInputFields ctx fuel fields
      .ok { kind := .input, desc, name := asString ctx name, namePos := toPos ctx name, dirs, inputs, pos := toPos ctx kw }
    | _ => .error (.modelBug "InputObjectTypeDefinition")
  else .error (.modelBug "TypeDefinition")

def buildTypeExtension (ctx : Ctx) (fuel : Nat) (p : Pair) : M Gql.TypeDef := do
  let c ← onlyChildOf OC_TypeExtension "TypeExtension" p
  if c.rule = R.ScalarTypeExtension then
    match ← matchParts P_ScalarTypeExtension c.children with
    | [some kw, some _, some name, dirs] =>
      let dirs ← optDirs ctx fuel dirs
      .ok { kind := .scalar, name := asString ctx name, namePos := toPos ctx name, dirs, pos := toPos ctx kw }
    | _ => .error (.modelBug "ScalarTypeExtension")
  else if c.rule = R.ObjectTypeExtension then
    match ← matchParts P_ObjectTypeExtension c.children with
    | [some kw, some _, some name, impl, dirs, fields] =>
      let implements ← optImplements ctx impl
      let dirs ← optDirs ctx fuel dirs
      let fields ← optFields ctx fuel fields
      .ok { kind := .object, name := asString ctx name, namePos := toPos ctx name, implements, dirs, fields, pos := toPos ctx kw }
    | _ => .error (.modelBug "ObjectTypeExtension")
  else if c.rule = R.InterfaceTypeExtension then
    match ← matchParts P_InterfaceTypeExtension c.children with
    | [some kw, some _, some name, impl, dirs, fields] =>
      let implements ← optImplements ctx impl
      let dirs ← optDirs ctx fuel dirs
      let fields ← optFields ctx fuel fields
      .ok { kind := .interface, name := asString ctx name, namePos := toPos ctx name, implements, dirs, fields, pos := toPos ctx kw }
    | _ => .error (.modelBug "InterfaceTypeExtension")
  else if c.rule = R.UnionTypeExtension then
    match ← matchParts P_UnionTypeExtension c.children with
    | [some kw, some _, some name, dirs, members] =>
      let dirs ← optDirs ctx fuel dirs
      let members ← namedTypeIdents ctx AC_UnionMemberTypes members
      .ok { kind := .union, name := asString ctx name, namePos := toPos ctx name, dirs, members, pos := toPos ctx kw }
    | _ => .error (.modelBug "UnionTypeExtension")
  else if c.rule = R.EnumTypeExtension then
    match ← matchParts P_EnumTypeExtension c.children with
    | [some kw, some _, some name, dirs, values] =>
      let dirs ← optDirs ctx fuel dirs
      let values ← optEnumValues ctx fuel values
      .ok { kind := .enum, name := asString ctx name, namePos := toPos ctx name, dirs, values, pos := toPos ctx kw }
    | _ => .error (.modelBug "EnumTypeExtension")
  else if c.rule = R.InputObjectTypeExtension then
    match ← matchParts P_InputObjectTypeExtension c.children with
    | [some kw, some _, some name, dirs, fields] =>
      let dirs ← optDirs ctx fuel dirs
      let inputs ← optInputFields ctx fuel fields
      .ok { kind := .input, name := asString ctx name, namePos := toPos ctx name, dirs, inputs, pos := toPos ctx kw }
    | _ => .error (.modelBug "InputObjectTypeExtension")
  else .error (.modelBug "TypeExtension")

def buildRootOperationTypeDefinitions (ctx : Ctx) (p : Pair) : M (List (Gql.OpKind × String × Gql.Pos)) := do
  let cs ← allChildren AC_RootOperationTypeDefinitions p
  cs.mapM fun d => do
    let (ot, nt) ← get2 "RootOperationTypeDefinition" (← matchParts P_RootOperationTypeDefinition d.children)
    let k ← strToOperationType (asStr ctx ot)
    .ok (k, asString ctx nt, toPos ctx nt)

def buildSchemaDefinition (ctx : Ctx) (fuel : Nat) (p : Pair) : M Gql.SchemaDef := do
  let pos := toPos ctx p
  match ← matchParts P_SchemaDefinition p.children with
  | [desc, some _, dirs, some roots] =>
    let roots ← buildRootOperationTypeDefinitions ctx roots
    let desc ← optDesc ctx desc
    let dirs ← optDirs ctx fuel dirs
    .ok { desc, dirs, roots, pos }
  | _ => .error (.modelBug "SchemaDefinition")

def buildSchemaExtension (ctx : Ctx) (fuel : Nat) (p : Pair) : M Gql.SchemaDef := do
  let pos := toPos ctx p
  match ← matchParts P_SchemaExtension p.children with
  | [some _, some _, dirs, roots] =>
    let dirs ← optDirs ctx fuel dirs
    let roots ← match roots with
      | some r => buildRootOperationTypeDefinitions ctx r
      | none => pure []
    .ok { dirs, roots, pos }
  | _ => .error (.modelBug "SchemaExtension")

def buildDirectiveDefinition (ctx : Ctx) (fuel : Nat) (p : Pair) : M Gql.DirectiveDef := do
  match ← matchParts P_DirectiveDefinition p.children with
  | [desc, some kw, some name, args, rep, some _, some locs] =>
    let desc ← optDesc ctx desc
    let args ← match args with
      | some a => buildArgumentsDefinition ctx fuel a
      | none => pure []
    let ls ← allChildren AC_DirectiveLocations locs
    .ok { desc, name := asString ctx name, namePos := toPos ctx name, args, repeatable := rep.isSome,
          locations := ls.map (asString ctx), pos := toPos ctx kw }
  | _ => .error (.modelBug "DirectiveDefinition")

def buildTypeSystemDefinitionOrExtension (ctx : Ctx) (fuel : Nat) (p : Pair) : M Gql.TsItem := do
  let c ← onlyChildOf OC_TypeSystemDefinitionOrExtension "TypeSystemDefinitionOrExtension" p
  if c.rule = R.TypeSystemDefinition then
    let d ← onlyChildOf OC_TypeSystemDefinition "TypeSystemDefinition" c
    if d.rule = R.SchemaDefinition then return .schemaDef (← buildSchemaDefinition ctx fuel d)
    else if d.rule = R.TypeDefinition then return .typeDef (← buildTypeDefinition ctx fuel d)
    else if d.rule = R.DirectiveDefinition then return .directiveDef (← buildDirectiveDefinition ctx fuel d)
    else .error (.modelBug "TypeSystemDefinition")
  else if c.rule = R.TypeSystemExtension then
    let e ← onlyChildOf OC_TypeSystemExtension "TypeSystemExtension" c
    if e.rule = R.SchemaExtension then return .schemaExt (← buildSchemaExtension ctx fuel e)
    else if e.rule = R.TypeExtension then return .typeExt (← buildTypeExtension ctx fuel e)
    else .error (.modelBug "TypeSystemExtension")
  else .error (.modelBug "TypeSystemDefinitionOrExtension")

/-! ### documents (builder.rs) and the two public entry points (mod.rs) -/

def buildOperationDocument (ctx : Ctx) (fuel : Nat) (pairs : List Pair) : M Gql.Doc :=
  match pairs with
  | [] => .error .emptyDocument
  | p :: _ =>
    if p.rule = R.ExecutableDocument then
      (p.children.filter fun c => c.rule = R.ExecutableDefinition).mapM (buildExecutableDefinition ctx fuel)
    else .error (.unexpectedRule "Document" p.rule)

def buildTypeSystemDocument (ctx : Ctx) (fuel : Nat) (pairs : List Pair) : M Gql.TsDoc :=
  match pairs with
  | [] => .error .emptyDocument
  | p :: _ =>
    if p.rule = R.TypeSystemExtensionDocument then
      (p.children.filter fun c => c.rule = R.TypeSystemDefinitionOrExtension).mapM
        (buildTypeSystemDefinitionOrExtension ctx fuel)
    else .error (.unexpectedRule "Document" p.rule)

/-! ### `validate_unicode_escapes` (mod.rs): escapes the grammar accepts but that denote no character -/

mutual
/-- `Pairs::flatten()`: all pairs in pre-order -/
def flat : Pair → List Pair
  | .mk r s e cs => .mk r s e cs :: flatList cs
def flatList : List Pair → List Pair
  | [] => []
  | p :: ps => flat p ++ flatList ps
end

def escapeDenotesChar (digits : List Char) : Bool :=
  match parseHexU32 digits with
  | .ok n => validScalar n
  | .error _ => false

/-- is `p` a `\uXXXX` / `\u{X…}` escape that denotes no Unicode scalar value? -/
def badEscape (ctx : Ctx) (p : Pair) : Bool :=
  let s := asStr ctx p
  if p.rule = R.EscapedUnicode4 then !escapeDenotesChar (s.drop 2)
  else if p.rule = R.EscapedUnicodeBrace then !escapeDenotesChar ((s.drop 3).take (s.length - 4))
  else false

/-- offset of the first offending escape, if any — `validate_unicode_escapes` BEFORE fix fff8e9c (kept for the witness) -/
def firstBadEscapeOld (ctx : Ctx) (ps : List Pair) : Option Nat :=
  ((flatList ps).find? (badEscape ctx)).map Pair.start

/-- `u32::from_str_radix(digits, 16).ok()` -/
def hexOk (digits : List Char) : Option Nat :=
  match parseHexU32 digits with
  | .ok n => some n
  | .error _ => none

/-- the loop of `validate_unicode_escapes` over the characters of ONE `NormalStringValue` (fix fff8e9c); `pending` = a leading
    surrogate `\uD800`–`\uDBFF` that still waits for its trailing surrogate. Result: the pair reported as invalid. A pending
    lead followed by anything but a `\uXXXX` in U+DC00 … U+DFFF (another kind of character, `\u{…}`, another lead, the end
    of the literal) is an error AT THE LEAD; a trailing surrogate without lead, a `\u{…}` that denotes no scalar value are
    errors at themselves. -/
def scanEscapes (ctx : Ctx) : Option Pair → List Pair → Option Pair
  | pending, [] => pending
  | pending, ch :: rest =>
    if ch.rule = R.EscapedUnicode4 then
      match pending, hexOk ((asStr ctx ch).drop 2) with
      | some lead, some c => if isTrailSurrogate c then scanEscapes ctx none rest else some lead
      | some lead, none => some lead
      | none, some c =>
        if isLeadSurrogate c then scanEscapes ctx (some ch) rest
        else if validScalar c then scanEscapes ctx none rest else some ch
      | none, none => some ch
    else if ch.rule = R.EscapedUnicodeBrace then
      match pending with
      | some lead => some lead
      | none =>
        let s := asStr ctx ch
        if escapeDenotesChar ((s.drop 3).take (s.length - 4)) then scanEscapes ctx none rest else some ch
    else
      match pending with
      | some lead => some lead
      | none => scanEscapes ctx none rest

/-- `string.into_inner().flat_map(|c| c.into_inner())` -/
def stringCharacters (p : Pair) : List Pair := p.children.flatMap Pair.children

/-- offset of the first offending escape, if any (`validate_unicode_escapes`: every `NormalStringValue` of the flattened
    tree, in document order; a pending lead never crosses a literal boundary) -/
def firstBadEscape (ctx : Ctx) (ps : List Pair) : Option Nat :=
  (flatList ps).findSome? fun p =>
    if p.rule = R.NormalStringValue then (scanEscapes ctx none (stringCharacters p)).map Pair.start else none

inductive Outcome (α : Type) where
  | ok (a : α)
  /-- `Err(ParseError)` with the 0-based position -/
  | err (line col : Nat)
  | panic (p : Panic)
  | outOfFuel
  deriving Repr, Inhabited

def Outcome.isPanic {α} : Outcome α → Bool
  | .panic _ => true
  | _ => false

/-- the grammar the parser is generated from, list-backed (what theorems evaluate) -/
def gList : G := G.ofList grammar whitespaceRule commentRule
/-- the same grammar, array-backed (what the compiled driver runs); `Peg.G.ofArray_look` -/
def gArr : G := G.ofArray grammar.toArray whitespaceRule commentRule

def parseWith {α} (g : G) (mkCtx : List Char → Ctx) (root : RuleId) (build : Ctx → Nat → List Pair → M α)
    (inp : List Char) : Outcome α :=
  match Peg.parse g (defaultFuel inp) root inp with
  | .error att => let lc := lineCol inp att; .err lc.1 lc.2
  | .outOfFuel => .outOfFuel
  | .pairs ps =>
    let ctx := mkCtx inp
    match firstBadEscape ctx ps with
    | some off => let lc := lineCol inp off; .err lc.1 lc.2
    | none =>
      match build ctx (4 * inp.length + 64) ps with
      | .ok a => .ok a
      | .error .fuel => .outOfFuel
      | .error p => .panic p

/-- `parseWith` BEFORE fix fff8e9c: the old validation, the old string builder cannot be reached through the document
    builders any more, so only the validation verdict is modelled (kept for the witness) -/
def rejectsOld (root : RuleId) (inp : List Char) : Option (Nat × Nat) :=
  match Peg.parse gList (defaultFuel inp) root inp with
  | .pairs ps => (firstBadEscapeOld (Ctx.spec inp) ps).map (lineCol inp)
  | _ => none

/-- model of `parse_operation_document` -/
def parseOp (inp : List Char) : Outcome Gql.Doc :=
  parseWith gList Ctx.spec R.ExecutableDocument buildOperationDocument inp
/-- model of `parse_type_system_document` -/
def parseTs (inp : List Char) : Outcome Gql.TsDoc :=
  parseWith gList Ctx.spec R.TypeSystemExtensionDocument buildTypeSystemDocument inp

/-- the same two functions with O(1) tables (array-backed grammar, position/text tables) for the driver -/
def parseOpFast (inp : List Char) : Outcome Gql.Doc :=
  parseWith gArr Ctx.ofInput R.ExecutableDocument buildOperationDocument inp
def parseTsFast (inp : List Char) : Outcome Gql.TsDoc :=
  parseWith gArr Ctx.ofInput R.TypeSystemExtensionDocument buildTypeSystemDocument inp

end NitroVerif.Build
