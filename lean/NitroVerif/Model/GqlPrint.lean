import NitroVerif.Gql.Ast
import NitroVerif.Model.JsTemplate
/-
Model of `crates/printer/src/graphql_printer/{ast,base,ext,utils}.rs`: `GraphQLPrinter::print_graphql`
for type-system documents and executable documents, as a function to a list of printer tokens.

A printer token is either a *significant* GraphQL token (punctuator, name/keyword, variable, number, string — the
string by VALUE, its text is `printString value`), or *layout* (`lay`: the spaces, newlines and commas
the printer writes between tokens — all of it is `Ignored` in GraphQL), or an indentation operation of
the `SourceMapWriter`. `Tok.ops` turns tokens into writer operations; the text is then produced by the
writer models of `Model/JsTemplate.lean` (`justText` for `JustWriter`, `jsLiteral` for `JsStringWriter`).
The Rust code writes several tokens in one chunk (`"type "`, `" implements"`, `": "`, `"{\n"` …); both
writers are character-level machines, so only the concatenation matters (K compares the text byte for byte).

State of the code modelled: the tree after the C16 repairs (see design-notes/C16.md):
  * `print_string` escapes `\` in the quoted form and uses the block form only when the block string
    lexes back (`canBlock`); a double quote is still written as is in the quoted form (escaping it changes
    the pinned `read_introspection` snapshot — recorded as an open finding);
  * variable definitions print their default value and directives;
  * `extend schema @d` prints no `{}`.
Known and kept (pinned by the parser's `union_definition` snapshot): `extend union U @d` prints `extend union U @d =`,
which does not parse back (open finding).
Nothing else is changed: e.g. `schema @a@b{`, `implements & A & B`, `= | A | B`, `on | A | B`, arguments
with two or more entries one per line, `... on T  @d{`.

`Option<Arguments>` / `Option<VariablesDefinition>` / `Option<ArgumentsDefinition>` of the Rust AST are
`some` exactly when the list is non-empty (the grammar requires one entry), so the model prints the
brackets iff the list is non-empty.
Core Lean only.
-/
namespace NitroVerif.GqlPrint
open NitroVerif.Gql NitroVerif.JsTemplate

/-! ### string literals (`utils.rs print_string`) -/

/-- `char::is_control` (general category Cc) -/
def isControl (c : Char) : Bool := c.toNat < 32 ∨ (127 ≤ c.toNat ∧ c.toNat < 160)

def hexDigit (n : Nat) : Char := if n < 10 then Char.ofNat (48 + n) else Char.ofNat (87 + n)

/-- `format!("{:x}", n)` for a `u32`: lower-case hexadecimal without leading zeros (fuel = 8 nibbles) -/
def hexLowerAux : Nat → Nat → List Char → List Char
  | 0, _, acc => acc
  | f + 1, n, acc => if n < 16 then hexDigit n :: acc else hexLowerAux f (n / 16) (hexDigit (n % 16) :: acc)
def hexLower (n : Nat) : List Char := hexLowerAux 8 n []

/-- one character of the single-line (quoted) form (`"` is NOT escaped by the code) -/
def quotedChar (c : Char) : List Char :=
  if c = '\\' then ['\\', '\\']
  else if c = '\r' then ['\\', 'r']
  else if c = '\n' then ['\\', 'n']
  else if isControl c then ['\\', 'u', '{'] ++ hexLower c.toNat ++ ['}']
  else [c]

def quotedBody : List Char → List Char
  | [] => []
  | c :: cs => quotedChar c ++ quotedBody cs

def printQuoted (s : List Char) : List Char := '"' :: (quotedBody s ++ ['"'])

/-- the block form: `"""` inside the string is written `\"""`; `n` = `dq_count` -/
def escTriple : Nat → List Char → List Char
  | n, [] => List.replicate n '"'
  | n, c :: cs =>
    if c ≠ '"' then List.replicate n '"' ++ c :: escTriple 0 cs
    else if n + 1 = 3 then ['\\', '"', '"', '"'] ++ escTriple 0 cs
    else escTriple (n + 1) cs

def printBlock (s : List Char) : List Char := ['"', '"', '"'] ++ escTriple 0 s ++ ['"', '"', '"']

/-- the last character of `s` (`d` if `s` is empty) -/
def lastOf : Option Char → List Char → Option Char
  | d, [] => d
  | _, c :: cs => lastOf (some c) cs

/-- `can_print_as_block_string`: the block form lexes back — the text does not end with `"` or `\`
    and contains no control character other than TAB and LF -/
def canBlock (s : List Char) : Bool :=
  lastOf none s ≠ some '"' ∧ lastOf none s ≠ some '\\' ∧ s.all fun c => c = '\n' ∨ c = '\t' ∨ !isControl c

def useBlock (s : List Char) : Bool := s.contains '\n' ∧ canBlock s

def printString (s : List Char) : List Char :=
  if useBlock s then printBlock s else printQuoted s

/-! ### tokens -/

inductive Tok where
  | p (s : String)
  | name (s : String)
  /-- a variable `$name`: written as the two chunks `"$"` and `name` (`Variable::print_graphql`) -/
  | var (n : String)
  | int (s : String)
  | float (s : String)
  | str (v : String)
  | lay (s : String)
  | ind
  | ded
  deriving Repr, Inhabited, DecidableEq

/-- the `SourceMapWriter` calls a token stands for -/
def Tok.ops : Tok → List WOp
  | .p s | .name s | .int s | .float s | .lay s => [.write s.toList]
  | .var n => [.write ['$'], .write n.toList]
  | .str v => [.write (printString v.toList)]
  | .ind => [.indent]
  | .ded => [.dedent]

def Tok.isSig : Tok → Bool
  | .p _ | .name _ | .var _ | .int _ | .float _ | .str _ => true
  | _ => false

/-- the significant tokens (what a GraphQL lexer sees, strings by value) -/
def sig (ts : List Tok) : List Tok := ts.filter Tok.isSig

def ops (ts : List Tok) : List WOp := ts.flatMap Tok.ops
/-- text written into a `JustWriter` -/
def text (ts : List Tok) : List Char := justText (ops ts)

def sp : Tok := .lay " "
def nl : Tok := .lay "\n"

/-! ### base.rs -/

def printType : GType → List Tok
  | .named n _ => [.name n]
  | .list t _ => .p "[" :: printType t ++ [.p "]"]
  | .nonNull t => printType t ++ [.p "!"]

mutual
def printValue : Value → List Tok
  | .var n _ => [.var n]
  | .int s _ => [.int s]
  | .float s _ => [.float s]
  | .str s _ => [.str s]
  | .bool b _ => [.name (if b then "true" else "false")]
  | .null _ => [.name "null"]
  | .enum n _ => [.name n]
  | .list vs _ => .p "[" :: printValueList vs true ++ [.p "]"]
  | .obj fs _ =>
    match fs with
    | [] => [.p "{", .p "}"]
    | [(k, _, v)] => [.p "{", .name k, .p ":", sp] ++ printValue v ++ [.p "}"]
    | fs => [.p "{", nl, .ind] ++ printFieldLines fs ++ [.ded, .p "}"]
/-- list items separated by `","` -/
def printValueList : List Value → Bool → List Tok
  | [], _ => []
  | v :: vs, first => (if first then [] else [.lay ","]) ++ printValue v ++ printValueList vs false
/-- `name: value\n` per entry (object values and arguments with two or more entries) -/
def printFieldLines : List (Name × Pos × Value) → List Tok
  | [] => []
  | (k, _, v) :: r => [.name k, .p ":", sp] ++ printValue v ++ [nl] ++ printFieldLines r
end

/-! ### ast.rs — shared pieces -/

/-- `Arguments` -/
def printArgs : List Arg → List Tok
  | [] => []
  | [(k, _, v)] => [.p "(", .name k, .p ":", sp] ++ printValue v ++ [.p ")"]
  | as => [.p "(", nl, .ind] ++ printFieldLines as ++ [.ded, .p ")"]

def printDirective (d : Directive) : List Tok :=
  [.p "@", .name d.name] ++ printArgs d.args

/-- `for d in directives { write(" "); d.print }` -/
def printDirs : List Directive → List Tok
  | [] => []
  | d :: ds => sp :: printDirective d ++ printDirs ds

/-- directives written without any separator (`schema @a@b{`) -/
def printDirsTight : List Directive → List Tok
  | [] => []
  | d :: ds => printDirective d ++ printDirsTight ds

def printDesc : Option String → List Tok
  | none => []
  | some s => [.str s, nl]

/-! ### executable documents -/

mutual
def printSelection : Selection → List Tok
  | .field al n _ as ds ss =>
    (match al with
     | some (a, _) => [.name a, .p ":", sp]
     | none => []) ++ [.name n] ++ printArgs as ++ printDirs ds ++
    (match ss with
     | some xs => sp :: ([.p "{", nl, .ind] ++ printSelLines xs ++ [.ded, .p "}"])
     | none => [])
  | .spread n _ ds _ => [.p "...", sp, .name n] ++ printDirs ds
  | .inline c ds ss _ =>
    [.p "...", sp] ++
    (match c with
     | some (t, _) => [.name "on", sp, .name t, sp]
     | none => []) ++ printDirs ds ++ ([.p "{", nl, .ind] ++ printSelLines ss ++ [.ded, .p "}"])
def printSelLines : List Selection → List Tok
  | [] => []
  | s :: ss => printSelection s ++ [nl] ++ printSelLines ss
end

def printSelSet (ss : List Selection) : List Tok :=
  [.p "{", nl, .ind] ++ printSelLines ss ++ [.ded, .p "}"]

def printVarDef (v : VarDef) : List Tok :=
  [.var v.name, .p ":", sp] ++ printType v.ty ++
  (match v.default with
   | some dv => [sp, .p "=", sp] ++ printValue dv
   | none => []) ++ printDirs v.dirs

def printVarDefsSep : List VarDef → Bool → List Tok
  | [], _ => []
  | v :: vs, first => (if first then [] else [.lay ",\n"]) ++ printVarDef v ++ printVarDefsSep vs false

def printVarDefs : List VarDef → List Tok
  | [] => []
  | [v] => [.p "("] ++ printVarDef v ++ [.p ")"]
  | vs => [.p "(", nl, .ind] ++ printVarDefsSep vs true ++ [.ded, nl, .p ")"]

def printOperation (o : OperationDef) : List Tok :=
  [.name o.kind.asStr] ++
  (match o.name with
   | some (n, _) => [sp, .name n]
   | none => []) ++ printVarDefs o.vars ++ printDirs o.dirs ++ [sp] ++ printSelSet o.sel ++ [nl]

def printFragment (f : FragmentDef) : List Tok :=
  [.name "fragment", sp, .name f.name, sp, .name "on", sp, .name f.cond] ++ printDirs f.dirs ++ [sp] ++
  printSelSet f.sel ++ [nl]

def printImportTargets : List (Option (Name × Pos)) → Bool → List Tok
  | [], _ => []
  | t :: ts, first =>
    (if first then [] else [.lay ", "]) ++
    (match t with
     | some (n, _) => [.name n]
     | none => [.p "*"]) ++ printImportTargets ts false

/-- `#import A, B from "path"` (nitrogql extension; `#` and `*` are written as punctuators here) -/
def printImport (i : ImportDef) : List Tok :=
  [.p "#", .name "import", sp] ++ printImportTargets i.targets true ++ [sp, .name "from", sp, .str i.path, nl]

def printExecDef : ExecDef → List Tok
  | .op o => printOperation o
  | .frag f => printFragment f
  | .imp i => printImport i

/-- `OperationDocument` / `OperationDocumentExt` -/
def printDoc : Doc → List Tok
  | [] => []
  | d :: ds => printExecDef d ++ printDoc ds

/-! ### type-system documents -/

def printInputValueDef (v : InputValueDef) : List Tok :=
  printDesc v.desc ++ [.name v.name, .p ":", sp] ++ printType v.ty ++
  (match v.default with
   | some dv => [sp, .p "=", sp] ++ printValue dv
   | none => []) ++ printDirs v.dirs

def printArgDefsSep : List InputValueDef → Bool → List Tok
  | [], _ => []
  | v :: vs, first => (if first then [] else [.lay ", "]) ++ printInputValueDef v ++ printArgDefsSep vs false

/-- `ArgumentsDefinition` -/
def printArgDefs : List InputValueDef → List Tok
  | [] => []
  | vs => [.p "("] ++ printArgDefsSep vs true ++ [.p ")"]

def printFieldDef (f : FieldDef) : List Tok :=
  printDesc f.desc ++ [.name f.name] ++ printArgDefs f.args ++ [.p ":", sp] ++ printType f.ty ++ printDirs f.dirs

def printEnumValueDef (v : EnumValueDef) : List Tok :=
  printDesc v.desc ++ [.name v.name] ++ printDirs v.dirs

def printFieldLinesTs : List FieldDef → List Tok
  | [] => []
  | f :: fs => printFieldDef f ++ [nl] ++ printFieldLinesTs fs
def printEnumValueLines : List EnumValueDef → List Tok
  | [] => []
  | f :: fs => printEnumValueDef f ++ [nl] ++ printEnumValueLines fs
def printInputLines : List InputValueDef → List Tok
  | [] => []
  | f :: fs => printInputValueDef f ++ [nl] ++ printInputLines fs

/-- ` {\n` … `}` when the body is non-empty -/
def braced (body : List Tok) (empty : Bool) : List Tok :=
  if empty then [] else [sp, .p "{", nl, .ind] ++ body ++ [.ded, .p "}"]

def printImplements : List (Name × Pos) → List Tok
  | [] => []
  | is => [sp, .name "implements"] ++ is.flatMap fun (n, _) => [sp, .p "&", sp, .name n]

def printMembers (ms : List (Name × Pos)) : List Tok :=
  ms.flatMap fun (n, _) => [sp, .p "|", sp, .name n]

def kindKeyword : TypeKind → String
  | .scalar => "scalar" | .object => "type" | .interface => "interface"
  | .union => "union" | .enum => "enum" | .input => "input"

/-- the part of a type definition / extension after its name; `ext` = it is an extension -/
def printTypeBody (t : TypeDef) (ext : Bool) : List Tok :=
  match t.kind with
  | .scalar => printDirs t.dirs ++ [nl]
  | .object | .interface =>
    printImplements t.implements ++ printDirs t.dirs ++ braced (printFieldLinesTs t.fields) t.fields.isEmpty ++ [nl]
  | .union =>
    printDirs t.dirs ++ [sp, .p "="] ++ printMembers t.members ++ [nl]
  | .enum => printDirs t.dirs ++ braced (printEnumValueLines t.values) t.values.isEmpty ++ [nl]
  | .input => printDirs t.dirs ++ braced (printInputLines t.inputs) t.inputs.isEmpty ++ [nl]

def printTypeDef (t : TypeDef) : List Tok :=
  printDesc t.desc ++ [.name (kindKeyword t.kind), sp, .name t.name] ++ printTypeBody t false

def printTypeExt (t : TypeDef) : List Tok :=
  [.name "extend", sp, .name (kindKeyword t.kind), sp, .name t.name] ++ printTypeBody t true

def printRoots : List (OpKind × Name × Pos) → List Tok
  | [] => []
  | (k, n, _) :: r => [.name k.asStr, .p ":", sp, .name n, nl] ++ printRoots r

def printSchemaDef (s : SchemaDef) : List Tok :=
  printDesc s.desc ++ [.name "schema", sp] ++ printDirsTight s.dirs ++ [.p "{", nl, .ind] ++ printRoots s.roots ++
  [.ded, .p "}", nl]

def printSchemaExt (s : SchemaDef) : List Tok :=
  [.name "extend", sp, .name "schema", sp] ++ printDirsTight s.dirs ++
  (if s.roots.isEmpty then [nl] else [.p "{", nl, .ind] ++ printRoots s.roots ++ [.ded, .p "}", nl])

def printLocations (ls : List Name) : List Tok :=
  ls.flatMap fun n => [sp, .p "|", sp, .name n]

def printDirectiveDef (d : DirectiveDef) : List Tok :=
  printDesc d.desc ++ [.name "directive", sp, .p "@", .name d.name] ++ printArgDefs d.args ++
  (if d.repeatable then [sp, .name "repeatable"] else []) ++ [sp, .name "on"] ++ printLocations d.locations ++ [nl]

def printTsItem : TsItem → List Tok
  | .schemaDef s => printSchemaDef s
  | .typeDef t => printTypeDef t
  | .directiveDef d => printDirectiveDef d
  | .schemaExt s => printSchemaExt s
  | .typeExt t => printTypeExt t

/-- `TypeSystemDocument` (what `serverGraphqlOutput` prints) -/
def printTsDoc : TsDoc → List Tok
  | [] => []
  | i :: is => printTsItem i ++ printTsDoc is

/-- `TypeSystemOrExtensionDocument`: an extra newline after every definition -/
def printTsExtDoc : TsDoc → List Tok
  | [] => []
  | i :: is => printTsItem i ++ [nl] ++ printTsExtDoc is

/-! ### `cli/src/builtins.rs remove_builtins`, `plugin/src/model_plugin transform_document_for_runtime_server` -/

def nitroName : Name := "nitrogql_ts_type"
def modelName : Name := "model"

def dropDirs (n : Name) (ds : List Directive) : List Directive := ds.filter fun d => d.name != n

/-- `remove_builtins`: drops the definition of `@nitrogql_ts_type` and its applications on scalar definitions -/
def removeBuiltinsItem : TsItem → Option TsItem
  | .directiveDef d => if d.name != nitroName then some (.directiveDef d) else none
  | .typeDef t =>
    if t.kind = .scalar then some (.typeDef { t with dirs := dropDirs nitroName t.dirs }) else some (.typeDef t)
  | i => some i

def removeBuiltins (d : TsDoc) : TsDoc := d.filterMap removeBuiltinsItem

/-- the model plugin: drops the definition of `@model` and its applications on object types and their fields -/
def removeModelItem : TsItem → Option TsItem
  | .directiveDef d => if d.name = modelName then none else some (.directiveDef d)
  | .typeDef t =>
    if t.kind = .object then
      some (.typeDef { t with dirs := dropDirs modelName t.dirs,
                              fields := t.fields.map fun f => { f with dirs := dropDirs modelName f.dirs } })
    else some (.typeDef t)
  | i => some i

def removeModel (d : TsDoc) : TsDoc := d.filterMap removeModelItem

/-- `generate.rs`: the text of the `serverGraphqlOutput` module for the checked document `d` -/
def serverGraphqlOutput (d : TsDoc) (modelPlugin : Bool) : List Char :=
  let d := removeBuiltins d
  let d := if modelPlugin then removeModel d else d
  serverModule (ops (printTsDoc d))

end NitroVerif.GqlPrint
