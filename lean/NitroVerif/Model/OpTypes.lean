/-
Executable model of nitrogql's operation type printer
(`crates/printer/src/operation_type_printer/{type_printer,deep_merge,selection_set_visitor,visitor}.rs`,
`selection_tree/{mod,to_ts}.rs`, `utils.rs interface_implementers`, `operation_base_printer/mod.rs` for names).

  implTree  = get_type_for_selection_set          (selection set + parent type  ↦ selection tree)
  toTs      = generate_selection_tree_type        (selection tree ↦ TypeScript type, in the shape the emitted text
                                                   has after printing and parsing: `A | B | null` is ONE union)
  opDecls   = the `type … = …;` statements of the operation declaration file that carry Result / fragment types

The model follows the code, including its panics (`Panic`) and its defects:
  * (§9-a — REPAIRED in /repo 0bbdfa6: when two same-key object fields are merged, sub-tree branches were matched BY
    TYPE NAME ONLY, ignoring the branch's variable assignment; a branch now carries its assignment and branches are
    paired when the assignments agree on shared variables — `mergeBranchesWith`.  The pre-repair pairing is kept as
    `mergeBranchesByNameOnly` / `mergeTreesOld` so that the kernel-checked counterexample of Props/C01.lean keeps
    saying what was wrong);
  * (§9-b, §9-c — REPAIRED in /repo 72cec20: `__typename` was recognised by field name when the tree is built but
    by response key when it is printed; the leaf now carries `is_typename`, and so does the model);
  * (REPAIRED in /repo dda35cd: a field went to the ALIASED group (`Others` of `__SelectionSet`) whenever it had an
    alias, also when the alias is the field's own name (`a: a`); such a field was then never merged with unaliased
    selections of the same response key.  It now goes to the aliased group only if the alias differs from the field name —
    `isAliased`.  The pre-repair partition is kept as `implTreeOld` / `fieldsForOld` for the kernel-checked counterexample
    `alias_equals_key_counterexample` of Props/C01.lean);
  * a leaf merged with an object under one response key panics (`mergeFields`; §9-h).
Every function is structurally recursive (explicit fuel where the code recurses through fragments / merged trees),
so concrete witnesses evaluate in the kernel.  Core Lean only.
-/
import NitroVerif.Gql.Schema
import NitroVerif.Ts.Syntax
namespace NitroVerif.OpTypes
open NitroVerif.Gql

/-- the `expect`/`panic!` sites of the modelled code -/
inductive Panic where
  /-- `.expect("Type system error")` / `panic!("Type system error")` in type_printer.rs, selection_set_visitor.rs -/
  | typeSystemError
  /-- `panic!("Cannot merge fields of different types")` (deep_merge.rs merge_fields) -/
  | mergeFieldsDifferentTypes
  /-- `panic!("Cannot merge selection trees of different types")` (deep_merge.rs merge_selection_trees) -/
  | mergeTreesDifferentTypes
  /-- the model ran out of fuel (the code would not terminate / overflow its stack: cyclic fragments) -/
  | outOfFuel
  deriving DecidableEq, Repr, Inhabited

mutual
/-- `SelectionTree` -/
inductive SelTree where
  | nonNull (t : SelTree)
  | list (t : SelTree)
  | object (bs : List Branch)
/-- `SelectionTreeBranch { type_name, boolean_variables, unaliased_fields, aliased_fields }` -/
inductive Branch where
  | mk (typeName : Name) (vars : List (Name × Bool)) (unaliased aliased : List SField)
/-- `SelectionTreeField` -/
inductive SField where
  | empty (name : Name)
  | leaf (name : Name) (ty : GType) (isTypename : Bool)
  | object (name : Name) (sel : SelTree)
end

instance : Inhabited SelTree := ⟨.object []⟩
instance : Inhabited SField := ⟨.empty ""⟩
instance : Inhabited Branch := ⟨.mk "" [] [] []⟩

def SField.name : SField → Name
  | .empty n => n
  | .leaf n _ _ => n
  | .object n _ => n

def Branch.typeName : Branch → Name
  | .mk n _ _ _ => n
def Branch.vars : Branch → List (Name × Bool)
  | .mk _ v _ _ => v
def Branch.unaliased : Branch → List SField
  | .mk _ _ u _ => u
def Branch.aliased : Branch → List SField
  | .mk _ _ _ a => a

abbrev Frags := Name → Option FragmentDef

/-- `fragment_definitions`: a `HashMap` collected from the definitions in order — the LAST definition of a name wins -/
def fragsOf (d : Doc) : Frags := fun n =>
  d.foldl (fun acc x => match x with
    | .frag f => if f.name == n then some f else acc
    | _ => acc) none

/-- `BranchingCondition { parent_obj, boolean_variables }` -/
structure Cond where
  obj : TypeDef
  vars : List (Name × Bool)
  deriving Inhabited

/-! ### directives -/

/-- `directive.arguments.iter().flatten().find(|(arg, _)| arg.name == "if")` -/
def ifArg (d : Directive) : Option Value :=
  (d.args.find? (·.1 == "if")).map (·.2.2)

/-- the variable of a `@skip`/`@include` as `get_boolean_variables` finds it: the first argument that is named
    `if` AND is a variable -/
def ifVariable (d : Directive) : Option Name :=
  d.args.findSome? fun a => if a.1 != "if" then none else match a.2.2 with
    | .var v _ => some v
    | _ => none

/-- `check_skip_directive`: is the selection excluded under the branch's assignment? -/
def checkSkip (vars : List (Name × Bool)) : List Directive → Except Panic Bool
  | [] => .ok false
  | d :: ds =>
    if d.name == "skip" then
      match ifArg d with
      | none => .error .typeSystemError
      | some (.var v _) =>
        match vars.find? (·.1 == v) with
        | none => .error .typeSystemError
        | some (_, b) => if b then .ok true else checkSkip vars ds
      | some (.bool b _) => if b then .ok true else checkSkip vars ds
      | some _ => checkSkip vars ds
    else if d.name == "include" then
      match ifArg d with
      | none => .error .typeSystemError
      | some (.var v _) =>
        match vars.find? (·.1 == v) with
        | none => .error .typeSystemError
        | some (_, b) => if !b then .ok true else checkSkip vars ds
      | some (.bool b _) => if !b then .ok true else checkSkip vars ds
      | some _ => checkSkip vars ds
    else checkSkip vars ds

def Selection.dirs : Selection → List Directive
  | .field _ _ _ _ ds _ => ds
  | .spread _ _ ds _ => ds
  | .inline _ ds _ _ => ds

/-- variables pushed by the visitor closure of `get_boolean_variables` for one selection -/
def dirVars (ds : List Directive) : List Name :=
  ds.filterMap fun d => if d.name == "skip" || d.name == "include" then ifVariable d else none

/-- `visit_fields_in_selection_set` with the closure of `get_boolean_variables`, as a work list (depth-first,
    pre-order — the order of the recursive code): every selection is visited; a spread is entered once
    (`seen_fragments`), an inline fragment always; sub-selections of fields are NOT entered. -/
def boolVarsGo (F : Frags) : Nat → List Selection → List Name → List Name → Except Panic (List Name)
  | 0, [], _, acc => .ok acc
  | 0, _ :: _, _, _ => .error .outOfFuel
  | _ + 1, [], _, acc => .ok acc
  | fuel + 1, s :: rest, seen, acc =>
    let acc := acc ++ dirVars (Selection.dirs s)
    match s with
    | .field .. => boolVarsGo F fuel rest seen acc
    | .spread n _ _ _ =>
      if seen.contains n then boolVarsGo F fuel rest seen acc
      else match F n with
        | none => .error .typeSystemError
        | some f => boolVarsGo F fuel (f.sel ++ rest) (seen ++ [n]) acc
    | .inline _ _ ss _ => boolVarsGo F fuel (ss ++ rest) seen acc

/-- `get_boolean_variables` followed by itertools' `.unique()` (first occurrences, in order) -/
def boolVars (F : Frags) (fuel : Nat) (ss : List Selection) : Except Panic (List Name) :=
  (boolVarsGo F fuel ss [] []).map List.eraseDups

/-- `multi_cartesian_product` of `[(v,false),(v,true)]` per variable: lexicographic, the last variable fastest -/
def assignments : List Name → List (List (Name × Bool))
  | [] => [[]]
  | v :: vs => (assignments vs).map ((v, false) :: ·) ++ (assignments vs).map ((v, true) :: ·)

/-! ### branches -/

/-- `interface_implementers`: object types, in `iter_types` order, whose `interfaces` list the name -/
def implementers (S : Schema) (iface : Name) : List TypeDef :=
  S.typeNames.filterMap fun n => match S.typeDef? n with
    | some t => if t.kind == .object && t.implements.any (·.1 == iface) then some t else none
    | none => none

/-- the `parent_objects` of `generate_branching_conditions` -/
def parentObjects (S : Schema) (parent : Name) : Except Panic (List TypeDef) :=
  match S.typeDef? parent with
  | none => .error .typeSystemError
  | some t =>
    match t.kind with
    | .scalar | .enum | .input => .error .typeSystemError
    | .object => .ok [t]
    | .interface => .ok (implementers S t.name)
    | .union => t.members.mapM fun m => match S.typeDef? m.1 with
      | some o => if o.kind == .object then .ok o else .error .typeSystemError
      | none => .error .typeSystemError

/-- `generate_branching_conditions`: objects × assignments (object-major) -/
def branchConds (S : Schema) (F : Frags) (fuel : Nat) (ss : List Selection) (parent : Name) :
    Except Panic (List Cond) := do
  let objs ← parentObjects S parent
  let vars ← boolVars F fuel ss
  .ok (objs.flatMap fun o => (assignments vars).map fun a => ⟨o, a⟩)

/-- `check_fragment_condition` -/
def fragmentApplies (S : Schema) (obj : TypeDef) (cond : Name) : Except Panic Bool :=
  match S.typeDef? cond with
  | none => .error .typeSystemError
  | some c =>
    match c.kind with
    | .object => .ok (obj.name == c.name)
    | .interface => .ok (obj.implements.any (·.1 == c.name))
    | .union => .ok (c.members.any (·.1 == obj.name))
    | _ => .ok false

/-! ### merging (deep_merge.rs) -/

/-- `merge_fields`, given the function that merges two selection trees -/
def mergeFieldsWith (mt : SelTree → SelTree → Except Panic SelTree) : SField → SField → Except Panic SField
  | .empty n, .empty _ => .ok (.empty n)
  | .leaf n t b, .leaf _ _ _ => .ok (.leaf n t b)
  | .leaf n t b, .empty _ => .ok (.leaf n t b)
  | .empty _, .leaf n t b => .ok (.leaf n t b)
  | .object n l, .object _ r => do .ok (.object n (← mt l r))
  | .empty _, .object n r => .ok (.object n r)
  | .object n l, .empty _ => .ok (.object n l)
  | _, _ => .error .mergeFieldsDifferentTypes

/-- replace the first field named like `f` by its merge with `f` -/
def mergeInto (mt : SelTree → SelTree → Except Panic SelTree) (f : SField) : List SField → Except Panic (List SField)
  | [] => .ok [f]
  | g :: gs =>
    if g.name == f.name then do .ok ((← mergeFieldsWith mt g f) :: gs)
    else do .ok (g :: (← mergeInto mt f gs))

/-- `deep_merge_selection_tree`: fold the fields into an accumulator; a field whose name was seen is merged into
    the first accumulated field of that name (which keeps its position) -/
def deepMergeGo (mt : SelTree → SelTree → Except Panic SelTree) : List SField → List SField → Except Panic (List SField)
  | [], acc => .ok acc
  | f :: fs, acc =>
    if acc.any (·.name == f.name) then do deepMergeGo mt fs (← mergeInto mt f acc)
    else deepMergeGo mt fs (acc ++ [f])

def deepMergeWith (mt : SelTree → SelTree → Except Panic SelTree) (fs : List SField) : Except Panic (List SField) :=
  deepMergeGo mt fs []

/-- `merge_boolean_variables`: the left assignment followed by the right one's new variables; `none` if they
    disagree on a shared variable -/
def unifyVars (l r : List (Name × Bool)) : Option (List (Name × Bool)) :=
  if r.any (fun x => match l.find? (·.1 == x.1) with
      | some (_, b) => b != x.2
      | none => false) then none
  else some (l ++ r.filter fun x => !l.any (·.1 == x.1))

/-- the `Object, Object` arm of `merge_selection_trees` (after 0bbdfa6): every left branch is merged with every right
    branch of the same type name whose assignment agrees with its own on the shared variables; a left branch whose
    type does not occur on the right is kept; right branches whose type does not occur on the left are appended -/
def mergeBranchesWith (mt : SelTree → SelTree → Except Panic SelTree) (left right : List Branch) :
    Except Panic (List Branch) := do
  let merged ← left.mapM fun lb =>
    let same := right.filter (·.typeName == lb.typeName)
    if same.isEmpty then (.ok [lb] : Except Panic (List Branch))
    else same.filterMapM fun rb =>
      match unifyVars lb.vars rb.vars with
      | none => (.ok none : Except Panic (Option Branch))
      | some vars => do
        .ok (some (Branch.mk lb.typeName vars (← deepMergeWith mt (lb.unaliased ++ rb.unaliased))
          (← deepMergeWith mt (lb.aliased ++ rb.aliased))))
  .ok (merged.flatten ++ right.filter fun rb => !left.any (·.typeName == rb.typeName))

/-- `merge_selection_trees`; the fuel bounds the nesting depth of the trees -/
def mergeTrees : Nat → SelTree → SelTree → Except Panic SelTree
  | 0, _, _ => .error .outOfFuel
  | fuel + 1, .nonNull l, .nonNull r => do .ok (.nonNull (← mergeTrees fuel l r))
  | fuel + 1, .list l, .list r => do .ok (.list (← mergeTrees fuel l r))
  | fuel + 1, .object l, .object r => do .ok (.object (← mergeBranchesWith (mergeTrees fuel) l r))
  | _ + 1, _, _ => .error .mergeTreesDifferentTypes

/-- PRE-REPAIR pairing (before 0bbdfa6), kept for `merge_by_typename_counterexample`: every left branch is merged
    with the FIRST right branch of the same type name, whatever its assignment -/
def mergeBranchesByNameOnly (mt : SelTree → SelTree → Except Panic SelTree) (left right : List Branch) :
    Except Panic (List Branch) := do
  let merged ← left.mapM fun lb =>
    match right.find? (·.typeName == lb.typeName) with
    | some rb => do
      .ok (Branch.mk lb.typeName lb.vars (← deepMergeWith mt (lb.unaliased ++ rb.unaliased))
        (← deepMergeWith mt (lb.aliased ++ rb.aliased)))
    | none => .ok lb
  .ok (right.foldl (fun acc rb => if acc.any (·.typeName == rb.typeName) then acc else acc ++ [rb]) merged)

/-- PRE-REPAIR `merge_selection_trees` -/
def mergeTreesOld : Nat → SelTree → SelTree → Except Panic SelTree
  | 0, _, _ => .error .outOfFuel
  | fuel + 1, .nonNull l, .nonNull r => do .ok (.nonNull (← mergeTreesOld fuel l r))
  | fuel + 1, .list l, .list r => do .ok (.list (← mergeTreesOld fuel l r))
  | fuel + 1, .object l, .object r => do .ok (.object (← mergeBranchesByNameOnly (mergeTreesOld fuel) l r))
  | _ + 1, _, _ => .error .mergeTreesDifferentTypes

/-- `deep_merge_selection_tree` as called from `get_object_type_for_selection_set` -/
def deepMerge (mfuel : Nat) (fs : List SField) : Except Panic (List SField) :=
  deepMergeWith (mergeTrees mfuel) fs

/-! ### selection set ↦ tree (type_printer.rs) -/

/-- `type_to_selection_tree` -/
def wrapTree (mk : Name → Except Panic (List Branch)) : GType → Except Panic SelTree
  | .named n _ => do .ok (.object (← mk n))
  | .list t _ => do .ok (.list (← wrapTree mk t))
  | .nonNull t => do .ok (.nonNull (← wrapTree mk t))

/-- fields tagged with "aliased?" (`Either::Right` = aliased) -/
abbrev Tagged := Bool × SField

def toEmpty (fs : List Tagged) : List Tagged := fs.map fun (a, f) => (a, .empty f.name)

/-- `direct_fields_of_output_type(parent).find(name)`: the declared fields, then the `__typename` meta field -/
def directField? (obj : TypeDef) (fname : Name) : Option GType :=
  match obj.fields.find? (·.name == fname) with
  | some f => some f.ty
  | none => if fname == "__typename" then some (.nonNull (.named "String" { builtin := true })) else none

/-- the tree field of one `Selection::Field` (the body of the `filter_map` closure of `get_fields_for_selection_set`),
    given whether `check_skip_directive` said "skipped" and the function that types a sub-selection -/
def fieldTree (obj : TypeDef) (key name : Name) (skipped : Bool) (sub : Option (List Selection))
    (rec : GType → List Selection → Except Panic SelTree) : Except Panic SField :=
  if skipped then .ok (.empty key)
  else if name == "__typename" then .ok (.leaf key (.named "String" { builtin := true }) true)
  else match directField? obj name with
    | none => .error .typeSystemError
    | some ty => match sub with
      | none => .ok (.leaf key ty false)
      | some sub => do .ok (.object key (← rec ty sub))

/-- does the field go to the aliased group (`Either::Right`)?  After dda35cd: only if the alias renames the field -/
def isAliased (alias : Option (Name × Pos)) (name : Name) : Bool :=
  match alias with
  | some (a, _) => a != name
  | none => false

mutual
/-- `get_type_for_selection_set` -/
def implTree (S : Schema) (F : Frags) (mfuel : Nat) : Nat → GType → List Selection → Except Panic SelTree
  | 0, _, _ => .error .outOfFuel
  | fuel + 1, parent, ss =>
    wrapTree (fun n => do
      let conds ← branchConds S F mfuel ss n
      conds.mapM fun c => do
        -- get_object_type_for_selection_set
        let fs ← fieldsFor S F mfuel fuel c ss
        let un ← deepMerge mfuel ((fs.filter (!·.1)).map (·.2))
        let al ← deepMerge mfuel ((fs.filter (·.1)).map (·.2))
        .ok (Branch.mk c.obj.name c.vars un al)) parent
/-- `get_fields_for_selection_set`: the direct fields first, then the contents of the fragments -/
def fieldsFor (S : Schema) (F : Frags) (mfuel : Nat) : Nat → Cond → List Selection → Except Panic (List Tagged)
  | 0, _, _ => .error .outOfFuel
  | fuel + 1, c, ss => do
    -- `schema.get_type(&branch.parent_obj.name).expect(..)`
    let obj ← match S.typeDef? c.obj.name with
      | some t => (.ok t : Except Panic TypeDef)
      | none => .error .typeSystemError
    let simple ← ss.filterMapM fun s => match s with
      | .field alias name _ _ dirs sub => do
        let key := match alias with | some (a, _) => a | none => name
        let skipped ← checkSkip c.vars dirs
        let f ← fieldTree obj key name skipped sub (fun ty sub => implTree S F mfuel fuel ty sub)
        .ok (some (isAliased alias name, f))
      | _ => .ok none
    let frags ← ss.mapM fun s => match s with
      | .field .. => (.ok [] : Except Panic (List Tagged))
      | .spread n _ dirs _ =>
        match F n with
        | none => .error .typeSystemError
        | some fd => do
          if ← fragmentApplies S c.obj fd.cond then
            let fs ← fieldsFor S F mfuel fuel c fd.sel
            if ← checkSkip c.vars dirs then .ok (toEmpty fs) else .ok fs
          else .ok []
      | .inline none dirs sub _ => do
        let fs ← fieldsFor S F mfuel fuel c sub
        if ← checkSkip c.vars dirs then .ok (toEmpty fs) else .ok fs
      | .inline (some (cond, _)) dirs sub _ => do
        if ← fragmentApplies S c.obj cond then
          let fs ← fieldsFor S F mfuel fuel c sub
          if ← checkSkip c.vars dirs then .ok (toEmpty fs) else .ok fs
        else .ok []
    .ok (simple ++ frags.flatten)
end

mutual
/-- PRE-REPAIR `get_type_for_selection_set` (before dda35cd), kept for `alias_equals_key_counterexample` -/
def implTreeOld (S : Schema) (F : Frags) (mfuel : Nat) : Nat → GType → List Selection → Except Panic SelTree
  | 0, _, _ => .error .outOfFuel
  | fuel + 1, parent, ss =>
    wrapTree (fun n => do
      let conds ← branchConds S F mfuel ss n
      conds.mapM fun c => do
        let fs ← fieldsForOld S F mfuel fuel c ss
        let un ← deepMerge mfuel ((fs.filter (!·.1)).map (·.2))
        let al ← deepMerge mfuel ((fs.filter (·.1)).map (·.2))
        .ok (Branch.mk c.obj.name c.vars un al)) parent
/-- PRE-REPAIR `get_fields_for_selection_set`: a field is in the aliased group whenever it has an alias -/
def fieldsForOld (S : Schema) (F : Frags) (mfuel : Nat) : Nat → Cond → List Selection → Except Panic (List Tagged)
  | 0, _, _ => .error .outOfFuel
  | fuel + 1, c, ss => do
    let obj ← match S.typeDef? c.obj.name with
      | some t => (.ok t : Except Panic TypeDef)
      | none => .error .typeSystemError
    let simple ← ss.filterMapM fun s => match s with
      | .field alias name _ _ dirs sub => do
        let key := match alias with | some (a, _) => a | none => name
        let skipped ← checkSkip c.vars dirs
        let f ← fieldTree obj key name skipped sub (fun ty sub => implTreeOld S F mfuel fuel ty sub)
        .ok (some (alias.isSome, f))
      | _ => .ok none
    let frags ← ss.mapM fun s => match s with
      | .field .. => (.ok [] : Except Panic (List Tagged))
      | .spread n _ dirs _ =>
        match F n with
        | none => .error .typeSystemError
        | some fd => do
          if ← fragmentApplies S c.obj fd.cond then
            let fs ← fieldsForOld S F mfuel fuel c fd.sel
            if ← checkSkip c.vars dirs then .ok (toEmpty fs) else .ok fs
          else .ok []
      | .inline none dirs sub _ => do
        let fs ← fieldsForOld S F mfuel fuel c sub
        if ← checkSkip c.vars dirs then .ok (toEmpty fs) else .ok fs
      | .inline (some (cond, _)) dirs sub _ => do
        if ← fragmentApplies S c.obj cond then
          let fs ← fieldsForOld S F mfuel fuel c sub
          if ← checkSkip c.vars dirs then .ok (toEmpty fs) else .ok fs
        else .ok []
    .ok (simple ++ frags.flatten)
end

/-! ### tree ↦ TypeScript type (selection_tree/to_ts.rs) -/

open NitroVerif.Ts (Ty)

/-- `ts_union` -/
def tsUnion : List Ty → Ty
  | [] => .prim "never"
  | [t] => t
  | ts => .union ts

/-- `ts_union(vec![t, TSType::Null])` as the printed text reads: a union member that is itself a union is spliced
    (`print_type` writes no parentheses around it) -/
def orNull : Ty → Ty
  | .union ts => .union (ts ++ [.prim "null"])
  | t => .union [t, .prim "null"]

/-- how the printed type refers to the schema declaration file: `out n` = `NS.__OperationOutput.<n>`,
    `selSet` = `NS.__SelectionSet` (a parameter so that lemmas can speak about the types with their references
    resolved — `Refs.ofNs` is what the printer writes) -/
structure Refs where
  out : Name → Ty
  selSet : Ty

/-- the references as printed, `ns` = `schema_root_namespace` -/
def Refs.ofNs (ns : String) : Refs :=
  { out := fun n => .qref [ns, "__OperationOutput", n], selSet := .qref [ns, "__SelectionSet"] }

mutual
/-- `map_to_tstype_impl(..).0`: the type with the outermost nullability dropped -/
def leafCore (q : Name → Ty) : GType → Ty
  | .named n _ => q n
  | .list t _ => .arr (leafTs q t)
  | .nonNull t => leafCore q t
/-- `map_to_tstype` with the mapper `q` (`field_to_type` passes `NS.__OperationOutput.<n>`) -/
def leafTs (q : Name → Ty) : GType → Ty
  | .named n _ => orNull (q n)
  | .list t _ => orNull (.arr (leafTs q t))
  | .nonNull t => leafCore q t
end

mutual
/-- `generate_selection_tree_type_impl` -/
def treeTs (r : Refs) : SelTree → Bool → Ty
  | .nonNull t, _ => treeTs r t true
  | .list t, nn => let l := Ty.arr (treeTs r t false); if nn then l else orNull l
  | .object bs, nn => let b := tsUnion (branchesTs r bs); if nn then b else orNull b
def branchesTs (r : Refs) : List Branch → List Ty
  | [] => []
  | b :: bs => branchTs r b :: branchesTs r bs
def branchTs (r : Refs) : Branch → Ty
  | .mk tn _ un al =>
    .app r.selSet [r.out tn, .obj (fieldsTs r tn un), .obj (fieldsTs r tn al)]
def fieldsTs (r : Refs) (parent : Name) : List SField → List Ts.Field
  | [] => []
  | f :: fs => fieldTs r parent f :: fieldsTs r parent fs
/-- `field_to_type`: (key, readonly, optional, type) -/
def fieldTs (r : Refs) (parent : Name) : SField → Ts.Field
  | .empty n => (n, false, true, .prim "never")
  | .leaf n ty isTn => (n, false, false, if isTn then .strLit parent else leafTs r.out ty)
  | .object n sel => (n, false, false, treeTs r sel false)
end

/-- `generate_selection_tree_type` -/
def toTs (ns : String) (t : SelTree) : Ty := treeTs (Refs.ofNs ns) t false

/-! ### the declarations of the operation file that carry result types (visitor.rs, operation_base_printer) -/

structure Opts where
  capitalize : Bool := true
  resultSuffix : String := "Result"
  fragmentSuffix : String := ""
  exportResult : Bool := false
  /-- `schema_root_namespace` -/
  ns : String := "Schema"
  deriving Repr, Inhabited

/-- `nitrogql_utils::capitalize` on a GraphQL name (ASCII) -/
def capitalize (s : String) : String :=
  match s.toList with
  | [] => ""
  | c :: cs => String.ofList (c.toUpper :: cs)

/-- one `type Name = …;` statement: (name, exported, type or panic) -/
structure Decl where
  name : String
  exported : Bool
  ty : Except Panic Ty

mutual
def selSize : Selection → Nat
  | .field _ _ _ _ _ (some ss) => selSizeList ss + 1
  | .field _ _ _ _ _ none => 1
  | .spread .. => 1
  | .inline _ _ ss _ => selSizeList ss + 1
def selSizeList : List Selection → Nat
  | [] => 0
  | s :: ss => selSize s + selSizeList ss
end

/-- total number of selections of a document (+1 per definition) -/
def docSize (d : Doc) : Nat :=
  d.foldl (fun n x => match x with
    | .op o => n + selSizeList o.sel + 1
    | .frag f => n + selSizeList f.sel + 1
    | .imp _ => n) 0

/-- fuel that suffices on documents without fragment cycles: every recursive call either enters a sub-selection or
    a fragment that is not already being expanded -/
def fuelFor (d : Doc) : Nat := 2 * docSize d + 4

/-- auxiliary fuel: bounds the nesting depth of merged trees (selection nesting + wrapper depth) and the number of
    work-list steps of `boolVarsGo` (each selection of the document is visited at most once) -/
def mfuelFor (d : Doc) : Nat := docSize d + 64

def resultTree (S : Schema) (d : Doc) : ExecDef → Option (Except Panic SelTree)
  | .op o => some (implTree S (fragsOf d) (mfuelFor d) (fuelFor d)
      (.nonNull (.named (S.rootName o.kind) {})) o.sel)
  | .frag f => some (implTree S (fragsOf d) (mfuelFor d) (fuelFor d) (.nonNull (.named f.cond f.condPos)) f.sel)
  | .imp _ => none

/-- the result-type statements in document order: per operation `type <Name><resultSuffix>`, per fragment
    `export type <name><fragmentSuffix>` (fragments of the same file are exported) -/
def opDecls (S : Schema) (o : Opts) (d : Doc) : List Decl :=
  d.filterMap fun x => match x, resultTree S d x with
    | .op op, some t =>
      let nm := match op.name with
        | some (n, _) => if o.capitalize then capitalize n else n
        | none => ""
      some ⟨nm ++ o.resultSuffix, o.exportResult, t.map (toTs o.ns)⟩
    | .frag f, some t => some ⟨f.name ++ o.fragmentSuffix, true, t.map (toTs o.ns)⟩
    | _, _ => none

end NitroVerif.OpTypes
