/-
Model of crates/utils/src/relative_path.rs (normalize_path, relative_path, resolve_relative_path)
over the *components view* of a Unix path (`std::path::Path::components`):
  root = leading "/", cur = leading ".", parent = "..", normal = any other segment.
`components`/`render` (text level, used by the correspondence check) are at the end of the file.
-/
namespace NitroVerif.Paths

inductive Comp where
  | root | cur | parent
  | normal (s : String)
  deriving DecidableEq, Repr, Inhabited

abbrev P := List Comp

/-- one iteration of the loop in `normalize_path` (the stack grows at the end) -/
def normStep (stack : P) : Comp → P
  | .cur => stack
  | .normal s => stack ++ [.normal s]
  | .parent => stack.dropLast
  | .root => [.root]

/-- `normalize_path`: the stack is then pushed component by component into a fresh PathBuf, whose
    components view is the stack itself (the stack holds the root only at its head). -/
def normalize (p : P) : P := p.foldl normStep []

/-- `PathBuf::pop` on the components view: "/" and "" have no parent and stay unchanged -/
def pop (p : P) : P :=
  match p.getLast? with
  | none => p
  | some .root => p
  | some _ => p.dropLast

/-- `PathBuf::push(component.as_os_str())` on the components view -/
def push (p : P) : Comp → P
  | .root => [.root]                             -- pushing an absolute path replaces
  | .cur => if p.isEmpty then [.cur] else p     -- "x/." has the components of "x"
  | c => p ++ [c]

/-- pushing a whole path = pushing its components in order -/
def pushPath (p rel : P) : P := rel.foldl push p

def commonPrefix : P → P → Nat
  | a :: as, b :: bs => if a = b then commonPrefix as bs + 1 else 0
  | _, _ => 0

/-- the `flat_map` closure of `relative_path`; `none` is the `panic!` -/
def upOf : Comp → Option (List Comp)
  | .cur => some [.cur]
  | .normal _ => some [.parent]
  | .parent => none
  | .root => some []

def ups : P → Option P
  | [] => some []
  | c :: cs => match upOf c, ups cs with
    | some a, some b => some (a ++ b)
    | _, _ => none

def isRel : Comp → Bool
  | .cur => true
  | .parent => true
  | _ => false

/-- the final loop of `relative_path`: push the components into a fresh PathBuf, with a leading "."
    unless the first one is "." or ".."; an empty result becomes "." (repaired behaviour, `fix:` commit) -/
def finish (comps : P) : P :=
  match comps with
  | [] => [.cur]
  | c :: _ => if isRel c then comps.foldl push [] else comps.foldl push [.cur]

/-- `relative_path(from, to)`; `none` = the `panic!("Cannot calc reverse of ParentDir")` -/
def relative (fromP to : P) : Option P :=
  let f := pop (normalize fromP)
  let t := normalize to
  let n := commonPrefix f t
  match ups (f.drop n) with
  | none => none
  | some u => some (finish (u ++ t.drop n))

/-- `resolve_relative_path(from_file, relative)` (repaired: the base is normalised before `pop`) -/
def resolve (fromFile rel : P) : P :=
  normalize (pushPath (pop (normalize fromFile)) rel)

/-! ### text level (mirrors `Path::components` on Unix and `PathBuf` rendering), over `List Char` -/

def splitSlashGo : List Char → List Char → List (List Char)
  | [], cur => [cur.reverse]
  | '/' :: r, cur => cur.reverse :: splitSlashGo r []
  | c :: r, cur => splitSlashGo r (c :: cur)

/-- split at every '/' (empty segments kept) -/
def splitSlash (cs : List Char) : List (List Char) := splitSlashGo cs []

/-- segments to components: empty segments (repeated or trailing '/') are skipped, "." is kept only as
    the very first component of a relative path (`keepCur`), ".." is the parent component -/
def segsToComps (keepCur : Bool) : List (List Char) → P
  | [] => []
  | seg :: rest =>
    if seg = [] then segsToComps keepCur rest
    else if seg = ['.'] then (if keepCur then .cur :: segsToComps false rest else segsToComps false rest)
    else if seg = ['.', '.'] then .parent :: segsToComps false rest
    else .normal (String.ofList seg) :: segsToComps false rest

/-- `Path::new(s).components()` for Unix, on the characters of the path -/
def componentsL (cs : List Char) : P :=
  if cs.head? = some '/' then .root :: segsToComps false (splitSlash cs)
  else segsToComps true (splitSlash cs)

def components (s : String) : P := componentsL s.toList

def compTextL : Comp → List Char
  | .root => ['/']
  | .cur => ['.']
  | .parent => ['.', '.']
  | .normal s => s.toList

def compText (c : Comp) : String := String.ofList (compTextL c)

def joinSlash : List (List Char) → List Char
  | [] => []
  | [a] => a
  | a :: b :: rest => a ++ '/' :: joinSlash (b :: rest)

/-- characters of a PathBuf built by pushing these components one by one -/
def renderL : P → List Char
  | [] => []
  | [.root] => ['/']
  | .root :: rest => '/' :: joinSlash (rest.map compTextL)
  | cs => joinSlash (cs.map compTextL)

def render (p : P) : String := String.ofList (renderL p)

end NitroVerif.Paths
