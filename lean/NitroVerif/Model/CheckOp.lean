/-
Model of `crates/checker/src/operation_checker/{mod.rs, count_selection_set_fields.rs, fragment_map.rs}` and
`crates/semantics/src/direct_fields_of_output_type.rs`: `check_operation_document`.

`checkOp S D : List (ErrKind × Pos)` — the diagnostics in the order the code pushes them (kind = variant name
of `CheckErrorMessage`, position = the `CheckError`'s main position).

Positions the shared AST does not carry: `SelectionSet.position` (the "{" token). `SelectionOnInvalidType`
is reported at the *owner* of the selection set (field name / inline fragment / fragment definition /
operation position); the harness maps the real "{" position back to its owner before comparing.
(See `Model/CheckCommon.lean` for the same convention on argument lists.)

Recursion. `check_selection_set` recurses structurally through fields and inline fragments, and through
fragment spreads into the selection set of the spread fragment; the latter is bounded in the code by the
`seen_fragments` stack (a fragment already on the stack is reported as `RecursingFragmentSpread`).
Here the structural part is a mutual structural recursion over `Selection`, parametrised by a *spread
handler*; the handler is defined by recursion on a fuel `Nat` (`spreadHandler`). The fuel starts at
(number of fragment definitions + 1); every spread that recurses adds a new, distinct, defined fragment
name to the stack, so the fuel cannot run out before the stack check fires. The exhausted-fuel branch
(unreachable) reports `RecursingFragmentSpread`, so that `checkOp S D = []` never hides an unfinished walk.

This is the code AFTER the `fix:` commits bb13114, 0076043, 20563f6, c5d2b9d, 276cf9e, f60edb6, 647d48b,
4e8f5ac, ccd11d9, a341d33, e3584a3 (Int literals are 32-bit values: `Model/IntLit.lean`), and the fragment-definition-directive fix (see design-notes/C03.md): directives are checked at all eight executable locations, fragment
definitions no operation spreads are walked on their own (`without_variable_checks`), variable defaults are
checked, the interface-equals-interface fast path no longer skips the selection set, the subscription root
is counted by response key.
Core Lean only; structurally recursive (kernel-evaluable).
-/
import NitroVerif.Model.CheckCommon
namespace NitroVerif.CheckOp
open NitroVerif.Gql NitroVerif.CheckCommon

/-- the `__typename` meta field of `direct_fields_of_output_type` -/
def typenameField : FieldDef := { name := "__typename", ty := .nonNull (.named "String" { builtin := true }) }

/-- `direct_fields_of_output_type`: `none` for scalar / enum / input object -/
def directFields (td : TypeDef) : Option (List FieldDef) :=
  match td.kind with
  | .object | .interface => some (td.fields ++ [typenameField])
  | .union => some [typenameField]
  | _ => none

def fragsOf (D : Doc) : List FragmentDef := D.filterMap fun | .frag f => some f | _ => none
def opsOf (D : Doc) : List OperationDef := D.filterMap fun | .op o => some o | _ => none

/-- `generate_fragment_map(..).get(name)`: collecting into a `HashMap` lets the LAST definition of a name win -/
def fragMap (D : Doc) (n : Name) : Option FragmentDef := (fragsOf D).reverse.find? (·.name == n)

def implementsIface (td : TypeDef) (iface : Name) : Bool := td.implements.any (·.1 == iface)

/-- the interface × union arm of `check_fragment_spread_core`: `possible_types.iter().any(..)` with its
    short-circuit and the `TypeSystemError` pushed for a member that is not an object type -/
def unionMemberImplements (S : Schema) (iface : Name) : List (Name × Pos) → List Diag × Bool
  | [] => ([], false)
  | (m, mp) :: ms =>
    match S.typeDef? m with
    | some o =>
      if o.kind == .object then
        (if implementsIface o iface then ([], true) else unionMemberImplements S iface ms)
      else ([(ErrKind.TypeSystemError, mp)], true)
    | none => ([(ErrKind.TypeSystemError, mp)], true)

/-- the applicability analysis of `check_fragment_spread_core` (everything before its final
    `check_selection_set`): diagnostics, and whether the function goes on to check the selection set -/
def spreadApplicability (S : Schema) (root cond : TypeDef) (spreadPos : Pos) : List Diag × Bool :=
  let never := [(ErrKind.FragmentConditionNeverMatches, spreadPos)]
  match root.kind, cond.kind with
  | .scalar, _ | .enum, _ | .input, _ => ([], false)
  | .object, .object => (if root.name != cond.name then never else [], true)
  | .object, .interface => (if implementsIface root cond.name then [] else never, true)
  | .interface, .object => (if implementsIface cond root.name then [] else never, true)
  | .object, .union => (if cond.members.any (·.1 == root.name) then [] else never, true)
  | .union, .object => (if root.members.any (·.1 == cond.name) then [] else never, true)
  | .interface, .interface =>
    if root.name == cond.name then ([], true)   -- fast path: an interface always matches itself
    else
      (if S.typeNames.any (fun n => match S.typeDef? n with
          | some o => o.kind == .object && implementsIface o root.name && implementsIface o cond.name
          | none => false) then [] else never, true)
  | .interface, .union =>
    let r := unionMemberImplements S root.name cond.members
    (r.1 ++ (if r.2 then [] else never), true)
  | .union, .interface =>
    let r := unionMemberImplements S cond.name root.members
    (r.1 ++ (if r.2 then [] else never), true)
  | .union, .union =>
    (if cond.members.any (fun m2 => root.members.any (fun m1 => m1.1 == m2.1)) then [] else never, true)
  | _, _ => ([], true)

/-- what the walk does at `...Name`: (seen stack, root type, spread) ↦ diagnostics -/
abbrev SpreadHandler := List Name → Option (List VarDef) → TypeDef → Name → Pos → Pos → List Diag

mutual
/-- the loop over the selections of one selection set (`fields` = `direct_fields_of_output_type(root)`) -/
def checkSelections (S : Schema) (H : SpreadHandler) (seen : List Name) (vars : Option (List VarDef))
    (root : TypeDef) (fields : List FieldDef) : List Selection → List Diag
  | [] => []
  | s :: ss => checkSelection S H seen vars root fields s ++ checkSelections S H seen vars root fields ss
/-- `check_selection_field` / `check_fragment_spread` / `check_inline_fragment`; the nested calls of
    `check_selection_set` are written out (`directFields` test + loop) so that the recursion is structural -/
def checkSelection (S : Schema) (H : SpreadHandler) (seen : List Name) (vars : Option (List VarDef))
    (root : TypeDef) (fields : List FieldDef) : Selection → List Diag
  | .field _ name namePos args dirs sel =>
    match fields.find? (·.name == name) with
    | none => [(ErrKind.FieldNotFound, namePos)]
    | some fd =>
      checkDirectives S vars dirs "FIELD" ++
      checkArguments S vars namePos args fd.args ++
      (match S.typeDef? fd.ty.unwrapped with
       | none => [(ErrKind.TypeSystemError, namePos)]
       | some ft =>
         match sel with
         | some ss =>
           (match directFields ft with
            | none => [(ErrKind.SelectionOnInvalidType, namePos)]
            | some ffields => checkSelections S H seen vars ft ffields ss)
         | none => if (directFields ft).isSome then [(ErrKind.MustSpecifySelectionSet, namePos)] else [])
  | .spread name namePos dirs pos =>
    checkDirectives S vars dirs "FRAGMENT_SPREAD" ++ H seen vars root name namePos pos
  | .inline cond dirs ss pos =>
    checkDirectives S vars dirs "INLINE_FRAGMENT" ++
    match cond with
    | none => checkSelections S H seen vars root fields ss
    | some (c, cp) =>
      match S.typeDef? c with
      | none => [(ErrKind.UnknownType, cp)]
      | some ct =>
        let a := spreadApplicability S root ct pos
        a.1 ++ (if a.2 then
          (match directFields ct with
           | none => [(ErrKind.SelectionOnInvalidType, pos)]
           | some cfields => checkSelections S H seen vars ct cfields ss)
          else [])
end

/-- `check_selection_set`; `anchor` stands for `selection_set.position` -/
def checkSelectionSet (S : Schema) (H : SpreadHandler) (seen : List Name) (vars : Option (List VarDef))
    (root : TypeDef) (sels : List Selection) (anchor : Pos) : List Diag :=
  match directFields root with
  | none => [(ErrKind.SelectionOnInvalidType, anchor)]
  | some fields => checkSelections S H seen vars root fields sels

/-- `check_fragment_spread` (+ the part of `check_fragment_spread_core` after the stack check), by fuel -/
def spreadHandler (S : Schema) (D : Doc) : Nat → SpreadHandler
  | 0 => fun _ _ _ _ _ pos => [(ErrKind.RecursingFragmentSpread, pos)]
  | fuel + 1 => fun seen vars root name namePos pos =>
    if seen.contains name then [(ErrKind.RecursingFragmentSpread, pos)]
    else match fragMap D name with
      | none => [(ErrKind.UnknownFragment, namePos)]
      | some f =>
        checkDirectives S vars f.dirs "FRAGMENT_DEFINITION" ++
        match S.typeDef? f.cond with
        | none => []
        | some ct =>
          let a := spreadApplicability S root ct pos
          a.1 ++ (if a.2 then checkSelectionSet S (spreadHandler S D fuel) (seen ++ [name]) vars ct f.sel f.pos else [])

def fuelFor (D : Doc) : Nat := (fragsOf D).length + 1

/-! ### `selection_set_has_more_than_one_fields` (distinct response keys of the root selection set) -/

abbrev KeysHandler := List Name → Name → List Name

mutual
def rootKeys (H : KeysHandler) (seen : List Name) : List Selection → List Name
  | [] => []
  | s :: ss => rootKeysSel H seen s ++ rootKeys H seen ss
def rootKeysSel (H : KeysHandler) (seen : List Name) : Selection → List Name
  | .field (some (a, _)) _ _ _ _ _ => [a]
  | .field none n _ _ _ _ => [n]
  | .spread name _ _ _ => H seen name
  | .inline _ _ ss _ => rootKeys H seen ss
end

def keysHandler (D : Doc) : Nat → KeysHandler
  | 0 => fun _ _ => []
  | fuel + 1 => fun seen name =>
    if seen.contains name then []
    else match fragMap D name with
      | none => []
      | some f => rootKeys (keysHandler D fuel) (seen ++ [name]) f.sel

def dedupNames (xs : List Name) : List Name :=
  xs.foldl (fun acc x => if acc.contains x then acc else acc ++ [x]) []

def hasMoreThanOneField (D : Doc) (sels : List Selection) : Bool :=
  (dedupNames (rootKeys (keysHandler D (fuelFor D)) [] sels)).length > 1

/-! ### fragments used by operations (`fragments_used_by_operations`) -/

mutual
def spreadNamesSel : Selection → List Name
  | .field _ _ _ _ _ (some ss) => spreadNames ss
  | .field _ _ _ _ _ none => []
  | .spread n _ _ _ => [n]
  | .inline _ _ ss _ => spreadNames ss
def spreadNames : List Selection → List Name
  | [] => []
  | s :: ss => spreadNamesSel s ++ spreadNames ss
end

/-- one round: add the fragments spread by the fragments already in the set -/
def usedStep (D : Doc) (acc : List Name) : List Name :=
  dedupNames (acc ++ acc.flatMap fun n => match fragMap D n with | some f => spreadNames f.sel | none => [])

def usedIter (D : Doc) : Nat → List Name → List Name
  | 0, acc => acc
  | fuel + 1, acc => usedIter D fuel (usedStep D acc)

/-- the set the worklist loop of `fragments_used_by_operations` computes: the names reachable from the
    operations' selection sets through spreads (every productive round adds a defined fragment name, so
    `#fragments + 2` rounds reach the fixed point) -/
def usedFragments (D : Doc) : List Name :=
  usedIter D ((fragsOf D).length + 2) (dedupNames ((opsOf D).flatMap fun o => spreadNames o.sel))

/-- `without_variable_checks`: the diagnostics of a check run without variables, minus `UnknownVariable` -/
def withoutVariableChecks (ds : List Diag) : List Diag := ds.filter fun d => d.1 != ErrKind.UnknownVariable

/-! ### definitions -/

/-- `check_variables_definition` with its `seen_variables` accumulator -/
def checkVariablesAux (S : Schema) : List Name → List VarDef → List Diag
  | _, [] => []
  | seen, v :: vs =>
    (if seen.contains v.name then [(ErrKind.DuplicatedVariableName, v.pos)] else []) ++
    checkDirectives S none v.dirs "VARIABLE_DEFINITION" ++
    (match isInputType? S v.ty.unwrapped with
     | none => [(ErrKind.UnknownType, typePos v.ty)]
     | some true => (match v.default with | some d => checkValue S none d v.ty false | none => [])
     | some false => [(ErrKind.NoOutputType, typePos v.ty)]) ++
    checkVariablesAux S (if seen.contains v.name then seen else seen ++ [v.name]) vs

def opLocation : OpKind → String
  | .query => "QUERY" | .mutation => "MUTATION" | .subscription => "SUBSCRIPTION"

/-- there is an explicit schema definition (`!root_types.original_node_ref().builtin`) -/
def hasExplicitSchema (S : Schema) : Bool :=
  match S.schemaDefs with
  | [] => false
  | d :: _ => !d.pos.builtin

/-- `check_operation` -/
def checkOperation (S : Schema) (D : Doc) (op : OperationDef) : List Diag :=
  if hasExplicitSchema S && (S.explicitRoot? op.kind).isNone then [(ErrKind.NoRootType, op.pos)]
  else match S.typeDef? (S.rootName op.kind) with
    | none => [(ErrKind.UnknownType, op.pos)]
    | some root =>
      checkDirectives S (some op.vars) op.dirs (opLocation op.kind) ++
      checkVariablesAux S [] op.vars ++
      (if op.kind == .subscription && hasMoreThanOneField D op.sel
        then [(ErrKind.SubscriptionMustHaveExactlyOneRootField, op.pos)] else []) ++
      checkSelectionSet S (spreadHandler S D (fuelFor D)) [] (some op.vars) root op.sel op.pos

/-- `check_fragment_definition` -/
def checkFragmentDefinition (S : Schema) (D : Doc) (used : Bool) (f : FragmentDef) : List Diag :=
  (if used then [] else withoutVariableChecks (checkDirectives S none f.dirs "FRAGMENT_DEFINITION")) ++
  match S.typeDef? f.cond with
  | none => [(ErrKind.UnknownType, f.condPos)]
  | some t =>
    if (directFields t).isSome then
      (if used then []
       else withoutVariableChecks
         (checkSelectionSet S (spreadHandler S D (fuelFor D)) [f.name] none t f.sel f.pos))
    else [(ErrKind.InvalidFragmentTarget, f.condPos)]

def opHasName (n : Name) : ExecDef → Bool
  | .op o => match o.name with | some (m, _) => m == n | none => false
  | _ => false
def fragHasName (n : Name) : ExecDef → Bool
  | .frag f => f.name == n
  | _ => false

/-- the duplicate-name / lone-anonymous part of one iteration of the main loop; `earlier` = the definitions
    before the current one (`document.definitions.iter().take(idx)`) -/
def defHeader (opNum : Nat) (earlier : List ExecDef) : ExecDef → List Diag
  | .op o =>
    (match o.name with
     | none => if opNum != 1 then [(ErrKind.UnNamedOperationMustBeSingle, o.pos)] else []
     | some (n, np) => if earlier.any (opHasName n) then [(ErrKind.DuplicateOperationName, np)] else [])
  | .frag f => if earlier.any (fragHasName f.name) then [(ErrKind.DuplicateFragmentName, f.namePos)] else []
  | .imp _ => []

/-- `check_operation` / `check_fragment_definition` of one definition -/
def defBody (S : Schema) (D : Doc) : ExecDef → List Diag
  | .op o => checkOperation S D o
  | .frag f => checkFragmentDefinition S D ((usedFragments D).contains f.name) f
  | .imp _ => []

/-- the main loop of `check_operation_document` -/
def checkDefs (S : Schema) (D : Doc) (opNum : Nat) : List ExecDef → List ExecDef → List Diag
  | _, [] => []
  | earlier, d :: rest => defHeader opNum earlier d ++ defBody S D d ++ checkDefs S D opNum (earlier ++ [d]) rest

/-- `check_operation_document(document, context)`; `S` is the resolved type-system document (with built-ins)
    from which `ast_to_type_system` builds the context's `Schema` -/
def checkOp (S : Schema) (D : Doc) : List Diag :=
  checkDefs S D (opsOf D).length [] D

end NitroVerif.CheckOp
