/-
Model of `crates/checker/src/operation_checker/{mod.rs, count_selection_set_fields.rs, fragment_map.rs}` and
`crates/semantics/src/direct_fields_of_output_type.rs`: `check_operation_document`.

`checkOp S D : List (ErrKind × Pos)` — the diagnostics in the order the code pushes them (kind = variant name
of `CheckErrorMessage`, position = the `CheckError`'s main position).

Positions the shared AST does not carry: `SelectionSet.position` (the "{" token). `SelectionOnInvalidType`
is reported at the *owner* of the selection set (field name / inline fragment / fragment definition /
operation position); the harness maps the real "{" position back to its owner before comparing.
(See `Model/CheckCommon.lean` for the same convention on argument lists.)

Recursion. `check_selection_set` recurses structurally through fields and inline fragments, and through
fragment spreads into the selection set of the spread fragment; the latter is bounded in the code by the
`seen_fragments` stack (a fragment already on the stack is reported as `RecursingFragmentSpread`).
Here the structural part is a mutual structural recursion over `Selection`, parametrised by a *spread
handler*; the handler is defined by recursion on a fuel `Nat` (`spreadHandler`). The fuel starts at
(number of fragment definitions + 1); every spread that recurses adds a new, distinct, defined fragment
name to the stack, so the fuel cannot run out before the stack check fires. The exhausted-fuel branch
(unreachable) reports `RecursingFragmentSpread`, so that `checkOp S D = []` never hides an unfinished walk.
Core Lean only; structurally recursive (kernel-evaluable).
-/
import NitroVerif.Model.CheckCommon
namespace NitroVerif.CheckOp
open NitroVerif.Gql NitroVerif.CheckCommon

/-- the `__typename` meta field of `direct_fields_of_output_type` -/
def typenameField : FieldDef := { name := "__typename", ty := .nonNull (.named "String" { builtin := true }) }

/-- `direct_fields_of_output_type`: `none` for scalar / enum / input object -/
def directFields (td : TypeDef) : Option (List FieldDef) :=
  match td.kind with
  | .object | .interface => some (td.fields ++ [typenameField])
  | .union => some [typenameField]
  | _ => none

def fragsOf (D : Doc) : List FragmentDef := D.filterMap fun | .frag f => some f | _ => none
def opsOf (D : Doc) : List OperationDef := D.filterMap fun | .op o => some o | _ => none

/-- `generate_fragment_map(..).get(name)`: collecting into a `HashMap` lets the LAST definition of a name win -/
def fragMap (D : Doc) (n : Name) : Option FragmentDef := (fragsOf D).reverse.find? (·.name == n)

def implementsIface (td : TypeDef) (iface : Name) : Bool := td.implements.any (·.1 == iface)

/-- the interface × union arm of `check_fragment_spread_core`: `possible_types.iter().any(..)` with its
    short-circuit and the `TypeSystemError` pushed for a member that is not an object type -/
def unionMemberImplements (S : Schema) (iface : Name) : List (Name × Pos) → List Diag × Bool
  | [] => ([], false)
  | (m, mp) :: ms =>
    match S.typeDef? m with
    | some o =>
      if o.kind == .object then
        (if implementsIface o iface then ([], true) else unionMemberImplements S iface ms)
      else ([(ErrKind.TypeSystemError, mp)], true)
    | none => ([(ErrKind.TypeSystemError, mp)], true)

/-- the applicability analysis of `check_fragment_spread_core` (everything before its final
    `check_selection_set`): diagnostics, and whether the function goes on to check the selection set -/
def spreadApplicability (S : Schema) (root cond : TypeDef) (spreadPos : Pos) : List Diag × Bool :=
  let never := [(ErrKind.FragmentConditionNeverMatches, spreadPos)]
  match root.kind, cond.kind with
  | .scalar, _ | .enum, _ | .input, _ => ([], false)
  | .object, .object => (if root.name != cond.name then never else [], true)
  | .object, .interface => (if implementsIface root cond.name then [] else never, true)
  | .interface, .object => (if implementsIface cond root.name then [] else never, true)
  | .object, .union => (if cond.members.any (·.1 == root.name) then [] else never, true)
  | .union, .object => (if root.members.any (·.1 == cond.name) then [] else never, true)
  | .interface, .interface =>
    if root.name == cond.name then ([], false)   -- "fast path": `return` — the selection set is NOT checked
    else
      (if S.typeNames.any (fun n => match S.typeDef? n with
          | some o => o.kind == .object && implementsIface o root.name && implementsIface o cond.name
          | none => false) then [] else never, true)
  | .interface, .union =>
    let r := unionMemberImplements S root.name cond.members
    (r.1 ++ (if r.2 then [] else never), true)
  | .union, .interface =>
    let r := unionMemberImplements S cond.name root.members
    (r.1 ++ (if r.2 then [] else never), true)
  | .union, .union =>
    (if cond.members.any (fun m2 => root.members.any (fun m1 => m1.1 == m2.1)) then [] else never, true)
  | _, _ => ([], true)

/-- what the walk does at `...Name`: (seen stack, root type, spread) ↦ diagnostics -/
abbrev SpreadHandler := List Name → Option (List VarDef) → TypeDef → Name → Pos → Pos → List Diag

mutual
/-- `check_selection_set`; `anchor` stands for `selection_set.position` -/
def checkSelectionSet (S : Schema) (H : SpreadHandler) (seen : List Name) (vars : Option (List VarDef))
    (root : TypeDef) (sels : List Selection) (anchor : Pos) : List Diag :=
  match directFields root with
  | none => [(ErrKind.SelectionOnInvalidType, anchor)]
  | some fields => checkSelections S H seen vars root fields sels
/-- the loop over the selections of one selection set -/
def checkSelections (S : Schema) (H : SpreadHandler) (seen : List Name) (vars : Option (List VarDef))
    (root : TypeDef) (fields : List FieldDef) : List Selection → List Diag
  | [] => []
  | s :: ss => checkSelection S H seen vars root fields s ++ checkSelections S H seen vars root fields ss
/-- `check_selection_field` / `check_fragment_spread` / `check_inline_fragment` -/
def checkSelection (S : Schema) (H : SpreadHandler) (seen : List Name) (vars : Option (List VarDef))
    (root : TypeDef) (fields : List FieldDef) : Selection → List Diag
  | .field _ name namePos args dirs sel =>
    match fields.find? (·.name == name) with
    | none => [(ErrKind.FieldNotFound, namePos)]
    | some fd =>
      checkDirectives S vars dirs "FIELD" ++
      checkArguments S vars namePos args fd.args ++
      (match S.typeDef? fd.ty.unwrapped with
       | none => [(ErrKind.TypeSystemError, namePos)]
       | some ft =>
         match sel with
         | some ss => checkSelectionSet S H seen vars ft ss namePos
         | none => if (directFields ft).isSome then [(ErrKind.MustSpecifySelectionSet, namePos)] else [])
  | .spread name namePos _dirs pos => H seen vars root name namePos pos
  | .inline cond _dirs ss pos =>
    match cond with
    | none => checkSelectionSet S H seen vars root ss pos
    | some (c, cp) =>
      match S.typeDef? c with
      | none => [(ErrKind.UnknownType, cp)]
      | some ct =>
        let a := spreadApplicability S root ct pos
        a.1 ++ (if a.2 then checkSelectionSet S H seen vars ct ss pos else [])
end

/-- `check_fragment_spread` (+ the part of `check_fragment_spread_core` after the stack check), by fuel -/
def spreadHandler (S : Schema) (D : Doc) : Nat → SpreadHandler
  | 0 => fun _ _ _ _ _ pos => [(ErrKind.RecursingFragmentSpread, pos)]
  | fuel + 1 => fun seen vars root name namePos pos =>
    if seen.contains name then [(ErrKind.RecursingFragmentSpread, pos)]
    else match fragMap D name with
      | none => [(ErrKind.UnknownFragment, namePos)]
      | some f =>
        match S.typeDef? f.cond with
        | none => []
        | some ct =>
          let a := spreadApplicability S root ct pos
          a.1 ++ (if a.2 then checkSelectionSet S (spreadHandler S D fuel) (seen ++ [name]) vars ct f.sel f.pos else [])

def fuelFor (D : Doc) : Nat := (fragsOf D).length + 1

/-! ### `selection_set_has_more_than_one_fields` -/

abbrev CountHandler := List Name → Name → Nat

mutual
def countFields (H : CountHandler) (seen : List Name) : List Selection → Nat
  | [] => 0
  | s :: ss => countField H seen s + countFields H seen ss
def countField (H : CountHandler) (seen : List Name) : Selection → Nat
  | .field .. => 1
  | .spread name _ _ _ => H seen name
  | .inline _ _ ss _ => countFields H seen ss
end

def countHandler (D : Doc) : Nat → CountHandler
  | 0 => fun _ _ => 0
  | fuel + 1 => fun seen name =>
    if seen.contains name then 0
    else match fragMap D name with
      | none => 0
      | some f => countFields (countHandler D fuel) (seen ++ [name]) f.sel

def hasMoreThanOneField (D : Doc) (sels : List Selection) : Bool :=
  countFields (countHandler D (fuelFor D)) [] sels > 1

/-! ### definitions -/

/-- `check_variables_definition` with its `seen_variables` accumulator -/
def checkVariablesAux (S : Schema) : List Name → List VarDef → List Diag
  | _, [] => []
  | seen, v :: vs =>
    (if seen.contains v.name then [(ErrKind.DuplicatedVariableName, v.pos)] else []) ++
    (match isInputType? S v.ty.unwrapped with
     | none => [(ErrKind.UnknownType, typePos v.ty)]
     | some true => []
     | some false => [(ErrKind.NoOutputType, typePos v.ty)]) ++
    checkVariablesAux S (if seen.contains v.name then seen else seen ++ [v.name]) vs

def opLocation : OpKind → String
  | .query => "QUERY" | .mutation => "MUTATION" | .subscription => "SUBSCRIPTION"

/-- there is an explicit schema definition (`!root_types.original_node_ref().builtin`) -/
def hasExplicitSchema (S : Schema) : Bool :=
  match S.schemaDefs with
  | [] => false
  | d :: _ => !d.pos.builtin

/-- `check_operation` -/
def checkOperation (S : Schema) (D : Doc) (op : OperationDef) : List Diag :=
  if hasExplicitSchema S && (S.explicitRoot? op.kind).isNone then [(ErrKind.NoRootType, op.pos)]
  else match S.typeDef? (S.rootName op.kind) with
    | none => [(ErrKind.UnknownType, op.pos)]
    | some root =>
      checkDirectives S (some op.vars) op.dirs (opLocation op.kind) ++
      checkVariablesAux S [] op.vars ++
      (if op.kind == .subscription && hasMoreThanOneField D op.sel
        then [(ErrKind.SubscriptionMustHaveExactlyOneRootField, op.pos)] else []) ++
      checkSelectionSet S (spreadHandler S D (fuelFor D)) [] (some op.vars) root op.sel op.pos

/-- `check_fragment_definition` -/
def checkFragmentDefinition (S : Schema) (f : FragmentDef) : List Diag :=
  match S.typeDef? f.cond with
  | none => [(ErrKind.UnknownType, f.condPos)]
  | some t => if (directFields t).isSome then [] else [(ErrKind.InvalidFragmentTarget, f.condPos)]

def opHasName (n : Name) : ExecDef → Bool
  | .op o => match o.name with | some (m, _) => m == n | none => false
  | _ => false
def fragHasName (n : Name) : ExecDef → Bool
  | .frag f => f.name == n
  | _ => false

/-- the main loop of `check_operation_document`; `earlier` = the definitions before the current one -/
def checkDefs (S : Schema) (D : Doc) (opNum : Nat) : List ExecDef → List ExecDef → List Diag
  | _, [] => []
  | earlier, d :: rest =>
    (match d with
     | .op o =>
       (match o.name with
        | none => if opNum != 1 then [(ErrKind.UnNamedOperationMustBeSingle, o.pos)] else []
        | some (n, np) => if earlier.any (opHasName n) then [(ErrKind.DuplicateOperationName, np)] else []) ++
       checkOperation S D o
     | .frag f =>
       (if earlier.any (fragHasName f.name) then [(ErrKind.DuplicateFragmentName, f.namePos)] else []) ++
       checkFragmentDefinition S f
     | .imp _ => []) ++
    checkDefs S D opNum (earlier ++ [d]) rest

/-- `check_operation_document(document, context)`; `S` is the resolved type-system document (with built-ins)
    from which `ast_to_type_system` builds the context's `Schema` -/
def checkOp (S : Schema) (D : Doc) : List Diag :=
  checkDefs S D (opsOf D).length [] D

end NitroVerif.CheckOp
