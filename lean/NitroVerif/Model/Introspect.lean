/-
Model of `crates/introspection/src/{lib.rs,introspection.rs}`: `schema_from_introspection_json`.

Two layers, as in the code:
 1. serde: the JSON text is deserialised into `IntrospectionResult` (derived `Deserialize`). An object is read
    entry by entry (`visit_map`): a known key seen twice is an error, unknown keys are skipped, a missing key is an
    error unless the field is an `Option` (then `None`), `null` is accepted by `Option` fields only, strings /
    booleans / arrays / objects must have the expected JSON type. ANY failure anywhere in the text is one error
    (`IErr.json`) and is raised before any conversion happens.
 2. `introspection()`: description, root names, `types.map(as_type_definition)` (first error wins), directives.

The decoder below is a single structurally recursive pass over the `Json` tree that performs layer 1 (result
`none` = serde error) and, for nested `__Type` objects, already computes what layer 2 will ask of them: every
nested `__Type` (a field's / argument's `type`, an `ofType`, an element of `interfaces` / `possibleTypes`) is only
ever consumed through `as_type`, so `TypeRec` stores children as `Except IMsg …` results of `as_type` /
`as_field` / `as_input_value` — which makes `TypeRec` a flat (non-recursive) record.

NOT modelled (serde accepts, the model rejects as `json`): a struct written as a JSON *array* of its fields in
declaration order (serde's `visit_seq`). The harness never produces it.
Core Lean only; structurally recursive (kernel-evaluable).
-/
import NitroVerif.Base.Json
import NitroVerif.Model.SchemaIR
namespace NitroVerif.Introspect
open NitroVerif NitroVerif.SchemaIR

/-- the `IntrospectionError::Introspection` messages -/
inductive IMsg where
  | nameMustBeString      -- "field 'name' of __Type must be a String"
  | ofTypeMustExist       -- "'ofType' of __Type must exist"
  | invalidKind           -- "Invalid kind '…' of __Type"        (as_type)
  | unknownKind           -- "Unknown kind '…' of __Type"        (as_type_definition)
  | unionPossibleTypes    -- "__Type of kind UNION must have a list 'possibleTypes' field"
  | enumEnumValues        -- "__Type of kind ENUM must have a list 'enumValues' field"
  | inputInputFields      -- "__Type of kind INPUT_OBJECT must have a list 'inputFields' field"
  deriving Repr, DecidableEq, Inhabited

inductive IErr where
  | json                  -- `IntrospectionError::Json` (serde_json)
  | intro (m : IMsg)
  deriving Repr, DecidableEq, Inhabited

/-! ### scalar readers (serde) — outer `none` = serde error -/

/-- `Cow<str>` -/
def reqStr : Json → Option String
  | .str s => some s
  | _ => none

/-- `Option<Cow<str>>` -/
def optStr : Json → Option (Option String)
  | .null => some none
  | .str s => some (some s)
  | _ => none

/-- `Option<bool>` -/
def optBool : Json → Option (Option Bool)
  | .null => some none
  | .bool b => some (some b)
  | _ => none

/-- store a decoded value under a key that must not have been seen before (`duplicate field`) -/
def putOnce {α : Type} (slot : Option α) (v : Option α) : Option (Option α) :=
  match slot, v with
  | none, some x => some (some x)
  | _, _ => none

/-- `collect::<Result<Vec<_>, _>>()`: first error in order -/
def collect {α : Type} : List (Except IMsg α) → Except IMsg (List α)
  | [] => .ok []
  | .error e :: _ => .error e
  | .ok x :: r => match collect r with
    | .ok xs => .ok (x :: xs)
    | .error e => .error e

/-- `is_deprecated.unwrap_or(false).then(|| reason.unwrap_or_default())` -/
def deprecation (isDep : Option Bool) (reason : Option String) : Option String :=
  if isDep.getD false then some (reason.getD "") else none

/-! ### `IntrospectionEnumValue` (no nested types) -/

structure EVAcc where
  name : Option String := none
  desc : Option (Option String) := none
  isDep : Option (Option Bool) := none
  reason : Option (Option String) := none

def decEVKvs : List (String × Json) → EVAcc → Option EVAcc
  | [], a => some a
  | (k, v) :: r, a =>
    if k = "name" then (putOnce a.name (reqStr v)).bind fun x => decEVKvs r { a with name := x }
    else if k = "description" then (putOnce a.desc (optStr v)).bind fun x => decEVKvs r { a with desc := x }
    else if k = "isDeprecated" then (putOnce a.isDep (optBool v)).bind fun x => decEVKvs r { a with isDep := x }
    else if k = "deprecationReason" then (putOnce a.reason (optStr v)).bind fun x => decEVKvs r { a with reason := x }
    else decEVKvs r a

def finishEV (a : EVAcc) : Option IEnumMember :=
  a.name.map fun n =>
    { name := n, desc := a.desc.getD none, deprecation := deprecation (a.isDep.getD none) (a.reason.getD none) }

def decEV : Json → Option IEnumMember
  | .obj kvs => (decEVKvs kvs {}).bind finishEV
  | _ => none

def decEVList : List Json → Option (List IEnumMember)
  | [] => some []
  | j :: r => (decEV j).bind fun x => (decEVList r).map (x :: ·)

def optEVList : Json → Option (Option (List IEnumMember))
  | .null => some none
  | .arr xs => (decEVList xs).map some
  | _ => none

/-! ### `IntrospectionType` / `IntrospectionField` / `IntrospectionInputValue` (mutually nested) -/

/-- a deserialised `IntrospectionType` with its children already passed through `as_type` / `as_field` /
    `as_input_value` -/
structure TypeRec where
  kind : String
  name : Option String := none
  desc : Option String := none
  fields : Option (List (Except IMsg IField)) := none
  interfaces : Option (List (Except IMsg String)) := none
  possible : Option (List (Except IMsg String)) := none
  enumValues : Option (List IEnumMember) := none
  inputFields : Option (List (Except IMsg IInputValue)) := none
  ofType : Option (Except IMsg IType) := none

def isNamedKind (k : String) : Bool :=
  k = "SCALAR" || k = "OBJECT" || k = "INTERFACE" || k = "UNION" || k = "ENUM" || k = "INPUT_OBJECT"

/-- `as_type` -/
def asType (t : TypeRec) : Except IMsg IType :=
  if isNamedKind t.kind then
    match t.name with
    | some n => .ok (.named n)
    | none => .error .nameMustBeString
  else if t.kind = "LIST" then
    match t.ofType with
    | some (.ok i) => .ok (.list i)
    | some (.error e) => .error e
    | none => .error .ofTypeMustExist
  else if t.kind = "NON_NULL" then
    match t.ofType with
    | some (.ok i) => .ok (.nonNull i)
    | some (.error e) => .error e
    | none => .error .ofTypeMustExist
  else .error .invalidKind

/-- `as_type(..).map(|ty| ty.unwrapped().clone())` — an element of `interfaces` / `possibleTypes` -/
def asTypeName (t : TypeRec) : Except IMsg String :=
  match asType t with
  | .ok i => .ok i.unwrapped
  | .error e => .error e

structure TypeAcc where
  kind : Option String := none
  name : Option (Option String) := none
  desc : Option (Option String) := none
  fields : Option (Option (List (Except IMsg IField))) := none
  interfaces : Option (Option (List (Except IMsg String))) := none
  possible : Option (Option (List (Except IMsg String))) := none
  enumValues : Option (Option (List IEnumMember)) := none
  inputFields : Option (Option (List (Except IMsg IInputValue))) := none
  ofType : Option (Option (Except IMsg IType)) := none

def finishType (a : TypeAcc) : Option TypeRec :=
  a.kind.map fun k =>
    { kind := k, name := a.name.getD none, desc := a.desc.getD none, fields := a.fields.getD none,
      interfaces := a.interfaces.getD none, possible := a.possible.getD none,
      enumValues := a.enumValues.getD none, inputFields := a.inputFields.getD none, ofType := a.ofType.getD none }

structure FieldAcc where
  name : Option String := none
  desc : Option (Option String) := none
  args : Option (List (Except IMsg IInputValue)) := none
  ty : Option (Except IMsg IType) := none
  isDep : Option (Option Bool) := none
  reason : Option (Option String) := none

/-- `as_field` on a deserialised field: the type's error is the field's error; an error among the arguments is
    swallowed and empties the argument list (`.collect::<Result<_, _>>().unwrap_or(vec![])`) -/
def finishField (a : FieldAcc) : Option (Except IMsg IField) :=
  match a.name, a.args, a.ty with
  | some n, some args, some ty =>
    some (match ty with
      | .error e => .error e
      | .ok t => .ok { name := n, desc := a.desc.getD none, ty := t,
                       args := match collect args with | .ok xs => xs | .error _ => [],
                       deprecation := deprecation (a.isDep.getD none) (a.reason.getD none) })
  | _, _, _ => none

structure IVAcc where
  name : Option String := none
  desc : Option (Option String) := none
  ty : Option (Except IMsg IType) := none
  default : Option (Option String) := none
  isDep : Option (Option Bool) := none
  reason : Option (Option String) := none

/-- `as_input_value` -/
def finishIV (a : IVAcc) : Option (Except IMsg IInputValue) :=
  match a.name, a.ty with
  | some n, some ty =>
    some (match ty with
      | .error e => .error e
      | .ok t => .ok { name := n, desc := a.desc.getD none, ty := t, default := a.default.getD none,
                       deprecation := deprecation (a.isDep.getD none) (a.reason.getD none) })
  | _, _ => none

mutual
/-- deserialise one `IntrospectionType` -/
def decType : Json → Option TypeRec
  | .obj kvs => (decTypeKvs kvs {}).bind finishType
  | _ => none
def decTypeKvs : List (String × Json) → TypeAcc → Option TypeAcc
  | [], a => some a
  | (k, v) :: r, a =>
    if k = "kind" then (putOnce a.kind (reqStr v)).bind fun x => decTypeKvs r { a with kind := x }
    else if k = "name" then (putOnce a.name (optStr v)).bind fun x => decTypeKvs r { a with name := x }
    else if k = "description" then (putOnce a.desc (optStr v)).bind fun x => decTypeKvs r { a with desc := x }
    else if k = "fields" then (putOnce a.fields (optFieldList v)).bind fun x => decTypeKvs r { a with fields := x }
    else if k = "interfaces" then
      (putOnce a.interfaces (optTypeNameList v)).bind fun x => decTypeKvs r { a with interfaces := x }
    else if k = "possibleTypes" then
      (putOnce a.possible (optTypeNameList v)).bind fun x => decTypeKvs r { a with possible := x }
    else if k = "enumValues" then
      (putOnce a.enumValues (optEVList v)).bind fun x => decTypeKvs r { a with enumValues := x }
    else if k = "inputFields" then
      (putOnce a.inputFields (optIVList v)).bind fun x => decTypeKvs r { a with inputFields := x }
    else if k = "ofType" then (putOnce a.ofType (optTypeRef v)).bind fun x => decTypeKvs r { a with ofType := x }
    else decTypeKvs r a
/-- `Option<Box<IntrospectionType>>`, passed through `as_type` -/
def optTypeRef : Json → Option (Option (Except IMsg IType))
  | .null => some none
  | .obj kvs => ((decTypeKvs kvs {}).bind finishType).map fun t => some (asType t)
  | _ => none
/-- `IntrospectionType` (required), passed through `as_type` -/
def reqTypeRef : Json → Option (Except IMsg IType)
  | .obj kvs => ((decTypeKvs kvs {}).bind finishType).map asType
  | _ => none
/-- `Option<Vec<IntrospectionType>>`, each passed through `as_type` + `unwrapped` -/
def optTypeNameList : Json → Option (Option (List (Except IMsg String)))
  | .null => some none
  | .arr xs => (typeNameList xs).map some
  | _ => none
def typeNameList : List Json → Option (List (Except IMsg String))
  | [] => some []
  | j :: r => (decType j).bind fun t => (typeNameList r).map (asTypeName t :: ·)
def optFieldList : Json → Option (Option (List (Except IMsg IField)))
  | .null => some none
  | .arr xs => (fieldList xs).map some
  | _ => none
def fieldList : List Json → Option (List (Except IMsg IField))
  | [] => some []
  | j :: r => (decField j).bind fun f => (fieldList r).map (f :: ·)
def decField : Json → Option (Except IMsg IField)
  | .obj kvs => (decFieldKvs kvs {}).bind finishField
  | _ => none
def decFieldKvs : List (String × Json) → FieldAcc → Option FieldAcc
  | [], a => some a
  | (k, v) :: r, a =>
    if k = "name" then (putOnce a.name (reqStr v)).bind fun x => decFieldKvs r { a with name := x }
    else if k = "description" then (putOnce a.desc (optStr v)).bind fun x => decFieldKvs r { a with desc := x }
    else if k = "args" then (putOnce a.args (reqIVList v)).bind fun x => decFieldKvs r { a with args := x }
    else if k = "type" then (putOnce a.ty (reqTypeRef v)).bind fun x => decFieldKvs r { a with ty := x }
    else if k = "isDeprecated" then (putOnce a.isDep (optBool v)).bind fun x => decFieldKvs r { a with isDep := x }
    else if k = "deprecationReason" then
      (putOnce a.reason (optStr v)).bind fun x => decFieldKvs r { a with reason := x }
    else decFieldKvs r a
def optIVList : Json → Option (Option (List (Except IMsg IInputValue)))
  | .null => some none
  | .arr xs => (ivList xs).map some
  | _ => none
/-- `Vec<IntrospectionInputValue>` -/
def reqIVList : Json → Option (List (Except IMsg IInputValue))
  | .arr xs => ivList xs
  | _ => none
def ivList : List Json → Option (List (Except IMsg IInputValue))
  | [] => some []
  | j :: r => (decIV j).bind fun f => (ivList r).map (f :: ·)
def decIV : Json → Option (Except IMsg IInputValue)
  | .obj kvs => (decIVKvs kvs {}).bind finishIV
  | _ => none
def decIVKvs : List (String × Json) → IVAcc → Option IVAcc
  | [], a => some a
  | (k, v) :: r, a =>
    if k = "name" then (putOnce a.name (reqStr v)).bind fun x => decIVKvs r { a with name := x }
    else if k = "description" then (putOnce a.desc (optStr v)).bind fun x => decIVKvs r { a with desc := x }
    else if k = "type" then (putOnce a.ty (reqTypeRef v)).bind fun x => decIVKvs r { a with ty := x }
    else if k = "defaultValue" then (putOnce a.default (optStr v)).bind fun x => decIVKvs r { a with default := x }
    else if k = "isDeprecated" then (putOnce a.isDep (optBool v)).bind fun x => decIVKvs r { a with isDep := x }
    else if k = "deprecationReason" then
      (putOnce a.reason (optStr v)).bind fun x => decIVKvs r { a with reason := x }
    else decIVKvs r a
end

/-! ### `as_type_definition` -/

def asTypeDefinition (t : TypeRec) : Except IMsg ITypeDef :=
  match t.name with
  | none => .error .nameMustBeString
  | some name =>
    if t.kind = "SCALAR" then .ok { kind := .scalar, name := name, desc := t.desc }
    else if t.kind = "OBJECT" ∨ t.kind = "INTERFACE" then
      -- `value.fields.iter().flatten()`: an absent list is an empty list; fields first, then interfaces
      match collect (t.fields.getD []) with
      | .error e => .error e
      | .ok fs =>
        match collect (t.interfaces.getD []) with
        | .error e => .error e
        | .ok is =>
          .ok { kind := if t.kind = "OBJECT" then .object else .interface, name := name, desc := t.desc,
                fields := fs, interfaces := is }
    else if t.kind = "UNION" then
      match t.possible with
      | none => .error .unionPossibleTypes
      | some ps =>
        match collect ps with
        | .error e => .error e
        | .ok ps => .ok { kind := .union, name := name, desc := t.desc, possible := ps }
    else if t.kind = "ENUM" then
      match t.enumValues with
      | none => .error .enumEnumValues
      | some ms => .ok { kind := .enum, name := name, desc := t.desc, members := ms }
    else if t.kind = "INPUT_OBJECT" then
      match t.inputFields with
      | none => .error .inputInputFields
      | some fs =>
        match collect fs with
        | .error e => .error e
        | .ok fs => .ok { kind := .input, name := name, desc := t.desc, inputs := fs }
    else .error .unknownKind

/-! ### `IntrospectionDirective`, `NameObj`, `IntrospectionSchema`, `IntrospectionResult` -/

def strList : List Json → Option (List String)
  | [] => some []
  | j :: r => (reqStr j).bind fun s => (strList r).map (s :: ·)

def reqStrList : Json → Option (List String)
  | .arr xs => strList xs
  | _ => none

structure DirAcc where
  name : Option String := none
  desc : Option (Option String) := none
  locations : Option (List String) := none
  args : Option (List (Except IMsg IInputValue)) := none
  repeatable : Option (Option Bool) := none

def decDirKvs : List (String × Json) → DirAcc → Option DirAcc
  | [], a => some a
  | (k, v) :: r, a =>
    if k = "name" then (putOnce a.name (reqStr v)).bind fun x => decDirKvs r { a with name := x }
    else if k = "description" then (putOnce a.desc (optStr v)).bind fun x => decDirKvs r { a with desc := x }
    else if k = "locations" then (putOnce a.locations (reqStrList v)).bind fun x => decDirKvs r { a with locations := x }
    else if k = "args" then (putOnce a.args (reqIVList v)).bind fun x => decDirKvs r { a with args := x }
    else if k = "isRepeatable" then
      (putOnce a.repeatable (optBool v)).bind fun x => decDirKvs r { a with repeatable := x }
    else decDirKvs r a

/-- `as_directive_definition` (never fails: an error among the arguments empties the argument list) -/
def finishDir (a : DirAcc) : Option IDirectiveDef :=
  match a.name, a.locations, a.args with
  | some n, some ls, some args =>
    some { name := n, desc := a.desc.getD none, locations := ls,
           args := match collect args with | .ok xs => xs | .error _ => [],
           repeatable := (a.repeatable.getD none).getD false }
  | _, _, _ => none

def decDir : Json → Option IDirectiveDef
  | .obj kvs => (decDirKvs kvs {}).bind finishDir
  | _ => none

def dirList : List Json → Option (List IDirectiveDef)
  | [] => some []
  | j :: r => (decDir j).bind fun d => (dirList r).map (d :: ·)

def typeRecList : List Json → Option (List TypeRec)
  | [] => some []
  | j :: r => (decType j).bind fun t => (typeRecList r).map (t :: ·)

/-- first `name` entry of a `NameObj`; a second `name` entry is a serde error -/
def nameObjKvs : List (String × Json) → Option String → Option (Option String)
  | [], a => some a
  | (k, v) :: r, a =>
    if k = "name" then (putOnce a (reqStr v)).bind fun x => nameObjKvs r x
    else nameObjKvs r a

/-- `NameObj` -/
def reqNameObj : Json → Option String
  | .obj kvs => (nameObjKvs kvs none).bind id
  | _ => none

/-- `Option<NameObj>` -/
def optNameObj : Json → Option (Option String)
  | .null => some none
  | j => (reqNameObj j).map some

structure SchemaAcc where
  desc : Option (Option String) := none
  query : Option String := none
  mutation : Option (Option String) := none
  subscription : Option (Option String) := none
  types : Option (List TypeRec) := none
  directives : Option (List IDirectiveDef) := none

def decSchemaKvs : List (String × Json) → SchemaAcc → Option SchemaAcc
  | [], a => some a
  | (k, v) :: r, a =>
    if k = "description" then (putOnce a.desc (optStr v)).bind fun x => decSchemaKvs r { a with desc := x }
    else if k = "queryType" then (putOnce a.query (reqNameObj v)).bind fun x => decSchemaKvs r { a with query := x }
    else if k = "mutationType" then
      (putOnce a.mutation (optNameObj v)).bind fun x => decSchemaKvs r { a with mutation := x }
    else if k = "subscriptionType" then
      (putOnce a.subscription (optNameObj v)).bind fun x => decSchemaKvs r { a with subscription := x }
    else if k = "types" then
      (putOnce a.types (match v with | .arr xs => typeRecList xs | _ => none)).bind fun x =>
        decSchemaKvs r { a with types := x }
    else if k = "directives" then
      (putOnce a.directives (match v with | .arr xs => dirList xs | _ => none)).bind fun x =>
        decSchemaKvs r { a with directives := x }
    else decSchemaKvs r a

/-- `introspection()` on a deserialised `IntrospectionSchema`. `D::default()` is a built-in position, so the
    root-types node is NOT explicit. -/
def finishSchema (a : SchemaAcc) : Option (Except IErr Schema) :=
  match a.query, a.types, a.directives with
  | some q, some ts, some ds =>
    some (match collect (ts.map asTypeDefinition) with
      | .error e => .error (.intro e)
      | .ok defs =>
        .ok { desc := a.desc.getD none,
              roots := { query := some q, mutation := a.mutation.getD none, subscription := a.subscription.getD none },
              explicitRoots := false,
              types := extendTypes [] defs,
              directives := extendDirectives [] ds })
  | _, _, _ => none

/-- first `__schema` entry of the top-level object; a second one is a serde error -/
def resultKvs : List (String × Json) → Option Json → Option (Option Json)
  | [], a => some a
  | (k, v) :: r, a =>
    if k = "__schema" then (match a with | none => resultKvs r (some v) | some _ => none)
    else resultKvs r a

/-- `schema_from_introspection_json` (on the parsed JSON tree) -/
def fromIntrospection (j : Json) : Except IErr Schema :=
  match j with
  | .obj kvs =>
    match resultKvs kvs none with
    | some (some (.obj skvs)) =>
      match (decSchemaKvs skvs {}).bind finishSchema with
      | some r => r
      | none => .error .json
    | _ => .error .json
  | _ => .error .json

end NitroVerif.Introspect
