/-
Model of the part of `crates/checker/src/common.rs` that the type-system checker uses
(`check_directives`, `check_arguments`, `check_value`, `is_value_compatible_type_def`) with
`variables = None` (type-system documents have no variable definitions), of `types.rs`
(`inout_kind_of_type` is `Schema.kindOf?` + `isInputKind`/`isOutputKind`, `is_subtype`), and the diagnostic
kinds of `error.rs` that `check_type_system_document` can produce.

The `Schema<Cow<str>, Pos>` that `ast_to_type_system` builds is the lookup view `Gql.Schema` (first
definition of a name wins).  Diagnostics are `(kind, position)`; `additional_info` is not modelled.

Position canonicalisation (documented in design-notes/C05.md): the Rust code anchors `ArgumentsNotNeeded`
and `RequiredArgumentNotSpecified` at `Arguments.position` (the "(" token) when the application has
arguments; the shared AST has no slot for that token, so the model anchors both at the directive's own
position (`@`), and the harness maps the real "(" position to the owning directive's position.

Core Lean only; every function is structurally recursive (kernel-evaluable).
-/
import NitroVerif.Gql.Schema
import NitroVerif.Model.IntLit
namespace NitroVerif.CheckTs
open NitroVerif.Gql NitroVerif.IntLit

/-- the variants of `CheckErrorMessage` reachable from `check_type_system_document` -/
inductive ErrKind where
  | UnknownDirective | DirectiveLocationNotAllowed | RepeatedDirective | ArgumentsNotNeeded
  | RequiredArgumentNotSpecified | TypeMismatch | UnknownVariable | UnknownEnumMember | UnknownArgument
  | UnscoUnsco | DuplicatedName | UnknownType | RecursingDirective | NoOutputType | NoInputType
  | NotInterface | InterfaceNotImplemented | NoImplementSelf | InterfaceFieldNotImplemented
  | FieldTypeMisMatchWithInterface | InterfaceArgumentNotImplemented | ArgumentTypeMisMatchWithInterface
  | ArgumentTypeNonNullAgainstInterface | NonObjectTypeUnionMember | TypeSystemError
  deriving DecidableEq, Repr, Inhabited, BEq

def ErrKind.asStr : ErrKind → String
  | .UnknownDirective => "UnknownDirective"
  | .DirectiveLocationNotAllowed => "DirectiveLocationNotAllowed"
  | .RepeatedDirective => "RepeatedDirective"
  | .ArgumentsNotNeeded => "ArgumentsNotNeeded"
  | .RequiredArgumentNotSpecified => "RequiredArgumentNotSpecified"
  | .TypeMismatch => "TypeMismatch"
  | .UnknownVariable => "UnknownVariable"
  | .UnknownEnumMember => "UnknownEnumMember"
  | .UnknownArgument => "UnknownArgument"
  | .UnscoUnsco => "UnscoUnsco"
  | .DuplicatedName => "DuplicatedName"
  | .UnknownType => "UnknownType"
  | .RecursingDirective => "RecursingDirective"
  | .NoOutputType => "NoOutputType"
  | .NoInputType => "NoInputType"
  | .NotInterface => "NotInterface"
  | .InterfaceNotImplemented => "InterfaceNotImplemented"
  | .NoImplementSelf => "NoImplementSelf"
  | .InterfaceFieldNotImplemented => "InterfaceFieldNotImplemented"
  | .FieldTypeMisMatchWithInterface => "FieldTypeMisMatchWithInterface"
  | .InterfaceArgumentNotImplemented => "InterfaceArgumentNotImplemented"
  | .ArgumentTypeMisMatchWithInterface => "ArgumentTypeMisMatchWithInterface"
  | .ArgumentTypeNonNullAgainstInterface => "ArgumentTypeNonNullAgainstInterface"
  | .NonObjectTypeUnionMember => "NonObjectTypeUnionMember"
  | .TypeSystemError => "TypeSystemError"

abbrev Err := ErrKind × Pos

/-- `name.starts_with("__")` (written over the character list so that the kernel can evaluate it) -/
def reserved (n : Name) : Bool :=
  match n.toList with
  | '_' :: '_' :: _ => true
  | _ => false

/-- `HasPos for Type`: name position / `[` position / position of the inner type -/
def typePos : GType → Pos
  | .named _ p => p
  | .list _ p => p
  | .nonNull t => typePos t

/-- position of the innermost type name (`original_node_ref` of the `NamedType` node) -/
def namedPos : GType → Pos
  | .named _ p => p
  | .list t _ => namedPos t
  | .nonNull t => namedPos t

/-- remove every leading non-null wrapper -/
def stripNN : GType → GType
  | .nonNull t => stripNN t
  | t => t

/-- generic shape of the `let mut seen = vec![]; for x in xs { if seen.contains(name) {…} else {seen.push(name)} … }`
    loops: `body` receives "the name was seen before" -/
def loopSeen {α β : Type} (name : α → Name) (body : Bool → α → List β) : List Name → List α → List β
  | _, [] => []
  | seen, x :: xs =>
    body (seen.contains (name x)) x ++
      loopSeen name body (if seen.contains (name x) then seen else name x :: seen) xs

/-! ### `is_subtype` (types.rs) -/

/-- `is_subtype(definitions, target, other)`; `none` = unknown -/
def isSubtype (S : Schema) : GType → GType → Option Bool
  | .nonNull ti, other =>
    match other with
    | .nonNull oi => isSubtype S ti oi
    | o => isSubtype S ti o
  | .list ti _, other =>
    match other with
    | .list oi _ => isSubtype S ti oi
    | _ => some false
  | .named tn _, other =>
    match other with
    | .named on _ =>
      if tn == on then some true else
      match S.typeDef? tn with
      | none => none
      | some td =>
        match td.kind with
        | .scalar | .enum | .union | .input => some false
        | .interface =>
          if td.implements.any (·.1 == on) then some true
          else if (S.typeDef? on).isSome then some false else none
        | .object =>
          if td.implements.any (·.1 == on) then some true
          else match S.typeDef? on with
            | none => none
            | some od => if od.kind == .union && od.members.any (·.1 == tn) then some true else some false
    | _ =>
      match S.typeDef? tn with
      | none => none
      | some _ => some false

/-! ### `check_value` / `is_value_compatible_type_def` with `variables = None` -/

/-- the scalar arm of `is_value_compatible_type_def`: built-in scalars by name, custom scalars accept anything.
    Since fix e3584a3 the `"Int"` arm accepts an `IntValue` only when `int.value.parse::<i32>().is_ok()`
    (`Model/IntLit.lean`); `Float` and `ID` take integers of any size -/
def scalarAccepts (name : Name) (v : Value) : Bool :=
  if name == "Boolean" then (match v with | .bool .. | .null .. => true | _ => false)
  else if name == "Int" then (match v with | .int s _ => intLiteralFitsI32 s | .null .. => true | _ => false)
  else if name == "Float" then (match v with | .float .. | .int .. | .null .. => true | _ => false)
  else if name == "String" then (match v with | .str .. | .null .. => true | _ => false)
  else if name == "ID" then (match v with | .str .. | .int .. | .null .. => true | _ => false)
  else true

/-- "non-nullable and without default value" -/
def InputValueDef.required (d : InputValueDef) : Bool := d.ty.isNonNull && d.default.isNone

/-- `res && !(seen_fields < value.fields.len())` of the input-object arm -/
def objShapeOk (defs : List InputValueDef) (fs : List (Name × Pos × Value)) : Bool :=
  !(defs.any fun ef => !(fs.any (·.1 == ef.name)) && InputValueDef.required ef) &&
  !((defs.filter fun ef => fs.any (·.1 == ef.name)).length < fs.length)

mutual
/-- `check_value(definitions, None, value, expected_type, result)` -/
def checkValue (S : Schema) : Value → GType → List Err
  | .var _ p, _ => [(.UnknownVariable, p)]
  | .null p, ty =>
    if ty.isNonNull then [(.TypeMismatch, p)] else
    match stripNN ty with
    | .named n np =>
      match S.typeDef? n with
      | none => [(.TypeSystemError, np)]
      | some td =>
        match td.kind with
        | .object | .interface | .union => [(.TypeMismatch, p)]
        | _ => []
    | _ => []
  | .list vs p, ty =>
    match stripNN ty with
    | .list inner _ => checkValueList S vs inner
    | .named n np =>
      match S.typeDef? n with
      | none => [(.TypeSystemError, np)]
      | some td =>
        match td.kind with
        | .scalar => if scalarAccepts td.name (.list [] p) then [] else [(.TypeMismatch, p)]
        | _ => [(.TypeMismatch, p)]
    | .nonNull _ => []
  | .obj fs p, ty =>
    -- a non-list, non-null value for a list type is checked against the item type (list input coercion),
    -- so it ends up being checked against the innermost named type
    match S.typeDef? ty.unwrapped with
    | none => [(.TypeSystemError, namedPos ty)]
    | some td =>
      match td.kind with
      | .scalar => if scalarAccepts td.name (.obj [] p) then [] else [(.TypeMismatch, p)]
      | .input =>
        -- `for expected_field in object_def.fields { value.fields.find(key == name) → check_value }`
        (td.inputs.flatMap fun ef => checkFieldFind S fs ef.name ef.ty) ++ (if objShapeOk td.inputs fs then [] else [(.TypeMismatch, p)])
      | _ => [(.TypeMismatch, p)]
  | .enum e p, ty =>
    match S.typeDef? ty.unwrapped with
    | none => [(.TypeSystemError, namedPos ty)]
    | some td =>
      match td.kind with
      | .scalar => if scalarAccepts td.name (.enum e p) then [] else [(.TypeMismatch, p)]
      | .enum => if td.values.all (·.name != e) then [(.UnknownEnumMember, p)] else []
      | _ => [(.TypeMismatch, p)]
  | v, ty =>
    -- int / float / str / bool literals
    match S.typeDef? ty.unwrapped with
    | none => [(.TypeSystemError, namedPos ty)]
    | some td =>
      match td.kind with
      | .scalar => if scalarAccepts td.name v then [] else [(.TypeMismatch, v.pos)]
      | _ => [(.TypeMismatch, v.pos)]
/-- the elements of a list literal against the item type -/
def checkValueList (S : Schema) : List Value → GType → List Err
  | [], _ => []
  | v :: vs, ty => checkValue S v ty ++ checkValueList S vs ty
/-- `check_value` of the first field of the object literal with the given key (nothing if absent) -/
def checkFieldFind (S : Schema) : List (Name × Pos × Value) → Name → GType → List Err
  | [], _, _ => []
  | (k, _, v) :: r, name, ty => if k == name then checkValue S v ty else checkFieldFind S r name ty
end

/-! ### `check_arguments` and `check_directives` -/

/-- `check_arguments(definitions, None, parent_pos, …, arguments, arguments_definition, result)`;
    `args = []` is `arguments = None` (the grammar has no empty argument list) -/
def checkArguments (S : Schema) (parentPos : Pos) (args : List Arg) (defs : List InputValueDef) : List Err :=
  if defs.isEmpty then
    (if args.isEmpty then [] else [(.ArgumentsNotNeeded, parentPos)])
  else
    -- "Argument names must be unique; only the first argument of a name is matched below"
    loopSeen (·.1) (fun dup (a : Arg) => if dup then [(ErrKind.DuplicatedName, a.2.1)] else []) [] args ++
    (defs.flatMap fun ad =>
      match args.find? (·.1 == ad.name) with
      | none => if InputValueDef.required ad then [(.RequiredArgumentNotSpecified, parentPos)] else []
      | some (_, _, v) => checkValue S v ad.ty) ++
    (if (defs.filter fun ad => args.any (·.1 == ad.name)).length < args.length then
      (args.filter fun a => defs.all (·.name != a.1)).map fun a => (ErrKind.UnknownArgument, a.2.1)
     else [])

/-- body of the `for d in directives` loop of `check_directives` for a directive whose name was / was not
    seen before at this location -/
def checkDirective (S : Schema) (loc : String) (seenBefore : Bool) (d : Directive) : List Err :=
  match S.directiveDef? d.name with
  | none => [(.UnknownDirective, d.namePos)]
  | some df =>
    (if df.locations.all (· != loc) then [(.DirectiveLocationNotAllowed, d.pos)] else []) ++
    (if seenBefore && !df.repeatable then [(.RepeatedDirective, d.pos)] else []) ++
    checkArguments S d.pos d.args df.args

/-- `check_directives(definitions, None, directives, current_position, result)`: the `seen_directives`
    vector only records names of *defined* directives -/
def checkDirectivesAux (S : Schema) (loc : String) : List Name → List Directive → List Err
  | _, [] => []
  | seen, d :: ds =>
    checkDirective S loc (seen.contains d.name) d ++
      checkDirectivesAux S loc
        (if (S.directiveDef? d.name).isSome && !seen.contains d.name then d.name :: seen else seen) ds

def checkDirectives (S : Schema) (loc : String) (ds : List Directive) : List Err :=
  checkDirectivesAux S loc [] ds

end NitroVerif.CheckTs
