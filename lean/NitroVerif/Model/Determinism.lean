/-
C17 — determinism model.

A `std::collections::HashMap<K, V>` is modelled by its CONTENTS, an association list, and a hash-seed dependent
ITERATION ORDER: every function below that stands for Rust code iterating a hash container takes the contents in
the order the iteration happens to yield them (`it : List (K × V)`); "for every hash seed" is then "for every
permutation of `it`" (`List.Perm`, core). The only way the rest of the code observes a map is `get` — modelled by
`getLast` (`insert` / `extend` / `collect`: the last write of a key wins) or `getFirst` (`entry().or_insert`: the first
write wins) — or membership for sets. No hashing is modelled: nothing else of the seed is observable.

Sites (found by `translate/hash_sites.py`, listed in `Gen/HashSites.lean`):
  * `Schema::map_str`                      `mapStr`            crates/type-system/src/schema.rs
  * `get_bag_of_identifiers`               `bag`, `identifiers` crates/printer/src/schema_type_printer/context.rs
  * `make_local_type_names`                `localName`, `localTypeNames`
  * `SchemaTypePrinterOptions::from_config` `fromConfig`       crates/printer/src/schema_type_printer/printer.rs
  * graphql-scalars plugin                 `loadSchemaExtensions`, `schemaAddition`
  * loader `iter_loaded_files` / `get_required_files`  `requiredFiles`   crates/graphql-loader/src/{tasks,loader}.rs
Vec-driven map constructions (no hash iteration, relevant for reordering DEFINITIONS):
  * `generate_definition_map`              `defMapTypes` (last wins)     crates/semantics/src/definition_map.rs
  * `SchemaBuilder::extend`                `builderTypes` (first wins)   crates/type-system/src/builder.rs
  * `get_scalar_types`                     `scalarTypes`
and the shape of the order-(in)dependence of the pure pipeline: `verdict`, `decls`.

Core Lean only; everything is structurally recursive.
-/
import NitroVerif.Gql.Schema
namespace NitroVerif.Determinism

/-! ## maps as association lists -/

/-- keys of an association list are pairwise distinct (what the contents of a hash map always satisfy) -/
def NoDupKeys {K V : Type} (l : List (K × V)) : Prop := (l.map Prod.fst).Nodup

/-- `HashMap::get` after the writes `l` were applied with `insert` (later writes overwrite) -/
def getLast {K V : Type} [BEq K] : List (K × V) → K → Option V
  | [], _ => none
  | (k', v) :: rest, k =>
    match getLast rest k with
    | some w => some w
    | none => if k' == k then some v else none

/-- `HashMap::get` after the writes `l` were applied with `entry(k).or_insert(v)` (the first write stays) -/
def getFirst {K V : Type} [BEq K] (l : List (K × V)) (k : K) : Option V := l.lookup k

/-! ## site: `Schema::map_str` — `self.type_definitions.iter().map(|(k, v)| (f(k), g(v))).collect()` -/

/-- the collected map, as the write sequence in iteration order `it` -/
def mapStr {K V K' V' : Type} (f : K → K') (g : V → V') (it : List (K × V)) : List (K' × V') :=
  it.map fun kv => (f kv.1, g kv.2)

/-! ## site: `get_bag_of_identifiers` — identifiers occurring in the TypeScript texts of the scalar types -/

def isIdentStart (c : Char) : Bool := c.isAlpha || c == '_'
def isIdentCont (c : Char) : Bool := c.isAlphanum || c == '_'

/-- the scanning loop of `get_bag_of_identifiers` over one text: `cur = some acc` while inside an identifier
    (`acc` = its characters so far, reversed) -/
def identifiersAux : List Char → Option (List Char) → List (List Char)
  | [], none => []
  | [], some acc => [acc.reverse]
  | c :: cs, none => if isIdentStart c then identifiersAux cs (some [c]) else identifiersAux cs none
  | c :: cs, some acc =>
    if isIdentCont c then identifiersAux cs (some (c :: acc)) else acc.reverse :: identifiersAux cs none

def identifiers (text : List Char) : List (List Char) := identifiersAux text none

/-- `scalar_types.values().flat_map(|v| v.type_names())` then the scanning loop; `it` = the VALUES of the scalar
    type map in hash iteration order, each value = the list of its TypeScript texts. The result vector is then
    collected into a `HashSet`, observed through `contains` only: membership in this list. -/
def bag (it : List (List (List Char))) : List (List Char) :=
  it.flatMap fun texts => texts.flatMap identifiers

def tmpPrefix : List Char := "__tmp_".toList

/-- local name of a schema type in the schema declaration file -/
def localName (bagIds : List (List Char)) (n : List Char) : List Char :=
  if bagIds.contains n then tmpPrefix ++ n else n

/-- `make_local_type_names`: one write per type definition, in document order -/
def localTypeNames (bagIds : List (List Char)) (typeNames : List (List Char)) : List (List Char × List Char) :=
  typeNames.map fun n => (n, localName bagIds n)

/-! ## site: `SchemaTypePrinterOptions::from_config` — `builtin.extend(config.scalar_types.iter().map(clone))` -/

def fromConfig {K V : Type} (builtin : List (K × V)) (it : List (K × V)) : List (K × V) := builtin ++ it

/-! ## sites: graphql-scalars plugin -/

/-- `load_schema_extensions`: `for (name, ext) in type_extensions { if let Some(c) = parse(ext) { map.insert(name, c) } }` -/
def loadSchemaExtensions {K E V : Type} (parse : E → Option V) (prev : List (K × V)) (it : List (K × E)) : List (K × V) :=
  prev ++ it.filterMap fun ke => (parse ke.2).map fun v => (ke.1, v)

/-- `schema_addition`: `iter().collect::<Vec<_>>()`, `sort_by_key(type_name)` (a stable merge sort), then one
    `extend scalar …` text per entry — the result is the sorted vector (the texts are a `map` over it) -/
def schemaAddition {K V : Type} (le : K → K → Bool) (it : List (K × V)) : List (K × V) :=
  it.mergeSort fun a b => le a.1 b.1

/-! ## site: loader `get_required_files` over `Task::iter_loaded_files` -/

/-- `it` = the loaded files in hash iteration order, each with the resolved paths of its `#import`s;
    a path is pushed unless it is loaded or already pushed -/
def requiredStep {P : Type} [BEq P] (loadedKeys : List P) (acc : List P) (imports : List P) : List P :=
  imports.foldl (fun acc p => if loadedKeys.contains p || acc.contains p then acc else acc ++ [p]) acc

def requiredFiles {P : Type} [BEq P] (it : List (P × List P)) : List P :=
  it.foldl (fun acc fi => requiredStep (it.map Prod.fst) acc fi.2) []

/-! ## Vec-driven constructions (document order; relevant when DEFINITIONS are reordered) -/

open NitroVerif.Gql in
/-- `generate_definition_map`: `types.insert(name, def)` per type definition, in document order (last wins) -/
def defMapTypes (items : TsDoc) : List (Name × TypeDef) :=
  items.filterMap fun | .typeDef t => some (t.name, t) | _ => none

open NitroVerif.Gql in
def defMapDirectives (items : TsDoc) : List (Name × DirectiveDef) :=
  items.filterMap fun | .directiveDef d => some (d.name, d) | _ => none

open NitroVerif.Gql in
/-- `SchemaBuilder::extend`: `entry(name).or_insert(def)` per type definition (first wins); same write sequence -/
def builderTypes (items : TsDoc) : List (Name × TypeDef) := defMapTypes items

/-- `get_scalar_types`: one write `(scalar name, its TS types)` per scalar definition that has a mapping -/
def scalarTypes {N T : Type} (mapping : N → Option T) (scalarNames : List N) : List (N × T) :=
  scalarNames.filterMap fun n => (mapping n).map fun t => (n, t)

open NitroVerif.Gql in
/-- the names of the type definitions of a document are pairwise distinct (guaranteed after
    `resolve_schema_extensions`: a duplicate original is an error) -/
def NoDupTypeNames (items : TsDoc) : Prop := ((Schema.mk items).typeDefs.map (·.name)).Nodup

open NitroVerif.Gql in
def NoDupDirectiveNames (items : TsDoc) : Prop := ((Schema.mk items).directiveDefs.map (·.name)).Nodup

open NitroVerif.Gql in
/-- the lookup view of a document that the checker and the printers consult (`DefinitionMap` / `Schema::get_type`) -/
structure View where
  typeDef : Name → Option TypeDef
  directiveDef : Name → Option DirectiveDef

open NitroVerif.Gql in
def viewOf (items : TsDoc) : View :=
  { typeDef := (Schema.mk items).typeDef?, directiveDef := (Schema.mk items).directiveDef? }

/-! ## shape of the pure pipeline with respect to the order of definitions -/

/-- A checker that visits the definitions in document order and consults the rest of the document only through
    a lookup view `view`; its diagnostics are the concatenation. (Shape of `check_type_system_document`: a loop over
    `document.definitions` with a `DefinitionMap`.) The verdict is "no diagnostic". -/
def diagnostics {D View E : Type} (chk : View → D → List E) (view : View) (defs : List D) : List E :=
  defs.flatMap (chk view)

def verdictOk {D View E : Type} (chk : View → D → List E) (view : View) (defs : List D) : Bool :=
  (diagnostics chk view defs).isEmpty

/-- What a schema declaration denotes, as far as the order of definitions can matter: records keep the field
    order of their own definition; unions (GraphQL unions and interfaces = union of the implementers) list
    members in definition order. -/
inductive DeclBody where
  | record (fields : List (Gql.Name × Gql.GType))
  | union (members : List Gql.Name)
  | leaf (values : List Gql.Name)
  deriving Repr, DecidableEq

structure Decl where
  name : Gql.Name
  body : DeclBody
  deriving Repr, DecidableEq

/-- denotational equality of declaration bodies: unions are sets of members -/
def DeclBody.Equiv : DeclBody → DeclBody → Prop
  | .record f₁, .record f₂ => f₁ = f₂
  | .union m₁, .union m₂ => m₁.Perm m₂
  | .leaf v₁, .leaf v₂ => v₁ = v₂
  | _, _ => False

open NitroVerif.Gql in
/-- the declaration the schema type printer emits for one type definition (output target) -/
def declOf (s : Schema) (t : TypeDef) : Decl :=
  { name := t.name,
    body := match t.kind with
      | .object => .record (t.fields.map fun f => (f.name, f.ty))
      | .input => .record (t.inputs.map fun f => (f.name, f.ty))
      | .interface => .union (s.objectImplementers t.name)
      | .union => .union (t.members.map (·.1))
      | .enum => .leaf (t.values.map (·.name))
      | .scalar => .leaf [] }

open NitroVerif.Gql in
/-- `for def in document.definitions { def.print_type(..) }`: one declaration per type definition, in document order -/
def decls (items : TsDoc) : List Decl :=
  (Schema.mk items).typeDefs.map (declOf (Schema.mk items))

/-- the declaration exported under alias `a` -/
def declNamed (ds : List Decl) (a : Gql.Name) : Option Decl := ds.find? (·.name == a)

/-! ## library entry points vs CLI glue (`write_file_and_sourcemap`) -/

/-- the line the CLI appends after the printer's buffer -/
def trailer (mapFileName : List Char) : List Char :=
  "\n//# sourceMappingURL=".toList ++ mapFileName ++ ['\n']

/-- `writeln!(file, "{}", buffer); writeln!(file, "//# sourceMappingURL={}", map)` -/
def cliDeclFile (printed : List Char) (mapFileName : List Char) : List Char := printed ++ trailer mapFileName

/-- what the harness compares with the library text: the CLI file without the trailer -/
def stripTrailer (mapFileName file : List Char) : Option (List Char) :=
  if file.drop (file.length - (trailer mapFileName).length) = trailer mapFileName
  then some (file.take (file.length - (trailer mapFileName).length)) else none

end NitroVerif.Determinism
