/-
Model of `crates/printer/src/json_printer/{to_json.rs,helpers.rs}`: the abstract syntax of an executable
document → the graphql-js `DocumentNode` JSON *tree* that nitrogql embeds in `.graphql.ts` files (standalone
mode) and in the bundler loaders' JavaScript.

One function per `impl JsonPrintable for …`, members in the order the code writes them:
  * no `loc` members anywhere;
  * `Name`            → {kind:"Name", value}
  * `Variable`        → {kind:"Variable", name:Name}
  * types             → NamedType{name} | ListType{type} | NonNullType{type}
  * values            → Variable | BooleanValue{value:bool} | IntValue/FloatValue{value: raw text as a STRING}
                        | StringValue{value} (no `block` member) | NullValue{} | EnumValue{value}
                        | ListValue{values} | ObjectValue{fields:[ObjectField{name,value}]}
  * `Argument`        → {kind, name, value};  `Directive` → {kind, name, arguments}
  * `Field`           → {kind, name, alias?, arguments, directives, selectionSet?}
  * `FragmentSpread`  → {kind, name, directives};  `InlineFragment` → {kind, typeCondition?, directives, selectionSet?}
  * `write_selection_set` writes NO `selectionSet` member when the selection list is empty
    (so `f { }`-shaped ASTs — which the grammar cannot produce — lose the distinction with `f`);
  * `VariableDefinition` → {kind, variable, type, defaultValue?, directives}
    (directives are printed like a field's directives since the `fix:` commit recorded in design-notes/C12.md;
     the pinned code always wrote `"directives":[]`);
  * `OperationDefinition` → {kind, operation, name?, variableDefinitions, directives, selectionSet?}
  * `FragmentDefinition`  → {kind, name, typeCondition, directives, selectionSet?}
  * a document           → {kind:"Document", definitions:[…]}.
`#import` lines are not part of a resolved document (`ExecutableDefinition` has no such variant); the model
prints nothing for them (`defsJ` skips them) and the theorems assume there is none.
Core Lean only.
-/
import NitroVerif.Base.Json
import NitroVerif.Gql.Ast
namespace NitroVerif.DocJson
open NitroVerif NitroVerif.Gql

def kind (k : String) : String × Json := ("kind", .str k)

/-- `helpers.rs Name` -/
def nameJ (n : Name) : Json := .obj [kind "Name", ("value", .str n)]

/-- `helpers.rs Variable` -/
def varJ (n : Name) : Json := .obj [kind "Variable", ("name", nameJ n)]

/-- `impl JsonPrintable for Type` -/
def typeJ : GType → Json
  | .named n _ => .obj [kind "NamedType", ("name", nameJ n)]
  | .list t _ => .obj [kind "ListType", ("type", typeJ t)]
  | .nonNull t => .obj [kind "NonNullType", ("type", typeJ t)]

mutual
/-- `impl JsonPrintable for Value` -/
def valueJ : Value → Json
  | .var n _ => varJ n
  | .bool b _ => .obj [kind "BooleanValue", ("value", .bool b)]
  | .int s _ => .obj [kind "IntValue", ("value", .str s)]
  | .float s _ => .obj [kind "FloatValue", ("value", .str s)]
  | .str s _ => .obj [kind "StringValue", ("value", .str s)]
  | .null _ => .obj [kind "NullValue"]
  | .enum n _ => .obj [kind "EnumValue", ("value", .str n)]
  | .list vs _ => .obj [kind "ListValue", ("values", .arr (valuesJ vs))]
  | .obj fs _ => .obj [kind "ObjectValue", ("fields", .arr (fieldsJ fs))]
def valuesJ : List Value → List Json
  | [] => []
  | v :: vs => valueJ v :: valuesJ vs
def fieldsJ : List (Name × Pos × Value) → List Json
  | [] => []
  | (k, _, v) :: r => .obj [kind "ObjectField", ("name", nameJ k), ("value", valueJ v)] :: fieldsJ r
end

/-- `helpers.rs Argument` -/
def argJ : Arg → Json
  | (n, _, v) => .obj [kind "Argument", ("name", nameJ n), ("value", valueJ v)]

/-- `impl JsonPrintable for Directive` -/
def dirJ (d : Directive) : Json :=
  .obj [kind "Directive", ("name", nameJ d.name), ("arguments", .arr (d.args.map argJ))]

/-- `impl JsonPrintable for SelectionSet` -/
def selSetJ (sels : List Json) : Json := .obj [kind "SelectionSet", ("selections", .arr sels)]

/-- `write_selection_set`: nothing at all for an empty selection list -/
def selSetKV (sels : List Json) : List (String × Json) :=
  match sels with
  | [] => []
  | _ :: _ => [("selectionSet", selSetJ sels)]

def optNameKV (key : String) : Option (Name × Pos) → List (String × Json)
  | none => []
  | some (n, _) => [(key, nameJ n)]

/-- the type condition of fragments is printed as a `NamedType` node -/
def condJ (n : Name) : Json := .obj [kind "NamedType", ("name", nameJ n)]

def optCondKV : Option (Name × Pos) → List (String × Json)
  | none => []
  | some (n, _) => [("typeCondition", condJ n)]

mutual
/-- `impl JsonPrintable for Selection / Field / FragmentSpread / InlineFragment` -/
def selJ : Selection → Json
  | .field al n _ args dirs (some ss) =>
    .obj ([kind "Field", ("name", nameJ n)] ++ optNameKV "alias" al ++
      [("arguments", .arr (args.map argJ)), ("directives", .arr (dirs.map dirJ))] ++ selSetKV (selsJ ss))
  | .field al n _ args dirs none =>
    .obj ([kind "Field", ("name", nameJ n)] ++ optNameKV "alias" al ++
      [("arguments", .arr (args.map argJ)), ("directives", .arr (dirs.map dirJ))])
  | .spread n _ dirs _ =>
    .obj [kind "FragmentSpread", ("name", nameJ n), ("directives", .arr (dirs.map dirJ))]
  | .inline c dirs ss _ =>
    .obj ([kind "InlineFragment"] ++ optCondKV c ++ [("directives", .arr (dirs.map dirJ))] ++ selSetKV (selsJ ss))
def selsJ : List Selection → List Json
  | [] => []
  | s :: r => selJ s :: selsJ r
end

def optDefaultKV : Option Value → List (String × Json)
  | none => []
  | some v => [("defaultValue", valueJ v)]

/-- `impl JsonPrintable for VariableDefinition` -/
def varDefJ (v : VarDef) : Json :=
  .obj ([kind "VariableDefinition", ("variable", varJ v.name), ("type", typeJ v.ty)] ++ optDefaultKV v.default ++
    [("directives", .arr (v.dirs.map dirJ))])

/-- `impl JsonPrintable for OperationDefinition` -/
def opJ (o : OperationDef) : Json :=
  .obj ([kind "OperationDefinition", ("operation", .str o.kind.asStr)] ++ optNameKV "name" o.name ++
    [("variableDefinitions", .arr (o.vars.map varDefJ)), ("directives", .arr (o.dirs.map dirJ))] ++
    selSetKV (selsJ o.sel))

/-- `impl JsonPrintable for FragmentDefinition` -/
def fragJ (f : FragmentDef) : Json :=
  .obj ([kind "FragmentDefinition", ("name", nameJ f.name), ("typeCondition", condJ f.cond),
    ("directives", .arr (f.dirs.map dirJ))] ++ selSetKV (selsJ f.sel))

/-- one definition; `#import` lines do not exist in a resolved document -/
def defJ : ExecDef → Option Json
  | .op o => some (opJ o)
  | .frag f => some (fragJ f)
  | .imp _ => none

def defsJ (defs : List ExecDef) : List Json := defs.filterMap defJ

/-- `impl JsonPrintable for [ExecutableDefinitionRef]` / `OperationDocument` -/
def toJson (defs : List ExecDef) : Json :=
  .obj [kind "Document", ("definitions", .arr (defsJ defs))]

end NitroVerif.DocJson
