/-
Model of `int.value.parse::<i32>().is_ok()` — the test `is_value_compatible_type_def` (crates/checker/src/common.rs,
fix e3584a3) applies to the text of an `IntValue` where the built-in scalar `Int` is expected.

`<i32 as FromStr>::from_str` = `i32::from_str_radix(src, 10)` (core::num):

  * the empty string is an error (`Empty`); a lone `"+"` or `"-"` is an error (`InvalidDigit`);
  * one leading `+` or `-` is taken off (`i32` is a signed type); a `+` cannot occur in an `IntValue` of the GraphQL
    grammar (`-?(0|[1-9][0-9]*)`), the model nevertheless follows the Rust function on every text;
  * every remaining byte must be an ASCII decimal digit (`InvalidDigit` otherwise — a second sign, a letter, a byte of a
    non-ASCII character); leading zeros are digits like any other, and `-0` is `Ok(0)`;
  * the accumulator starts at 0; per digit `result = result.checked_mul(10)?` and then `checked_add(d)?` (no `-` sign)
    resp. `checked_sub(d)?` (`-` sign): `PosOverflow` / `NegOverflow` as soon as an intermediate result leaves
    `i32::MIN ..= i32::MAX`. (For short texts the standard library skips the overflow tests because they cannot fire;
    the result is the same.)

The text is the literal as written (`String`); the functions run over its character list, are structurally recursive
and kernel-evaluable. Core Lean only.
-/
namespace NitroVerif.IntLit

def i32Min : Int := -2147483648
def i32Max : Int := 2147483647

/-- `(c as char).to_digit(10)` -/
def digitVal? (c : Char) : Option Nat :=
  if 48 ≤ c.toNat && c.toNat ≤ 57 then some (c.toNat - 48) else none

/-- the value fits `i32` (`checked_*` returned `Some`) -/
def inI32 (i : Int) : Bool := decide (i32Min ≤ i) && decide (i ≤ i32Max)

/-- the digit loop of `from_str_radix` with its checked arithmetic; `neg` = the text began with `-`.
    `false` = the function returned `Err(..)` -/
def i32Loop (neg : Bool) : List Char → Int → Bool
  | [], _ => true
  | c :: cs, acc =>
    match digitVal? c with
    | none => false
    | some d =>
      if inI32 (acc * 10) then
        (let r := if neg then acc * 10 - (d : Int) else acc * 10 + (d : Int)
         if inI32 r then i32Loop neg cs r else false)
      else false

/-- `i32::from_str_radix(src, 10).is_ok()` over the characters of `src` -/
def parseI32Ok : List Char → Bool
  | [] => false
  | ['+'] => false
  | ['-'] => false
  | '+' :: rest => i32Loop false rest 0
  | '-' :: rest => i32Loop true rest 0
  | cs => i32Loop false cs 0

/-- `int.value.parse::<i32>().is_ok()`: the text of the Int literal is accepted where `Int` is expected -/
def intLiteralFitsI32 (s : String) : Bool := parseI32Ok s.toList

end NitroVerif.IntLit
