/-
How `crates/cli/src/main.rs` (`resolve_loaded_schema`, `extend_loaded_schema`) and `check.rs` obtain the schema the
operation checker and the operation type printer work with, for the two routes:

* SDL route (`LoadedSchema::GraphQL`): the merged document is extended with `generate_builtins()` (five scalars,
  `@skip @include @deprecated @specifiedBy`) and `nitrogql_builtins()` (`@nitrogql_ts_type`), all at built-in
  positions and AFTER the user's definitions; then `ast_to_type_system`.
* JSON route (`LoadedSchema::Introspection`): the schema read from the JSON, extended with the five built-in scalar
  definitions (`Schema::extend`: names the introspection result lists keep their definition) — since
  `fix: a schema read from an introspection result has all five built-in scalars`.
Core Lean only.
-/
import NitroVerif.Model.AstSchema
import NitroVerif.Model.Introspect
namespace NitroVerif.CliSchema
open NitroVerif NitroVerif.Gql NitroVerif.SchemaIR

def bp : Pos := { builtin := true }

def bScalar (n : String) : TsItem := .typeDef { kind := .scalar, name := n, namePos := bp, pos := bp }

def bArg (n : String) (ty : GType) (default : Option Value := none) : InputValueDef :=
  { name := n, pos := bp, ty := ty, default := default }

def bNamed (n : String) : GType := .named n bp

def bDirective (n : String) (args : List InputValueDef) (locs : List String) : TsItem :=
  .directiveDef { name := n, namePos := bp, args := args, repeatable := false, locations := locs, pos := bp }

/-- `generate_builtins()` ++ `nitrogql_builtins()` -/
def builtins : TsDoc :=
  [ bScalar "Int", bScalar "Float", bScalar "String", bScalar "Boolean", bScalar "ID",
    bDirective "skip" [bArg "if" (.nonNull (bNamed "Boolean"))] ["FIELD", "FRAGMENT_SPREAD", "INLINE_FRAGMENT"],
    bDirective "include" [bArg "if" (.nonNull (bNamed "Boolean"))] ["FIELD", "FRAGMENT_SPREAD", "INLINE_FRAGMENT"],
    bDirective "deprecated" [bArg "reason" (bNamed "String") (some (.str "No longer supported" bp))]
      ["FIELD_DEFINITION", "ARGUMENT_DEFINITION", "INPUT_FIELD_DEFINITION", "ENUM_VALUE"],
    bDirective "specifiedBy" [bArg "url" (.nonNull (bNamed "String"))] ["SCALAR"],
    bDirective "nitrogql_ts_type"
      [bArg "resolverInput" (.nonNull (bNamed "String")), bArg "resolverOutput" (.nonNull (bNamed "String")),
       bArg "operationInput" (.nonNull (bNamed "String")), bArg "operationOutput" (.nonNull (bNamed "String"))]
      ["SCALAR"] ]

/-- the schema of the SDL route -/
def routeSdl (M : TsDoc) : Schema := AstSchema.astToSchema (M ++ builtins)

def builtinScalarDefs : List ITypeDef :=
  ["Int", "Float", "String", "Boolean", "ID"].map fun n => { kind := .scalar, name := n }

/-- `extend_loaded_schema` on the introspection route -/
def addBuiltinScalars (s : Schema) : Schema := { s with types := extendTypes s.types builtinScalarDefs }

/-- the schema of the JSON route -/
def routeJson (j : Json) : Except Introspect.IErr Schema :=
  match Introspect.fromIntrospection j with
  | .ok s => .ok (addBuiltinScalars s)
  | .error e => .error e

end NitroVerif.CliSchema
