/-
Model of the schema declaration file printer:
  crates/printer/src/schema_type_printer/printer.rs       (print_document, print_prelude, get_schema_metadata_type)
  crates/printer/src/schema_type_printer/type_printer.rs  (print_type / print_representative per kind, export_type,
                                                           export_representative, make_ts_description)
  crates/printer/src/ts_types/type_to_ts_type.rs          (get_ts_type_of_type)
  crates/printer/src/ts_types/ts_types_util.rs            (ts_union)
  crates/printer/src/ts_types/mod.rs                      (print_type, into_readonly, is_raw_ident)
  crates/printer/src/utils.rs                             (interface_implementers)
as a function (config, resolved type-system document) ↦ `Ts.File`, the tree `harness/src/tsparse.rs` produces from
the emitted TEXT. Trees are in print→parse normal form: `TSType::Union` of one member is that member, of none is
`never`, a union written directly inside a union is flat (the printer emits no parentheses there).

Model of the code AFTER the repairs of this property:
  * interface and union members are referenced by their LOCAL names (`__tmp_X` when renamed) — `fix:` commit for §9-aa;
  * JSDoc lines have `*/` escaped (`Model/JsDoc.lean`) — `fix:` commit for §9-ab.
Deviation: where the Rust code would panic (`expect("Local type name not generated")` for a name that is not
defined in the document) the model uses `localName` of the name; a checked schema has no such reference.
Core Lean only; structurally recursive.
-/
import NitroVerif.Model.DeclCfg
import NitroVerif.Model.JsDoc
namespace NitroVerif.SchemaDecls
open NitroVerif.Gql NitroVerif.Ts NitroVerif.DeclCfg

/-- `ts_union`, and also the print→parse image of `TSType::Union(members)` -/
def tsUnion : List Ty → Ty
  | [] => .prim "never"
  | [t] => t
  | ts => .union ts

/-- the non-null part of `get_ts_type_of_type` (first component of `get_ts_type_of_type_impl`);
    `ro` = after `into_readonly` -/
def tsCore (leaf : Name → Ty) (ro : Bool) : GType → Ty
  | .named n _ => leaf n
  | .list t _ =>
    let el := if t.isNonNull then tsCore leaf ro t else .union [tsCore leaf ro t, .prim "null"]
    if ro then .roArr el else .arr el
  | .nonNull t => tsCore leaf ro t

/-- `get_ts_type_of_type` -/
def tsOf (leaf : Name → Ty) (ro : Bool) (t : GType) : Ty :=
  if t.isNonNull then tsCore leaf ro t else .union [tsCore leaf ro t, .prim "null"]

/-- `convert_deprecation` (semantics/ast_to_type_system.rs) -/
def deprecationOf (dirs : List Directive) : Option String :=
  match dirs.find? (·.name == "deprecated") with
  | none => none
  | some d =>
    match d.args.find? (·.1 == "reason") with
    | some (_, _, .str s _) => some s
    | _ => some "No longer supported"

/-- normalised text of a JSDoc comment: its lines joined by `\n` -/
def joinLines : List String → String
  | [] => ""
  | [a] => a
  | a :: r => a ++ "\n" ++ joinLines r

def docText (d : String) : String := joinLines (JsDoc.docLines d)

def descStmts : Option String → List Stmt
  | some d => [.doc (docText d)]
  | none => []

/-- `export_type` -/
def exportType (schemaName localName : String) (ty : Ty) : List Stmt :=
  if schemaName == localName then [.type true localName [] ty]
  else [.type false localName [] ty, .exportList true [(localName, schemaName)]]

/-- `export_representative` -/
def exportRepresentative (schemaName localName : String) (target : Target) : List Stmt :=
  if schemaName == localName then [.type true localName [] (.qref [target.name, localName])]
  else [.type false localName [] (.qref [target.name, schemaName]), .exportList true [(localName, schemaName)]]

structure Ctx where
  cfg : Cfg
  schema : Schema
  scalarTypes : List (Name × ScalarCfg)
  bag : List String
  target : Target

def Ctx.new (c : Cfg) (doc : TsDoc) (t : Target) : Ctx :=
  let sts := DeclCfg.scalarTypes c doc
  { cfg := c, schema := ⟨doc⟩, scalarTypes := sts, bag := DeclCfg.bag sts, target := t }

def Ctx.local (x : Ctx) (n : Name) : String := localName x.bag n
def Ctx.leaf (x : Ctx) (n : Name) : Ty := .ref (x.local n)

/-- object type: `__typename` literal + every field (leaf = how a named type is referenced) -/
def objectBodyL (leaf : Name → Ty) (td : TypeDef) : Ty :=
  .obj (("__typename", false, false, .strLit td.name)
    :: td.fields.map fun f => (f.name, false, false, tsOf leaf false f.ty))

def objectBody (x : Ctx) (td : TypeDef) : Ty := objectBodyL x.leaf td

/-- interface / union: `ts_union` of the references to the possible object types -/
def membersBodyL (leaf : Name → Ty) (names : List Name) : Ty := tsUnion (names.map leaf)

def interfaceBody (x : Ctx) (td : TypeDef) : Ty :=
  membersBodyL x.leaf (x.schema.objectImplementers td.name)

def unionBody (x : Ctx) (td : TypeDef) : Ty :=
  membersBodyL x.leaf (td.members.map (·.1))

def enumBody (td : TypeDef) : Ty :=
  tsUnion (td.values.map fun v => .strLit v.name)

/-- type of a possibly-optional input position: `| undefined` is appended when it is optional
    (print→parse normal form of `Union[Union[core, null], undefined]`) -/
def optFieldTy (leaf : Name → Ty) (ro opt : Bool) (t : GType) : Ty :=
  if opt then .union [tsCore leaf ro t, .prim "null", .prim "undefined"] else tsOf leaf ro t

def inputFieldL (leaf : Name → Ty) (optionalInput : Bool) (f : InputValueDef) : Field :=
  let opt := optionalInput && !f.ty.isNonNull
  (f.name, true, opt, optFieldTy leaf true opt f.ty)

def inputBodyL (leaf : Name → Ty) (optionalInput : Bool) (td : TypeDef) : Ty :=
  .obj (td.inputs.map (inputFieldL leaf optionalInput))

def inputBody (x : Ctx) (td : TypeDef) : Ty := inputBodyL x.leaf x.cfg.optionalInput td

/-- body of the alias of a type definition in the namespace of the context's target;
    `none` = the kind is not printed for this target; `error name` = scalar without a TypeScript type -/
def body (x : Ctx) (td : TypeDef) : Except String (Option Ty) :=
  match td.kind with
  | .scalar =>
    match x.scalarTypes.find? (·.1 == td.name) with
    | some (_, sc) => .ok (some (x.cfg.parseOf (sc.getType x.target)))
    | none => .error td.name
  | .object => .ok (if x.target.isInput then none else some (objectBody x td))
  | .interface => .ok (if x.target.isInput then none else some (interfaceBody x td))
  | .union => .ok (if x.target.isInput then none else some (unionBody x td))
  | .enum => .ok (some (enumBody td))
  | .input => .ok (if x.target.isOutput then none else some (inputBody x td))

/-- `TypeDefinition::print_type` -/
def printType (x : Ctx) (td : TypeDef) : Except String (List Stmt) :=
  match body x td with
  | .error e => .error e
  | .ok none => .ok []
  | .ok (some ty) => .ok (descStmts td.desc ++ exportType td.name (x.local td.name) ty)

def typeDefsOf (doc : TsDoc) : List TypeDef :=
  doc.filterMap fun | .typeDef t => some t | _ => none

def namespaceBody (x : Ctx) : List TypeDef → Except String (List Stmt)
  | [] => .ok []
  | td :: rest =>
    match printType x td with
    | .error e => .error e
    | .ok ss => match namespaceBody x rest with
      | .error e => .error e
      | .ok r => .ok (ss ++ r)

def namespaces (c : Cfg) (doc : TsDoc) : List Target → Except String (List Stmt)
  | [] => .ok []
  | t :: rest =>
    match namespaceBody (Ctx.new c doc t) (typeDefsOf doc) with
    | .error e => .error e
    | .ok body => match namespaces c doc rest with
      | .error e => .error e
      | .ok r => .ok (.namespace true t.name body :: r)

/-- `get_schema_metadata_type` -/
def schemaMetadata (doc : TsDoc) : Ty :=
  match doc.findSome? fun | .schemaDef s => some s | _ => none with
  | some sd => .obj (sd.roots.map fun (k, n, _) => (k.asStr, false, false, .ref n))
  | none =>
    .obj ((typeDefsOf doc).filterMap fun td =>
      if td.kind == .object then
        if td.name == "Query" then some ("query", false, false, .ref td.name)
        else if td.name == "Mutation" then some ("mutation", false, false, .ref td.name)
        else if td.name == "Subscription" then some ("subscription", false, false, .ref td.name)
        else none
      else none)

def beautifyText : String := "<Obj> = { [K in keyof Obj]: Obj[K] } & {}"
def selectionSetText : String :=
  "<Orig, Obj, Others> = __Beautify<Pick<{ [K in keyof Orig]: Obj extends { [P in K]?: infer V } ? V : unknown }, Extract<keyof Orig, keyof Obj>> & Others>"

def prelude (doc : TsDoc) : List Stmt :=
  [.type true "__nitrogql_schema" [] (schemaMetadata doc),
   .rawType false "__Beautify" beautifyText,
   .rawType true "__SelectionSet" selectionSetText]

/-- `print_representative` of one definition (the context's target is a dummy there) -/
def representative (x : Ctx) (td : TypeDef) : List Stmt :=
  let target := if td.kind == .input then Target.resolverInput else Target.operationOutput
  exportRepresentative td.name (x.local td.name) target ++
  (if td.kind == .enum && x.cfg.emitSchemaRuntime then
    [.const true false td.name (some (.ref "const")) (some (.obj (td.values.map fun v => (v.name, .str v.name))))]
   else [])

/-- `SchemaTypePrinter::print_document` as a tree -/
def schemaFile (c : Cfg) (doc : TsDoc) : Except String File :=
  match namespaces c doc Target.all with
  | .error e => .error e
  | .ok ns =>
    let x := Ctx.new c doc .operationOutput
    .ok (prelude doc ++ ns ++ (typeDefsOf doc).flatMap (representative x))

/-! ### every JSDoc comment of the file, in text order (type-level AND field-level) -/

def optDoc : Option String → List String
  | some d => [docText d]
  | none => []

def fieldDocs (x : Ctx) (td : TypeDef) : List String :=
  match td.kind with
  | .object =>
    if x.target.isInput then [] else
    optDoc td.desc ++ td.fields.flatMap fun f => optDoc (JsDoc.fieldDescription f.desc (deprecationOf f.dirs))
  | .input =>
    if x.target.isOutput then [] else
    optDoc td.desc ++ td.inputs.flatMap fun f => optDoc (JsDoc.fieldDescription f.desc (deprecationOf f.dirs))
  | .interface | .union => if x.target.isInput then [] else optDoc td.desc
  | _ => optDoc td.desc

def metadataDocs (doc : TsDoc) : List String :=
  match doc.findSome? fun | .schemaDef s => some s | _ => none with
  | some sd => sd.roots.flatMap fun _ => optDoc sd.desc
  | none => []

def allDocs (c : Cfg) (doc : TsDoc) : List String :=
  metadataDocs doc ++ Target.all.flatMap fun t => (typeDefsOf doc).flatMap (fieldDocs (Ctx.new c doc t))

/-- `is_raw_ident` (ts_types/mod.rs): may the key be printed without quotes? -/
def isRawIdent (key : String) : Bool :=
  match key.toList with
  | [] => false
  | c :: r => (c.isAlpha || c == '_') && r.all fun d => d.isAlphanum || d == '_'

end NitroVerif.SchemaDecls
