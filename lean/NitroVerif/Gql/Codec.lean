/-
S-expression codec of the shared GraphQL vocabulary (`Gql/Ast.lean`), the wire format between the Rust
harness (`harness/src/gm.rs`: `to_sexp`) and the Lean drivers. Imported by drivers only — no theorem
depends on this file (it uses `partial`).

  pos   := (p) | (p L C) | (p L C F) | (pb)
  type  := (named "N" pos) | (list T pos) | (nonnull T)
  value := (var "n" pos) | (int "1" pos) | (float "1.5" pos) | (str "s" pos) | (bool true pos) | (null pos)
         | (enum "E" pos) | (list (V…) pos) | (obj (A…) pos)
  arg   := (arg "name" pos V)
  dir   := (dir "name" namepos (A…) pos)
  sel   := (field (alias "a" pos)|(noalias) "name" pos (A…) (D…) (sel S…)|(nosel))
         | (spread "name" namepos (D…) pos)
         | (inline (on "T" pos)|(noon) (D…) (S…) pos)
  vdef  := (vardef "name" pos T (default V)|(nodefault) (D…))
  def   := (op query|mutation|subscription (name "N" pos)|(noname) (vdef…) (D…) (S…) pos)
         | (frag "name" namepos "Cond" condpos (D…) (S…) pos)
         | (import ((target "A" pos)|(wildcard) …) "path" pos)
  doc   := (doc def…)
  desc  := (desc "text") | (nodesc)
  ivdef := (ivdef desc "name" pos T (default V)|(nodefault) (D…))
  fdef  := (fdef desc "name" pos (ivdef…) T (D…))
  evdef := (evdef desc "name" pos (D…))
  names := (("N" pos)…)
  item  := (typedef KIND desc "name" namepos names(implements) (D…) (fdef…) names(members) (evdef…) (ivdef…) pos)
         | (typeext KIND (nodesc) "name" namepos names (D…) (fdef…) names (evdef…) (ivdef…) pos)
         | (dirdef desc "name" namepos (ivdef…) true|false ("LOC"…) pos)
         | (schemadef desc (D…) ((root query "Q" pos)…) pos)
         | (schemaext (nodesc) (D…) ((root …)…) pos)
  tsdoc := (tsdoc item…)
  KIND  := scalar | object | interface | union | enum | input
-/
import NitroVerif.Base.Sexp
import NitroVerif.Gql.Ast
namespace NitroVerif.Gql
open NitroVerif

namespace Dec

def pos : Sexp → Option Pos
  | .list [.atom "p"] => some {}
  | .list [.atom "pb"] => some { builtin := true }
  | .list [.atom "p", l, c] => do some { line := ← l.nat?, col := ← c.nat? }
  | .list [.atom "p", l, c, f] => do some { line := ← l.nat?, col := ← c.nat?, file := ← f.nat? }
  | _ => none

partial def gtype : Sexp → Option GType
  | .list [.atom "named", .str n, p] => do some (.named n (← pos p))
  | .list [.atom "list", t, p] => do some (.list (← gtype t) (← pos p))
  | .list [.atom "nonnull", t] => do some (.nonNull (← gtype t))
  | _ => none

def bool? : Sexp → Option Bool
  | .atom "true" => some true
  | .atom "false" => some false
  | _ => none

mutual
partial def value : Sexp → Option Value
  | .list [.atom "var", .str n, p] => do some (.var n (← pos p))
  | .list [.atom "int", .str n, p] => do some (.int n (← pos p))
  | .list [.atom "float", .str n, p] => do some (.float n (← pos p))
  | .list [.atom "str", .str n, p] => do some (.str n (← pos p))
  | .list [.atom "bool", b, p] => do some (.bool (← bool? b) (← pos p))
  | .list [.atom "null", p] => do some (.null (← pos p))
  | .list [.atom "enum", .str n, p] => do some (.enum n (← pos p))
  | .list [.atom "list", .list vs, p] => do some (.list (← vs.mapM value) (← pos p))
  | .list [.atom "obj", .list fs, p] => do some (.obj (← fs.mapM arg) (← pos p))
  | _ => none
partial def arg : Sexp → Option Arg
  | .list [.atom "arg", .str n, p, v] => do some (n, ← pos p, ← value v)
  | _ => none
end

def dir : Sexp → Option Directive
  | .list [.atom "dir", .str n, np, .list as, p] => do
    some { name := n, namePos := ← pos np, args := ← as.mapM arg, pos := ← pos p }
  | _ => none

def optName (tag none_ : String) : Sexp → Option (Option (Name × Pos))
  | .list [.atom t, .str n, p] => if t == tag then do some (some (n, ← pos p)) else none
  | .list [.atom t] => if t == none_ then some none else none
  | _ => none

partial def sel : Sexp → Option Selection
  | .list [.atom "field", al, .str n, np, .list as, .list ds, ss] => do
    let alias ← optName "alias" "noalias" al
    let sub ← match ss with
      | .list (.atom "sel" :: xs) => do some (some (← xs.mapM sel))
      | .list [.atom "nosel"] => some none
      | _ => none
    some (.field alias n (← pos np) (← as.mapM arg) (← ds.mapM dir) sub)
  | .list [.atom "spread", .str n, np, .list ds, p] => do
    some (.spread n (← pos np) (← ds.mapM dir) (← pos p))
  | .list [.atom "inline", c, .list ds, .list ss, p] => do
    some (.inline (← optName "on" "noon" c) (← ds.mapM dir) (← ss.mapM sel) (← pos p))
  | _ => none

def optValue : Sexp → Option (Option Value)
  | .list [.atom "default", v] => do some (some (← value v))
  | .list [.atom "nodefault"] => some none
  | _ => none

def vardef : Sexp → Option VarDef
  | .list [.atom "vardef", .str n, p, t, d, .list ds] => do
    some { name := n, pos := ← pos p, ty := ← gtype t, default := ← optValue d, dirs := ← ds.mapM dir }
  | _ => none

def opKind : Sexp → Option OpKind
  | .atom "query" => some .query
  | .atom "mutation" => some .mutation
  | .atom "subscription" => some .subscription
  | _ => none

def execDef : Sexp → Option ExecDef
  | .list [.atom "op", k, nm, .list vs, .list ds, .list ss, p] => do
    some (.op { kind := ← opKind k, name := ← optName "name" "noname" nm, vars := ← vs.mapM vardef,
                dirs := ← ds.mapM dir, sel := ← ss.mapM sel, pos := ← pos p })
  | .list [.atom "frag", .str n, np, .str c, cp, .list ds, .list ss, p] => do
    some (.frag { name := n, namePos := ← pos np, cond := c, condPos := ← pos cp, dirs := ← ds.mapM dir,
                  sel := ← ss.mapM sel, pos := ← pos p })
  | .list [.atom "import", .list ts, .str path, p] => do
    let targets ← ts.mapM (optName "target" "wildcard")
    some (.imp { targets, path, pos := ← pos p })
  | _ => none

def doc : Sexp → Option Doc
  | .list (.atom "doc" :: ds) => ds.mapM execDef
  | _ => none

def desc : Sexp → Option (Option String)
  | .list [.atom "desc", .str s] => some (some s)
  | .list [.atom "nodesc"] => some none
  | _ => none

def ivdef : Sexp → Option InputValueDef
  | .list [.atom "ivdef", d, .str n, p, t, dv, .list ds] => do
    some { desc := ← desc d, name := n, pos := ← pos p, ty := ← gtype t, default := ← optValue dv, dirs := ← ds.mapM dir }
  | _ => none

def fdef : Sexp → Option FieldDef
  | .list [.atom "fdef", d, .str n, p, .list as, t, .list ds] => do
    some { desc := ← desc d, name := n, pos := ← pos p, args := ← as.mapM ivdef, ty := ← gtype t, dirs := ← ds.mapM dir }
  | _ => none

def evdef : Sexp → Option EnumValueDef
  | .list [.atom "evdef", d, .str n, p, .list ds] => do
    some { desc := ← desc d, name := n, pos := ← pos p, dirs := ← ds.mapM dir }
  | _ => none

def namePos : Sexp → Option (Name × Pos)
  | .list [.str n, p] => do some (n, ← pos p)
  | _ => none

def typeKind : Sexp → Option TypeKind
  | .atom "scalar" => some .scalar
  | .atom "object" => some .object
  | .atom "interface" => some .interface
  | .atom "union" => some .union
  | .atom "enum" => some .enum
  | .atom "input" => some .input
  | _ => none

def typeDefBody : List Sexp → Option TypeDef
  | [k, d, .str n, np, .list impl, .list ds, .list fs, .list ms, .list vs, .list ins, p] => do
    some { kind := ← typeKind k, desc := ← desc d, name := n, namePos := ← pos np, implements := ← impl.mapM namePos,
           dirs := ← ds.mapM dir, fields := ← fs.mapM fdef, members := ← ms.mapM namePos, values := ← vs.mapM evdef,
           inputs := ← ins.mapM ivdef, pos := ← pos p }
  | _ => none

def root : Sexp → Option (OpKind × Name × Pos)
  | .list [.atom "root", k, .str n, p] => do some (← opKind k, n, ← pos p)
  | _ => none

def schemaBody : List Sexp → Option SchemaDef
  | [d, .list ds, .list rs, p] => do
    some { desc := ← desc d, dirs := ← ds.mapM dir, roots := ← rs.mapM root, pos := ← pos p }
  | _ => none

def locName : Sexp → Option Name
  | .str s => some s
  | _ => none

def tsItem : Sexp → Option TsItem
  | .list (.atom "typedef" :: body) => do some (.typeDef (← typeDefBody body))
  | .list (.atom "typeext" :: body) => do some (.typeExt (← typeDefBody body))
  | .list [.atom "dirdef", d, .str n, np, .list as, rep, .list locs, p] => do
    some (.directiveDef { desc := ← desc d, name := n, namePos := ← pos np, args := ← as.mapM ivdef,
                          repeatable := ← bool? rep, locations := ← locs.mapM locName, pos := ← pos p })
  | .list (.atom "schemadef" :: body) => do some (.schemaDef (← schemaBody body))
  | .list (.atom "schemaext" :: body) => do some (.schemaExt (← schemaBody body))
  | _ => none

def tsDoc : Sexp → Option TsDoc
  | .list (.atom "tsdoc" :: is) => is.mapM tsItem
  | _ => none

end Dec

namespace Enc

def pos (p : Pos) : Sexp :=
  if p.builtin then .list [.atom "pb"]
  else if p.file == 0 then .list [.atom "p", Sexp.ofNat p.line, Sexp.ofNat p.col]
  else .list [.atom "p", Sexp.ofNat p.line, Sexp.ofNat p.col, Sexp.ofNat p.file]

def gtype : GType → Sexp
  | .named n p => .list [.atom "named", .str n, pos p]
  | .list t p => .list [.atom "list", gtype t, pos p]
  | .nonNull t => .list [.atom "nonnull", gtype t]

mutual
partial def value : Value → Sexp
  | .var n p => .list [.atom "var", .str n, pos p]
  | .int n p => .list [.atom "int", .str n, pos p]
  | .float n p => .list [.atom "float", .str n, pos p]
  | .str n p => .list [.atom "str", .str n, pos p]
  | .bool b p => .list [.atom "bool", Sexp.ofBool b, pos p]
  | .null p => .list [.atom "null", pos p]
  | .enum n p => .list [.atom "enum", .str n, pos p]
  | .list vs p => .list [.atom "list", .list (vs.map value), pos p]
  | .obj fs p => .list [.atom "obj", .list (fs.map arg), pos p]
partial def arg : Arg → Sexp
  | (n, p, v) => .list [.atom "arg", .str n, pos p, value v]
end

def dir (d : Directive) : Sexp :=
  .list [.atom "dir", .str d.name, pos d.namePos, .list (d.args.map arg), pos d.pos]

def optName (tag none_ : String) : Option (Name × Pos) → Sexp
  | some (n, p) => .list [.atom tag, .str n, pos p]
  | none => .list [.atom none_]

partial def sel : Selection → Sexp
  | .field al n np as ds ss =>
    .list [.atom "field", optName "alias" "noalias" al, .str n, pos np, .list (as.map arg), .list (ds.map dir),
      match ss with
      | some xs => .list (.atom "sel" :: xs.map sel)
      | none => .list [.atom "nosel"]]
  | .spread n np ds p => .list [.atom "spread", .str n, pos np, .list (ds.map dir), pos p]
  | .inline c ds ss p => .list [.atom "inline", optName "on" "noon" c, .list (ds.map dir), .list (ss.map sel), pos p]

def optValue : Option Value → Sexp
  | some v => .list [.atom "default", value v]
  | none => .list [.atom "nodefault"]

def vardef (v : VarDef) : Sexp :=
  .list [.atom "vardef", .str v.name, pos v.pos, gtype v.ty, optValue v.default, .list (v.dirs.map dir)]

def execDef : ExecDef → Sexp
  | .op o => .list [.atom "op", .atom o.kind.asStr, optName "name" "noname" o.name, .list (o.vars.map vardef),
      .list (o.dirs.map dir), .list (o.sel.map sel), pos o.pos]
  | .frag f => .list [.atom "frag", .str f.name, pos f.namePos, .str f.cond, pos f.condPos, .list (f.dirs.map dir),
      .list (f.sel.map sel), pos f.pos]
  | .imp i => .list [.atom "import", .list (i.targets.map (optName "target" "wildcard")), .str i.path, pos i.pos]

def doc (d : Doc) : Sexp := .list (.atom "doc" :: d.map execDef)

def desc : Option String → Sexp
  | some s => .list [.atom "desc", .str s]
  | none => .list [.atom "nodesc"]

def ivdef (v : InputValueDef) : Sexp :=
  .list [.atom "ivdef", desc v.desc, .str v.name, pos v.pos, gtype v.ty, optValue v.default, .list (v.dirs.map dir)]

def fdef (f : FieldDef) : Sexp :=
  .list [.atom "fdef", desc f.desc, .str f.name, pos f.pos, .list (f.args.map ivdef), gtype f.ty, .list (f.dirs.map dir)]

def evdef (v : EnumValueDef) : Sexp :=
  .list [.atom "evdef", desc v.desc, .str v.name, pos v.pos, .list (v.dirs.map dir)]

def namePos : Name × Pos → Sexp
  | (n, p) => .list [.str n, pos p]

def typeDefBody (t : TypeDef) : List Sexp :=
  [.atom t.kind.asStr, desc t.desc, .str t.name, pos t.namePos, .list (t.implements.map namePos), .list (t.dirs.map dir),
   .list (t.fields.map fdef), .list (t.members.map namePos), .list (t.values.map evdef), .list (t.inputs.map ivdef), pos t.pos]

def schemaBody (s : SchemaDef) : List Sexp :=
  [desc s.desc, .list (s.dirs.map dir),
   .list (s.roots.map fun (k, n, p) => .list [.atom "root", .atom k.asStr, .str n, pos p]), pos s.pos]

def tsItem : TsItem → Sexp
  | .typeDef t => .list (.atom "typedef" :: typeDefBody t)
  | .typeExt t => .list (.atom "typeext" :: typeDefBody t)
  | .directiveDef d => .list [.atom "dirdef", desc d.desc, .str d.name, pos d.namePos, .list (d.args.map ivdef),
      Sexp.ofBool d.repeatable, .list (d.locations.map .str), pos d.pos]
  | .schemaDef s => .list (.atom "schemadef" :: schemaBody s)
  | .schemaExt s => .list (.atom "schemaext" :: schemaBody s)

def tsDoc (d : TsDoc) : Sexp := .list (.atom "tsdoc" :: d.map tsItem)

end Enc

end NitroVerif.Gql
