/-
Lookup view of a resolved type-system document — the shape `ast_to_type_system` builds
(`crates/semantics/src/ast_to_type_system.rs` + `crates/type-system`): the first definition of a name wins
(`SchemaBuilder::extend` uses `entry().or_insert`), names are iterated in first-insertion order, root
type names default to Query / Mutation / Subscription (`RootTypes::unwrap_or_default`).
Core Lean only; all functions structurally recursive (kernel-evaluable).
-/
import NitroVerif.Gql.Ast
namespace NitroVerif.Gql

structure Schema where
  items : TsDoc
  deriving Repr, Inhabited

namespace Schema

def typeDefs (s : Schema) : List TypeDef :=
  s.items.filterMap fun | .typeDef t => some t | _ => none

def directiveDefs (s : Schema) : List DirectiveDef :=
  s.items.filterMap fun | .directiveDef d => some d | _ => none

def schemaDefs (s : Schema) : List SchemaDef :=
  s.items.filterMap fun | .schemaDef d => some d | _ => none

/-- `Schema::get_type`: the first definition with that name -/
def typeDef? (s : Schema) (n : Name) : Option TypeDef :=
  s.typeDefs.find? (·.name == n)

def directiveDef? (s : Schema) (n : Name) : Option DirectiveDef :=
  s.directiveDefs.find? (·.name == n)

/-- type names in first-insertion order, without repetition (`type_names`) -/
def typeNames (s : Schema) : List Name :=
  s.typeDefs.foldl (fun acc t => if acc.contains t.name then acc else acc ++ [t.name]) []

/-- explicitly set root type of a kind: the last `kind: Name` entry over all schema definitions
    (`set_root_types` reuses one `RootTypes` value; each entry overwrites) -/
def explicitRoot? (s : Schema) (k : OpKind) : Option Name :=
  (s.schemaDefs.flatMap (·.roots)).foldl (fun acc (k', n, _) => if k' == k then some n else acc) none

def defaultRootName : OpKind → Name
  | .query => "Query" | .mutation => "Mutation" | .subscription => "Subscription"

/-- `root_types().unwrap_or_default()` -/
def rootName (s : Schema) (k : OpKind) : Name :=
  (s.explicitRoot? k).getD (defaultRootName k)

def kindOf? (s : Schema) (n : Name) : Option TypeKind := (s.typeDef? n).map (·.kind)

def isComposite (s : Schema) (n : Name) : Bool :=
  match s.kindOf? n with
  | some .object | some .interface | some .union => true
  | _ => false

def isInputKind : TypeKind → Bool
  | .scalar | .enum | .input => true
  | _ => false

def isOutputKind : TypeKind → Bool
  | .input => false
  | _ => true

/-- declared fields of an object or interface type -/
def fieldsOf (s : Schema) (n : Name) : List FieldDef :=
  match s.typeDef? n with
  | some t => t.fields
  | none => []

def field? (s : Schema) (parent fname : Name) : Option FieldDef :=
  (s.fieldsOf parent).find? (·.name == fname)

/-- object types that list `iface` among their `implements` -/
def objectImplementers (s : Schema) (iface : Name) : List Name :=
  (s.typeDefs.filter fun t => t.kind == .object && t.implements.any (·.1 == iface)).map (·.name)

/-- possible runtime object types of a composite type (spec `GetPossibleTypes`) -/
def possibleTypes (s : Schema) (n : Name) : List Name :=
  match s.typeDef? n with
  | some t => match t.kind with
    | .object => [t.name]
    | .union => t.members.map (·.1)
    | .interface => s.objectImplementers n
    | _ => []
  | none => []

end Schema
end NitroVerif.Gql
