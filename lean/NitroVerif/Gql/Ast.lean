/-
Shared GraphQL vocabulary: abstract syntax of executable documents and type-system documents,
mirroring `crates/ast` of nitrogql (operation.rs, selection_set.rs, value.rs, type.rs, directive.rs,
variable.rs, operation_ext.rs, type_system.rs). Positions are carried by every node that has one in
the Rust AST, so that functions can be stated "modulo positions" (`Pos.none`).

Nested occurrences (`List Value`, `List (Name × Pos × Value)`, `List Selection`) are handled by mutual
structural recursion (kernel-evaluable; see `Value.size`/`Selection.size` for the pattern).
Core Lean only.
-/
namespace NitroVerif.Gql

abbrev Name := String

structure Pos where
  line : Nat := 0
  col : Nat := 0
  file : Nat := 0
  builtin : Bool := false
  deriving DecidableEq, Repr, Inhabited, BEq

def Pos.none : Pos := {}

/-- `Pos`'s `Ord` in the Rust code compares (line, column) only -/
def Pos.le (a b : Pos) : Bool := a.line < b.line || (a.line == b.line && a.col ≤ b.col)
def Pos.lt (a b : Pos) : Bool := a.line < b.line || (a.line == b.line && a.col < b.col)

inductive GType where
  | named (n : Name) (pos : Pos)
  | list (t : GType) (pos : Pos)
  | nonNull (t : GType)
  deriving Repr, Inhabited, DecidableEq, BEq

namespace GType
def unwrapped : GType → Name
  | named n _ => n
  | list t _ => t.unwrapped
  | nonNull t => t.unwrapped
def isNonNull : GType → Bool
  | nonNull _ => true
  | _ => false
/-- `Type::is_same` (names only, positions ignored) -/
def same : GType → GType → Bool
  | named a _, named b _ => a == b
  | list a _, list b _ => same a b
  | nonNull a, nonNull b => same a b
  | _, _ => false
def erasePos : GType → GType
  | named n _ => named n Pos.none
  | list t _ => list t.erasePos Pos.none
  | nonNull t => nonNull t.erasePos
/-- `Display for Type` -/
def render : GType → String
  | named n _ => n
  | list t _ => "[" ++ t.render ++ "]"
  | nonNull t => t.render ++ "!"
end GType

inductive Value where
  | var (n : Name) (pos : Pos)
  | int (s : String) (pos : Pos)
  | float (s : String) (pos : Pos)
  | str (s : String) (pos : Pos)
  | bool (b : Bool) (pos : Pos)
  | null (pos : Pos)
  | enum (n : Name) (pos : Pos)
  | list (vs : List Value) (pos : Pos)
  | obj (fs : List (Name × Pos × Value)) (pos : Pos)
  deriving Repr, Inhabited

abbrev Arg := Name × Pos × Value

mutual
def Value.size : Value → Nat
  | .list vs _ => Value.sizeList vs + 1
  | .obj fs _ => Value.sizeFields fs + 1
  | _ => 1
def Value.sizeList : List Value → Nat
  | [] => 0
  | v :: vs => v.size + Value.sizeList vs
def Value.sizeFields : List (Name × Pos × Value) → Nat
  | [] => 0
  | (_, _, v) :: r => v.size + Value.sizeFields r
end

mutual
def Value.erasePos : Value → Value
  | .var n _ => .var n Pos.none
  | .int s _ => .int s Pos.none
  | .float s _ => .float s Pos.none
  | .str s _ => .str s Pos.none
  | .bool b _ => .bool b Pos.none
  | .null _ => .null Pos.none
  | .enum n _ => .enum n Pos.none
  | .list vs _ => .list (Value.erasePosList vs) Pos.none
  | .obj fs _ => .obj (Value.erasePosFields fs) Pos.none
def Value.erasePosList : List Value → List Value
  | [] => []
  | v :: vs => v.erasePos :: Value.erasePosList vs
def Value.erasePosFields : List (Name × Pos × Value) → List (Name × Pos × Value)
  | [] => []
  | (n, _, v) :: r => (n, Pos.none, v.erasePos) :: Value.erasePosFields r
end

mutual
def Value.beq : Value → Value → Bool
  | .var a p, .var b q => a == b && p == q
  | .int a p, .int b q => a == b && p == q
  | .float a p, .float b q => a == b && p == q
  | .str a p, .str b q => a == b && p == q
  | .bool a p, .bool b q => a == b && p == q
  | .null p, .null q => p == q
  | .enum a p, .enum b q => a == b && p == q
  | .list a p, .list b q => Value.beqList a b && p == q
  | .obj a p, .obj b q => Value.beqFields a b && p == q
  | _, _ => false
def Value.beqList : List Value → List Value → Bool
  | [], [] => true
  | a :: as, b :: bs => a.beq b && Value.beqList as bs
  | _, _ => false
def Value.beqFields : List (Name × Pos × Value) → List (Name × Pos × Value) → Bool
  | [], [] => true
  | (k, p, a) :: as, (k', q, b) :: bs => k == k' && p == q && a.beq b && Value.beqFields as bs
  | _, _ => false
end
instance : BEq Value := ⟨Value.beq⟩

def Value.pos : Value → Pos
  | .var _ p | .int _ p | .float _ p | .str _ p | .bool _ p | .null p | .enum _ p | .list _ p | .obj _ p => p

structure Directive where
  name : Name
  namePos : Pos := {}
  args : List Arg := []
  pos : Pos := {}
  deriving Repr, Inhabited

inductive Selection where
  /-- `alias: name(args) @dirs { sel }`; position of a field = position of its alias or name -/
  | field (alias : Option (Name × Pos)) (name : Name) (namePos : Pos) (args : List Arg)
      (dirs : List Directive) (sel : Option (List Selection))
  | spread (name : Name) (namePos : Pos) (dirs : List Directive) (pos : Pos)
  | inline (cond : Option (Name × Pos)) (dirs : List Directive) (sel : List Selection) (pos : Pos)
  deriving Repr, Inhabited

mutual
def Selection.size : Selection → Nat
  | .field _ _ _ _ _ (some ss) => Selection.sizeList ss + 1
  | .field _ _ _ _ _ none => 1
  | .spread .. => 1
  | .inline _ _ ss _ => Selection.sizeList ss + 1
def Selection.sizeList : List Selection → Nat
  | [] => 0
  | s :: ss => s.size + Selection.sizeList ss
end

/-- response key of a field: alias if present, else name -/
def Selection.responseKey : Selection → Option Name
  | .field (some (a, _)) _ _ _ _ _ => some a
  | .field none n _ _ _ _ => some n
  | _ => none

inductive OpKind where
  | query | mutation | subscription
  deriving DecidableEq, Repr, Inhabited, BEq

def OpKind.asStr : OpKind → String
  | .query => "query" | .mutation => "mutation" | .subscription => "subscription"

structure VarDef where
  name : Name
  pos : Pos := {}
  ty : GType
  default : Option Value := none
  dirs : List Directive := []
  deriving Repr, Inhabited

structure OperationDef where
  kind : OpKind
  name : Option (Name × Pos) := none
  vars : List VarDef := []
  dirs : List Directive := []
  sel : List Selection
  pos : Pos := {}
  deriving Repr, Inhabited

structure FragmentDef where
  name : Name
  namePos : Pos := {}
  cond : Name
  condPos : Pos := {}
  dirs : List Directive := []
  sel : List Selection
  pos : Pos := {}
  deriving Repr, Inhabited

/-- `#import A, B from "path"` / `#import * from "path"`; a target is `none` for the wildcard -/
structure ImportDef where
  targets : List (Option (Name × Pos))
  path : String
  pos : Pos := {}
  deriving Repr, Inhabited

inductive ExecDef where
  | op (o : OperationDef)
  | frag (f : FragmentDef)
  | imp (i : ImportDef)
  deriving Repr, Inhabited

abbrev Doc := List ExecDef

/-! ### type system -/

structure InputValueDef where
  desc : Option String := none
  name : Name
  pos : Pos := {}
  ty : GType
  default : Option Value := none
  dirs : List Directive := []
  deriving Repr, Inhabited

structure FieldDef where
  desc : Option String := none
  name : Name
  pos : Pos := {}
  args : List InputValueDef := []
  ty : GType
  dirs : List Directive := []
  deriving Repr, Inhabited

structure EnumValueDef where
  desc : Option String := none
  name : Name
  pos : Pos := {}
  dirs : List Directive := []
  deriving Repr, Inhabited

inductive TypeKind where
  | scalar | object | interface | union | enum | input
  deriving DecidableEq, Repr, Inhabited, BEq

def TypeKind.asStr : TypeKind → String
  | .scalar => "scalar" | .object => "object" | .interface => "interface"
  | .union => "union" | .enum => "enum" | .input => "input"

/-- One shape for the six kinds of type definitions and for the six kinds of type extensions: the
    components a kind does not have are empty (`implements`/`fields` for object and interface,
    `members` for union, `values` for enum, `inputs` for input object). -/
structure TypeDef where
  kind : TypeKind
  desc : Option String := none
  name : Name
  namePos : Pos := {}
  implements : List (Name × Pos) := []
  dirs : List Directive := []
  fields : List FieldDef := []
  members : List (Name × Pos) := []
  values : List EnumValueDef := []
  inputs : List InputValueDef := []
  pos : Pos := {}
  deriving Repr, Inhabited

structure DirectiveDef where
  desc : Option String := none
  name : Name
  namePos : Pos := {}
  args : List InputValueDef := []
  repeatable : Bool := false
  locations : List Name := []
  pos : Pos := {}
  deriving Repr, Inhabited

structure SchemaDef where
  desc : Option String := none
  dirs : List Directive := []
  roots : List (OpKind × Name × Pos) := []
  pos : Pos := {}
  deriving Repr, Inhabited

inductive TsItem where
  | schemaDef (s : SchemaDef)
  | typeDef (t : TypeDef)
  | directiveDef (d : DirectiveDef)
  | schemaExt (s : SchemaDef)
  | typeExt (t : TypeDef)
  deriving Repr, Inhabited

abbrev TsDoc := List TsItem

end NitroVerif.Gql
